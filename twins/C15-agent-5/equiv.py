"""Equivalence witness for the refactoring of SchedulingSolver.build_solution
(calendar times of a task, resource solutions) and util.sort_no_duplicates.

Run from the worktree:  cd /tmp/t6_C15 && /venv/bin/python _twin/equiv.py
Prints, per case, a canonical description of the outcome (solution values,
sorted solver assertions, or the error raised).
"""
import contextlib
import io
import os
import re
import sys
import warnings
from datetime import datetime, timedelta

sys.path.insert(0, os.getcwd())

import z3  # noqa: E402

import processscheduler as ps  # noqa: E402
from processscheduler.util import sort_no_duplicates  # noqa: E402

assert ps.__file__.startswith(os.getcwd()), ps.__file__

warnings.simplefilter("ignore")

# The uid of every library object is uuid4().int and is part of some z3 names
# (Selected_<worker>_<uid>): with random names the search order of z3, hence the
# schedule picked among equally good ones, differs from one run to the next. The
# witness makes the uids reproducible (test harness only, the library is untouched).
import random  # noqa: E402
import uuid  # noqa: E402

import processscheduler.base as ps_base  # noqa: E402

_UID_RNG = random.Random()


def _reproducible_uuid4():
    return uuid.UUID(int=_UID_RNG.getrandbits(128), version=4)


ps_base.uuid4 = _reproducible_uuid4


def mask(text):
    """mask the random part of generated names"""
    text = re.sub(r"asst_[0-9a-f]{8}", "asst_XXXXXXXX", text)
    text = re.sub(r"(_)[0-9]{8,}(?![0-9])", r"\1NNNNNNNN", text)
    return text


def describe_solution(solution):
    if not solution:
        return [f"NO SOLUTION ({solution!r})"]
    lines = [f"horizon={solution.horizon}"]
    for name in sorted(solution.tasks):
        t = solution.tasks[name]
        lines.append(
            "task "
            + repr(
                (
                    t.name,
                    t.type,
                    t.start,
                    t.end,
                    t.duration,
                    t.optional,
                    t.scheduled,
                    t.start_time,
                    t.end_time,
                    t.duration_time,
                    t.release_date,
                    t.due_date,
                    t.due_date_is_deadline,
                    t.work_amount,
                    t.priority,
                    list(t.assigned_resources),
                )
            )
        )
    # keep the registration order of the resources: it is part of the behaviour
    for name, r in solution.resources.items():
        lines.append("resource " + repr((name, r.name, r.type, list(r.assignments))))
    for name, b in solution.buffers.items():
        lines.append(
            "buffer " + repr((name, list(b.level), list(b.level_change_times)))
        )
    for name in sorted(solution.indicators):
        lines.append(f"indicator {name}={solution.indicators[name]}")
    return [mask(line) for line in lines]


def run(title, build, configurations=({},), show_assertions=False, exact=True):
    """build() creates a new problem; each configuration is solved on a new one"""
    print("=" * 70)
    print(title)
    for configuration in configurations:
        print(f"--- configuration {configuration}")
        _UID_RNG.seed(20240229)
        try:
            sink = io.StringIO()
            with contextlib.redirect_stdout(sink):
                problem = build()
                solver = ps.SchedulingSolver(problem=problem, **configuration)
                solution = solver.solve()
            if show_assertions:
                for line in sorted(mask(str(a)) for a in solver._solver.assertions()):
                    print("  asst", " ".join(line.split()))
            if exact:
                for line in describe_solution(solution):
                    print(" ", line)
            else:
                # the search is not reproducible (random seeds, threads): only the
                # answer every configuration must agree on
                if solution:
                    print("  feasible, tasks", sorted(solution.tasks))
                    print("  resources", list(solution.resources))
                    if configuration.get("optimize_priority") != "box":
                        # (the model z3 leaves after a box optimisation is not an
                        # optimum of any objective and changes from run to run)
                        print("  indicators", sorted(solution.indicators.items()))
                        print("  horizon", solution.horizon)
                else:
                    print("  NO SOLUTION")
        except Exception as exc:  # pylint: disable=broad-except
            print("  ERROR", type(exc).__name__, mask(str(exc)))


# ----------------------------------------------------------------------------
# case 1: sort_no_duplicates alone, 0 to 4 values, and wrong inputs
# ----------------------------------------------------------------------------
def case_sort_direct():
    print("=" * 70)
    print("case 1: sort_no_duplicates on 0..4 values / wrong inputs")
    for n in range(5):
        values = [z3.Int(f"v{i}") for i in range(n)]
        sorted_vars, constraints = sort_no_duplicates(values)
        print(f"  n={n} sorted={[str(v) for v in sorted_vars]}")
        for c in constraints:
            print("     ", " ".join(str(c).split()))
        # the sort is a sort: check it on concrete, distinct values
        s = z3.Solver()
        s.add(constraints)
        s.add([v == 10 - 3 * i for i, v in enumerate(values)])
        verdict = s.check()
        model = s.model() if verdict == z3.sat else None
        print("      check", verdict, [model[v].as_long() for v in sorted_vars] if model else None)
        # equal values cannot be sorted strictly
        if n >= 2:
            s = z3.Solver()
            s.add(constraints)
            s.add(values[0] == values[1])
            print("      duplicate values ->", s.check())
    # mixed python / z3 values
    sorted_vars, constraints = sort_no_duplicates([z3.Int("p"), 0, -2])
    print("  mixed", [str(v) for v in sorted_vars], [" ".join(str(c).split()) for c in constraints])
    for wrong in (None, 5, (z3.Int(f"g{i}") for i in range(2))):
        try:
            print("  wrong input", type(wrong).__name__, sort_no_duplicates(wrong))
        except Exception as exc:  # pylint: disable=broad-except
            print("  wrong input", type(wrong).__name__, "->", type(exc).__name__, exc)
    # a tuple is indexable too
    sorted_vars, constraints = sort_no_duplicates((z3.Int("t0"), z3.Int("t1")))
    print("  tuple", [str(v) for v in sorted_vars], [" ".join(str(c).split()) for c in constraints])


# ----------------------------------------------------------------------------
# case 2: calendar times, start_time and delta_time given; an optional task of
# fixed duration left unscheduled, a zero duration task, a task at start 0
# ----------------------------------------------------------------------------
def build_calendar(start_time=datetime(2024, 2, 29, 22, 30), delta=timedelta(minutes=45)):
    def build():
        kwargs = {"name": "Calendar", "horizon": 12}
        if delta is not None:
            kwargs["delta_time"] = delta
        if start_time is not None:
            kwargs["start_time"] = start_time
        problem = ps.SchedulingProblem(**kwargs)
        t_first = ps.FixedDurationTask(name="first", duration=3, priority=2)
        t_var = ps.VariableDurationTask(name="var", min_duration=2, max_duration=4, work_amount=6)
        t_zero = ps.ZeroDurationTask(name="milestone")
        t_opt_off = ps.FixedDurationTask(name="opt_off", duration=5, optional=True)
        t_opt_on = ps.FixedDurationTask(
            name="opt_on", duration=2, optional=True, release_date=1, due_date=11
        )
        worker = ps.Worker(name="W", productivity=2)
        for t in (t_first, t_var, t_opt_off, t_opt_on):
            t.add_required_resource(worker)
        ps.TaskStartAt(task=t_first, value=0)
        ps.TaskPrecedence(task_before=t_first, task_after=t_var, kind="tight")
        ps.TaskEndAt(task=t_zero, value=7)
        ps.OptionalTaskForceSchedule(task=t_opt_off, to_be_scheduled=False)
        ps.OptionalTaskForceSchedule(task=t_opt_on, to_be_scheduled=True)
        ps.TaskStartAt(task=t_opt_on, value=9)
        ps.ObjectiveMinimizeMakespan()
        return problem

    return build


# ----------------------------------------------------------------------------
# case 3: cumulative workers (several sub workers reported under one name),
# a plain worker whose registration comes between, select workers
# ----------------------------------------------------------------------------
def build_cumulative():
    problem = ps.SchedulingProblem(name="Cumulative", horizon=9)
    tasks = [ps.FixedDurationTask(name=f"T{i}", duration=2 + i % 2) for i in range(4)]
    cumulative = ps.CumulativeWorker(name="Pool", size=2)
    plain = ps.Worker(name="Plain")
    other_pool = ps.CumulativeWorker(name="Pool2", size=3)
    for t in tasks[:3]:
        t.add_required_resource(cumulative)
    tasks[3].add_required_resource(plain)
    tasks[0].add_required_resource(plain)
    tasks[3].add_required_resource(other_pool)
    ps.TaskStartAt(task=tasks[0], value=0)
    ps.TaskStartAt(task=tasks[1], value=0)
    ps.TaskStartAt(task=tasks[2], value=3)
    ps.TaskStartAt(task=tasks[3], value=5)
    return problem


# ----------------------------------------------------------------------------
# case 4: alternative workers + non delay (the sorter in a constraint), with
# several solver configurations that must agree on the optimum
# ----------------------------------------------------------------------------
def build_non_delay():
    problem = ps.SchedulingProblem(name="NonDelay")
    jobs = [ps.FixedDurationTask(name=f"J{i}", duration=d) for i, d in enumerate([3, 2, 4, 1])]
    ps.TaskPrecedence(task_before=jobs[0], task_after=jobs[2])
    ps.TaskPrecedence(task_before=jobs[1], task_after=jobs[3])
    m1 = ps.Worker(name="M1")
    m2 = ps.Worker(name="M2")
    for j in jobs:
        j.add_required_resource(ps.SelectWorkers(list_of_workers=[m1, m2]))
    ps.ResourceNonDelay(resource=m1)
    ps.ResourceNonDelay(resource=m2)
    ps.ObjectiveMinimizeMakespan()
    return problem


# ----------------------------------------------------------------------------
# case 5: sorter with a single value / optional elements: worker with one task,
# contiguous list of one task, idle indicator with an unscheduled optional task
# ----------------------------------------------------------------------------
def build_single_value():
    problem = ps.SchedulingProblem(name="SingleValue", horizon=20)
    alone = ps.FixedDurationTask(name="alone", duration=4)
    w_alone = ps.Worker(name="Walone")
    alone.add_required_resource(w_alone)
    ps.ResourceNonDelay(resource=w_alone)
    ps.TasksContiguous(list_of_tasks=[alone])
    t1 = ps.FixedDurationTask(name="t1", duration=2)
    t2 = ps.FixedDurationTask(name="t2", duration=5)
    t3 = ps.FixedDurationTask(name="t3", duration=8, optional=True)
    ps.TaskStartAt(task=t1, value=3)
    ps.TaskStartAt(task=t2, value=11)
    ps.TaskStartAt(task=alone, value=0)
    ps.OptionalTaskForceSchedule(task=t3, to_be_scheduled=False)
    w = ps.Worker(name="Machine1")
    for t in (t1, t2, t3):
        t.add_required_resource(w)
    ps.IndicatorResourceIdle(resource=w)
    return problem


# ----------------------------------------------------------------------------
# case 6: buffers + contiguous tasks + two objectives, all priority modes
# ----------------------------------------------------------------------------
def build_buffers():
    problem = ps.SchedulingProblem(name="Buffers", horizon=10, delta_time=timedelta(0))
    t1 = ps.FixedDurationTask(name="load", duration=3)
    t2 = ps.FixedDurationTask(name="unload", duration=2)
    t3 = ps.FixedDurationTask(name="free", duration=1, priority=5)
    buffer = ps.NonConcurrentBuffer(name="Buf", initial_level=0)
    ps.TaskLoadBuffer(task=t1, buffer=buffer, quantity=4)
    ps.TaskUnloadBuffer(task=t2, buffer=buffer, quantity=4)
    w = ps.Worker(name="Op")
    for t in (t1, t2, t3):
        t.add_required_resource(w)
    ps.TasksContiguous(list_of_tasks=[t1, t2, t3])
    ps.ObjectiveMinimizeMakespan()
    ps.ObjectiveMinimizeFlowtime()
    return problem


# ----------------------------------------------------------------------------
# case 7: an infeasible problem (the same answer under every configuration) and
# a non delay worker with no task at all (sorter on zero values)
# ----------------------------------------------------------------------------
def build_infeasible():
    problem = ps.SchedulingProblem(name="Infeasible", horizon=5)
    a = ps.FixedDurationTask(name="a", duration=3)
    b = ps.FixedDurationTask(name="b", duration=3)
    w = ps.Worker(name="W")
    a.add_required_resource(w)
    b.add_required_resource(w)
    ps.ResourceNonDelay(resource=w)
    return problem


def build_no_task_worker():
    problem = ps.SchedulingProblem(name="NoTaskWorker", horizon=5)
    a = ps.FixedDurationTask(name="a", duration=3)
    w = ps.Worker(name="W")
    idle = ps.Worker(name="Idle")
    a.add_required_resource(w)
    ps.ResourceNonDelay(resource=idle)
    ps.IndicatorResourceIdle(resource=idle)
    return problem


if __name__ == "__main__":
    case_sort_direct()

    run(
        "case 2a: calendar, start_time + delta_time",
        build_calendar(),
        [{}, {"optimizer": "optimize"}, {"logics": "QF_UFIDL"}, {"debug": True}],
    )
    run("case 2b: calendar, delta_time only", build_calendar(start_time=None))
    run("case 2c: calendar, start_time only", build_calendar(delta=None))
    run("case 2d: calendar, neither", build_calendar(start_time=None, delta=None))
    run("case 2e: calendar, delta_time of zero", build_calendar(delta=timedelta(0)))

    run(
        "case 3: cumulative workers",
        build_cumulative,
        [{}, {"logics": "QF_IDL"}, {"debug": True}],
    )

    run(
        "case 4a: alternative workers + non delay, reproducible configurations",
        build_non_delay,
        [
            {},
            {"optimizer": "optimize"},
            {"optimizer": "optimize", "optimize_priority": "lex"},
            {"logics": "QF_UFIDL"},
            {"max_iter": 1},
        ],
        show_assertions=True,
    )
    run(
        "case 4b: alternative workers + non delay, non reproducible search",
        build_non_delay,
        [{"random_values": True}, {"parallel": True}, {"parallel": True, "optimizer": "optimize"}],
        exact=False,
    )

    run(
        "case 5: sorter on a single value, unscheduled optional task",
        build_single_value,
        [{}, {"debug": True}],
        show_assertions=True,
    )

    run(
        "case 6: buffers, contiguous tasks, two objectives",
        build_buffers,
        [
            {},
            {"optimizer": "optimize", "optimize_priority": "weight"},
            {"optimizer": "optimize", "optimize_priority": "lex"},
            {"optimizer": "optimize", "optimize_priority": "pareto"},
        ],
    )
    run(
        "case 6b: buffers, two objectives, box priority (model not reproducible)",
        build_buffers,
        [{"optimizer": "optimize", "optimize_priority": "box"}],
        exact=False,
    )

    run(
        "case 7a: infeasible",
        build_infeasible,
        [{}, {"optimizer": "optimize"}, {"debug": True}, {"logics": "QF_UFIDL"}],
    )
    run("case 7b: worker without task", build_no_task_worker, show_assertions=True)
