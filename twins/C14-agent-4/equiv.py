"""Behaviour fingerprint for the refactoring of processscheduler/resource.py
(_distribute_p_over_n, CumulativeWorker.__init__, SelectWorkers.__init__).

Run from the worktree root:  cd /tmp/t5_C14 && /venv/bin/python _twin/equiv.py
The output must be identical with and without the patch (uuids are masked).
"""
import contextlib
import io
import os
import re
import sys

sys.path.insert(0, os.getcwd())

import z3  # noqa: E402

import processscheduler as ps  # noqa: E402
import processscheduler.base  # noqa: E402
from processscheduler.resource import _distribute_p_over_n  # noqa: E402

assert os.path.dirname(ps.__file__).startswith(os.getcwd()), ps.__file__

# random parts of names: uuid4().int (or its first 8 digits) and uuid4().hex[:8]
_UID = re.compile(r"(?<![0-9a-zA-Z])[0-9a-f]{8,}(?![0-9a-zA-Z])")


def mask(text, numbering=None):
    """mask the random parts of names and normalise the white space (the z3
    pretty printer wraps lines according to the length of the names). With a
    numbering dict, every distinct random part gets its own rank."""
    if numbering is None:
        out = _UID.sub("<UID>", str(text))
    else:
        out = _UID.sub(
            lambda m: f"<UID{numbering.setdefault(m.group(0), len(numbering) + 1)}>",
            str(text),
        )
    return re.sub(r"\s+", " ", out)


def err(exc):
    # pydantic messages: keep the first three lines only (error count, location, message)
    lines = str(exc).splitlines()
    return f"{type(exc).__name__}: {mask(' | '.join(lines[:3]))}"


def quiet(func, *args, **kwargs):
    with contextlib.redirect_stdout(io.StringIO()):
        return func(*args, **kwargs)


def describe_worker(w):
    cost = w.cost
    cost_txt = (
        f"{type(cost).__name__}({cost.value!r})"
        if isinstance(cost, ps.ConstantFunction)
        else repr(cost)
    )
    return f"{w.name}[prod={w.productivity!r},cost={cost_txt}]"


def describe_problem_registries(pb):
    print("   workers           :", list(pb.workers))
    print("   cumulative_workers:", list(pb.cumulative_workers))
    print("   select_workers    :", [mask(n) for n in pb.select_workers])


def describe_select(sw):
    print("   name              :", mask(sw.name))
    print("   _list_of_workers  :", [w.name for w in sw._list_of_workers])
    print(
        "   _selection_dict   :",
        [(w.name, mask(b), b.sort().name()) for w, b in sw._selection_dict.items()],
    )
    print("   _selection_asst   :", mask(sw._selection_assertion))
    print("   decl kind         :", sw._selection_assertion.decl().name())
    print("   to_json           :", mask(sw.to_json(compact=True)))


def solver_fingerprint(pb, **solver_kwargs):
    solver = ps.SchedulingSolver(problem=pb, **solver_kwargs)
    solution = quiet(solver.solve)
    # random parts are numbered in the order the solver received the assertions
    numbering = {}
    assertions = sorted([mask(a, numbering) for a in solver._solver.assertions()])
    print("   nb assertions     :", len(assertions))
    for a in assertions:
        print("      ", a)
    if not solution:
        print("   verdict           : no solution")
        return None
    print("   verdict           : solution, horizon", solution.horizon)
    for name, t in solution.tasks.items():
        print(
            "      task",
            name,
            t.start,
            t.end,
            t.duration,
            "scheduled" if t.scheduled else "not scheduled",
            sorted(t.assigned_resources),
        )
    for name, r in solution.resources.items():
        print("      resource", name, sorted(r.assignments))
    for name, v in solution.indicators.items():
        print("      indicator", mask(name), v)
    return solution


def section(title):
    print()
    print("=" * 4, title)


# ----------------------------------------------------------------------
section("1. _distribute_p_over_n, table of values and errors")
ps.SchedulingProblem(name="Distribute")
p_values = [
    ("None", None),
    ("0", 0),
    ("1", 1),
    ("7", 7),
    ("10", 10),
    ("-5", -5),
    ("True", True),
    ("CF(7)", ps.ConstantFunction(value=7)),
    ("CF(0)", ps.ConstantFunction(value=0)),
    ("CF(-4)", ps.ConstantFunction(value=-4)),
    ("CF(7.5)", ps.ConstantFunction(value=7.5)),
    ("CF(0.3)", ps.ConstantFunction(value=0.3)),
    ("LF", ps.LinearFunction(slope=1, intercept=2)),
    ("PF", ps.PolynomialFunction(coefficients=[1, 2])),
    ("'7'", "7"),
    ("2.5", 2.5),
    ("[7]", [7]),
]
for label, p in p_values:
    for n in (1, 2, 3, 4, 7, 0, -1, -3):
        try:
            res = _distribute_p_over_n(p, n)
            out = f"{res!r} types={[type(v).__name__ for v in res]}"
        except Exception as exc:  # pylint: disable=broad-except
            out = err(exc)
        print(f"   p={label:8s} n={n:2d} -> {out}")

# ----------------------------------------------------------------------
section("2. CumulativeWorker: elementary workers, names, productivity, cost")
pb = ps.SchedulingProblem(name="Cumul")
specs = [
    dict(name="M_default", size=2),
    dict(name="M7_3", size=3, productivity=7),
    dict(name="M_cost", size=4, productivity=2, cost=ps.ConstantFunction(value=10)),
    dict(name="M_cost0", size=3, productivity=3, cost=ps.ConstantFunction(value=0)),
    dict(name="M_costf", size=2, productivity=5, cost=ps.ConstantFunction(value=2.5)),
    dict(name="M_big", size=5, productivity=1),
]
for spec in specs:
    cw = ps.CumulativeWorker(**spec)
    print("  ", cw.name, "size", cw.size, "->")
    for w in cw._cumulative_workers:
        print("      ", describe_worker(w), type(w).__name__)
    sw = cw.get_select_workers()
    describe_select(sw)
describe_problem_registries(pb)
# a default-named one
cw = ps.CumulativeWorker(size=2)
print("   default name:", mask(cw.name), [mask(w.name) for w in cw._cumulative_workers])

# ----------------------------------------------------------------------
section("3. CumulativeWorker: errors and state left behind")
pb = ps.SchedulingProblem(name="CumulErr")
bad_specs = [
    dict(name="S1", size=1),
    dict(name="S0", size=0),
    dict(name="Sf", size=2.5),
    dict(name="P0", size=2, productivity=0),
    dict(name="Pneg", size=2, productivity=-1),
    dict(name="Pnone", size=2, productivity=None),
    dict(name="Cnone", size=2, cost=None),
    dict(name="Clin", size=2, cost=ps.LinearFunction(slope=1, intercept=1)),
    dict(name="Cpoly", size=3, cost=ps.PolynomialFunction(coefficients=[1, 1, 1])),
    dict(name="Nosize"),
]
for spec in bad_specs:
    try:
        ps.CumulativeWorker(**spec)
        print("   ", spec["name"], "-> created")
    except Exception as exc:  # pylint: disable=broad-except
        print("   ", spec["name"], "->", err(exc))
describe_problem_registries(pb)
# name clash with an existing elementary worker, half way through
ps.Worker(name="Clash_CumulativeWorker_2")
try:
    ps.CumulativeWorker(name="Clash", size=3)
    print("    Clash -> created")
except Exception as exc:  # pylint: disable=broad-except
    print("    Clash ->", err(exc))
describe_problem_registries(pb)
# same cumulative twice
ps.CumulativeWorker(name="Twice", size=2)
try:
    ps.CumulativeWorker(name="Twice", size=2)
    print("    Twice -> created")
except Exception as exc:  # pylint: disable=broad-except
    print("    Twice ->", err(exc))
describe_problem_registries(pb)
# no active problem
saved = processscheduler.base.active_problem
processscheduler.base.active_problem = None
for maker in (
    lambda: ps.CumulativeWorker(name="NoCtx", size=2),
    lambda: ps.Worker(name="NoCtxW"),
):
    try:
        maker()
        print("    no context -> created")
    except Exception as exc:  # pylint: disable=broad-except
        print("    no context ->", err(exc))
processscheduler.base.active_problem = saved

# ----------------------------------------------------------------------
section("4. SelectWorkers: kinds, counts, duplicates, cumulative members, errors")
pb = ps.SchedulingProblem(name="Select")
w1 = ps.Worker(name="W1")
w2 = ps.Worker(name="W2", productivity=0)
w3 = ps.Worker(name="W3", cost=ps.ConstantFunction(value=3))
cw1 = ps.CumulativeWorker(name="CW1", size=2)
cw2 = ps.CumulativeWorker(name="CW2", size=3, productivity=4)
select_specs = [
    dict(list_of_workers=[w1, w2]),
    dict(name="sw_min", list_of_workers=[w1, w2, w3], nb_workers_to_select=2, kind="min"),
    dict(name="sw_max", list_of_workers=[w3, w1, w2], nb_workers_to_select=1, kind="max"),
    dict(name="sw_exact", list_of_workers=[w2, w3], nb_workers_to_select=2, kind="exact"),
    dict(name="sw_dup", list_of_workers=[w1, w1, w2], nb_workers_to_select=3),
    dict(name="sw_cumul", list_of_workers=[cw1, w1, cw2], nb_workers_to_select=2, kind="min"),
    dict(name="sw_cumul2", list_of_workers=[cw2, cw1], kind="max"),
    dict(name="sw_too_many", list_of_workers=[w1, w2], nb_workers_to_select=3),
    dict(name="sw_zero", list_of_workers=[w1, w2], nb_workers_to_select=0),
    dict(name="sw_neg", list_of_workers=[w1, w2], nb_workers_to_select=-1),
    dict(name="sw_one", list_of_workers=[w1]),
    dict(name="sw_empty", list_of_workers=[]),
    dict(name="sw_kind", list_of_workers=[w1, w2], kind="atleast"),
    dict(name="sw_type", list_of_workers=[w1, "W2"]),
    dict(name="sw_min", list_of_workers=[w1, w2]),  # duplicated name
    dict(name="sw_tuple", list_of_workers=(w2, w1), nb_workers_to_select=2, kind="max"),
]
for spec in select_specs:
    print("  spec", spec.get("name"), spec.get("kind"), spec.get("nb_workers_to_select"))
    try:
        sw = ps.SelectWorkers(**spec)
        describe_select(sw)
    except Exception as exc:  # pylint: disable=broad-except
        print("   ->", err(exc))
describe_problem_registries(pb)
saved = processscheduler.base.active_problem
processscheduler.base.active_problem = None
try:
    ps.SelectWorkers(name="sw_noctx", list_of_workers=[w1, w2])
    print("   no context -> created")
except Exception as exc:  # pylint: disable=broad-except
    print("   no context ->", err(exc))
processscheduler.base.active_problem = saved


# ----------------------------------------------------------------------
def build_select_problem(names, order, kind="exact", nb=1, optional=False, horizon=6):
    """two tasks that both need nb workers among three; names / order vary"""
    pb_ = ps.SchedulingProblem(name="SelPb", horizon=horizon)
    ta = ps.FixedDurationTask(name=names["TA"], duration=2, optional=optional)
    tb = ps.FixedDurationTask(name=names["TB"], duration=3)
    workers = {}
    for key in order:
        workers[key] = ps.Worker(
            name=names[key], cost=ps.ConstantFunction(value={"A": 1, "B": 2, "C": 5}[key])
        )
    lst = [workers[k] for k in order]
    swa = ps.SelectWorkers(name=names["SA"], list_of_workers=lst, nb_workers_to_select=nb, kind=kind)
    swb = ps.SelectWorkers(name=names["SB"], list_of_workers=lst, nb_workers_to_select=nb, kind=kind)
    ta.add_required_resource(swa)
    tb.add_required_resource(swb)
    return pb_, ta, tb, workers, swa, swb


base_names = dict(TA="TA", TB="TB", A="A", B="B", C="C", SA="SA", SB="SB")
other_names = dict(TA="zz_t", TB="aa_t", A="w_9", B="w_1", C="w_5", SA="s_b", SB="s_a")

section("5. solved problems with SelectWorkers (assertions + solutions)")
for kind, nb, optional in (
    ("exact", 1, False),
    ("min", 2, False),
    ("max", 1, True),
    ("exact", 3, False),
):
    print("  -- kind", kind, "nb", nb, "optional", optional)
    pb, ta, tb, workers, swa, swb = build_select_problem(
        base_names, "ABC", kind=kind, nb=nb, optional=optional
    )
    if kind != "max":
        ps.ObjectiveMinimizeMakespan()
    solver_fingerprint(pb)

section("6. solved problems with CumulativeWorker, WorkLoad, cost, SameWorkers")
print("  -- cumulative size 2, three tasks, horizon 4")
pb = ps.SchedulingProblem(name="CumPb", horizon=4)
tasks = [ps.FixedDurationTask(name=f"T{i}", duration=2) for i in range(3)]
cw = ps.CumulativeWorker(name="Mach", size=2, productivity=3, cost=ps.ConstantFunction(value=5))
for t in tasks:
    t.add_required_resource(cw)
ps.IndicatorResourceCost(list_of_resources=[cw])
ps.IndicatorResourceUtilization(resource=cw._cumulative_workers[0])
solver_fingerprint(pb)

print("  -- cumulative size 2, three tasks, horizon 3 (infeasible)")
pb = ps.SchedulingProblem(name="CumPbInf", horizon=3)
tasks = [ps.FixedDurationTask(name=f"T{i}", duration=2) for i in range(3)]
cw = ps.CumulativeWorker(name="Mach", size=2)
for t in tasks:
    t.add_required_resource(cw)
solver_fingerprint(pb)

print("  -- variable duration with work amount and distributed productivity")
pb = ps.SchedulingProblem(name="CumWork")
tv = ps.VariableDurationTask(name="TV", work_amount=12)
cw = ps.CumulativeWorker(name="Mach", size=3, productivity=7)
sw = ps.SelectWorkers(name="pick", list_of_workers=[cw, ps.Worker(name="Solo", productivity=2)], nb_workers_to_select=1)
tv.add_required_resource(cw)
ps.ObjectiveMinimizeMakespan()
solver_fingerprint(pb)

print("  -- WorkLoad on a cumulative worker, optional task")
pb = ps.SchedulingProblem(name="CumLoad", horizon=6)
t1 = ps.FixedDurationTask(name="T1", duration=3)
t2 = ps.FixedDurationTask(name="T2", duration=3, optional=True)
cw = ps.CumulativeWorker(name="Mach", size=2)
t1.add_required_resource(cw)
t2.add_required_resource(cw)
ps.WorkLoad(resource=cw, dict_time_intervals_and_bound={(0, 3): 1}, kind="max")
ps.ForceScheduleNOptionalTasks(list_of_optional_tasks=[t2], nb_tasks_to_schedule=1)
solver_fingerprint(pb)

print("  -- SameWorkers / DistinctWorkers + minimal cost")
for cls in (ps.SameWorkers, ps.DistinctWorkers):
    pb, ta, tb, workers, swa, swb = build_select_problem(base_names, "ABC", horizon=5)
    cls(select_workers_1=swa, select_workers_2=swb)
    ps.ObjectiveMinimizeResourceCost(list_of_resources=list(workers.values()))
    sol = solver_fingerprint(pb)

# ----------------------------------------------------------------------
section("7. the property itself: renaming, permutation, earlier problems")


def verdict_and_optimum(names, order, kind, nb, horizon, constraint=None):
    pb_, ta, tb, workers, swa, swb = build_select_problem(
        names, order, kind=kind, nb=nb, horizon=horizon
    )
    if constraint is not None:
        constraint(select_workers_1=swa, select_workers_2=swb)
    ps.ObjectiveMinimizeResourceCost(list_of_resources=[workers[k] for k in order])
    solver = ps.SchedulingSolver(problem=pb_)
    sol = quiet(solver.solve)
    if not sol:
        return "infeasible"
    back = {v: k for k, v in names.items()}
    cost = [v for k, v in sol.indicators.items() if k.startswith("Total Cost")]
    assigned = {
        back[name]: sorted(back[r] for r in t.assigned_resources)
        for name, t in sol.tasks.items()
    }
    return f"cost={cost} nb_assigned={ {k: len(v) for k, v in sorted(assigned.items())} }"


for kind, nb, horizon, constraint in (
    ("exact", 1, 5, None),
    ("exact", 1, 3, None),
    ("exact", 2, 3, None),
    ("exact", 2, 5, None),
    ("min", 1, 3, ps.DistinctWorkers),
    ("max", 2, 3, ps.SameWorkers),
    ("exact", 3, 4, None),
    ("exact", 1, 2, None),
):
    results = []
    for names in (base_names, other_names):
        for order in ("ABC", "CAB", "BCA"):
            # an unrelated earlier problem in the same process
            junk = ps.SchedulingProblem(name="junk", horizon=2)
            ps.SelectWorkers(
                name="SA", list_of_workers=[ps.Worker(name="A"), ps.Worker(name="B")]
            )
            ps.CumulativeWorker(name="C", size=2)
            results.append(verdict_and_optimum(names, order, kind, nb, horizon, constraint))
    print(
        f"   kind={kind} nb={nb} horizon={horizon} "
        f"constraint={getattr(constraint, '__name__', None)}: "
        f"all equal={len(set(results)) == 1} -> {sorted(set(results))}"
    )

print()
print("done")
