"""Equivalence script for the refactoring of WorkLoad.__init__ and
ResourceTasksDistance.__init__ (processscheduler/resource_constraint.py).

Run from the worktree root:  cd /tmp/t3_C04 && /venv/bin/python _twin/equiv.py
For every scenario it prints the constraint's own z3 assertions (in order,
random name parts masked), the full sorted list of the solver's assertions and
the solution (or the error raised).
"""
import contextlib
import io
import os
import re
import sys

sys.path.insert(0, os.getcwd())

import processscheduler as ps  # noqa: E402

assert os.path.dirname(ps.__file__).startswith(os.getcwd()), ps.__file__


class Masker:
    """Replace random name parts by their rank of first appearance."""

    def __init__(self):
        self.seen = {}

    def _sub(self, kind, token):
        key = (kind, token)
        if key not in self.seen:
            self.seen[key] = f"<{kind}{sum(1 for k in self.seen if k[0] == kind)}>"
        return self.seen[key]

    def __call__(self, text):
        text = re.sub(r"\s+", " ", text)
        text = re.sub(
            r"(Overlap_-?\d+_-?\d+_)([0-9a-f]{8})",
            lambda m: m.group(1) + self._sub("ov", m.group(2)),
            text,
        )
        text = re.sub(r"x!\d+", lambda m: self._sub("fresh", m.group(0)), text)
        text = re.sub(
            r"constraint_(\d+)_applied",
            lambda m: "constraint_" + self._sub("uid", m.group(1)) + "_applied",
            text,
        )
        text = re.sub(
            r"(Selected_\w+?_)(\d{6,})",
            lambda m: m.group(1) + self._sub("sel", m.group(2)),
            text,
        )
        text = re.sub(
            r"[0-9a-f]{8}-?[0-9a-f]{4}-?[0-9a-f]{4}-?[0-9a-f]{4}-?[0-9a-f]{12}",
            lambda m: self._sub("uuid", m.group(0)),
            text,
        )
        return text


def report(title, build, solve=True):
    print("=" * 78)
    print(title)
    mask = Masker()
    try:
        pb, constraints, objective = build()
    except Exception as exc:  # the error is part of the behaviour
        print("  ERROR", type(exc).__name__, mask(str(exc)))
        return
    for cstr in constraints:
        print(f"  -- own assertions of {type(cstr).__name__} (in order)")
        for asst in cstr.get_z3_assertions():
            print("    ", mask(str(asst)))
    if not solve:
        return
    try:
        # the solver prints progress lines with elapsed times: keep them out
        with contextlib.redirect_stdout(io.StringIO()):
            solver = ps.SchedulingSolver(problem=pb, random_values=False)
            solution = solver.solve()
    except Exception as exc:
        print("  SOLVE ERROR", type(exc).__name__, mask(str(exc)))
        return
    print("  -- solver assertions (sorted)")
    for line in sorted(mask(str(a)) for a in solver._solver.assertions()):
        print("    ", line)
    if not solution:
        print("  SOLUTION: none (unsat)")
        return
    print("  SOLUTION horizon", solution.horizon)
    for name in sorted(solution.tasks):
        t = solution.tasks[name]
        print(
            "    task", name, t.scheduled, t.start, t.end, t.duration,
            sorted(t.assigned_resources),
        )
    for name in sorted(solution.indicators):
        print("    indicator", name, solution.indicators[name])


def two_tasks(pb_name, horizon, d1, d2, optional2=False):
    pb = ps.SchedulingProblem(name=pb_name, horizon=horizon)
    t1 = ps.FixedDurationTask(name="t1", duration=d1)
    t2 = ps.FixedDurationTask(name="t2", duration=d2, optional=optional2)
    w = ps.Worker(name="W")
    t1.add_required_resource(w)
    t2.add_required_resource(w)
    return pb, t1, t2, w


# ---------------------------------------------------------------- WorkLoad
def wl(kind, bounds, optional=False, horizon=14, cumulative=False):
    def build():
        pb = ps.SchedulingProblem(name=f"WL_{kind}", horizon=horizon)
        t1 = ps.FixedDurationTask(name="t1", duration=5)
        t2 = ps.FixedDurationTask(name="t2", duration=3)
        if cumulative:
            w = ps.CumulativeWorker(name="CW", size=2)
        else:
            w = ps.Worker(name="W")
        t1.add_required_resource(w)
        t2.add_required_resource(w)
        kwargs = dict(
            name="wl", resource=w, dict_time_intervals_and_bound=bounds,
            optional=optional,
        )
        if kind is not None:
            kwargs["kind"] = kind
        c = ps.WorkLoad(**kwargs)
        ps.TaskStartAt(name="sa", task=t1, value=2)
        extra = []
        if optional:
            extra.append(
                ps.ForceApplyNOptionalConstraints(
                    name="force", list_of_optional_constraints=[c],
                    nb_constraints_to_apply=1,
                )
            )
        ps.ObjectiveMinimizeMakespan(name="mk")
        return pb, [c], None

    return build


report("WL1 WorkLoad default kind (max), one interval", wl(None, {(0, 6): 4}))
report("WL2 WorkLoad exact, two intervals", wl("exact", {(0, 6): 4, (7, 14): 3}))
report("WL3 WorkLoad min, bound 0 and interval starting at 0", wl("min", {(0, 4): 0, (6, 12): 2}))
report("WL4 WorkLoad max with bound 0 (edge)", wl("max", {(7, 10): 0}))
report("WL5 WorkLoad optional + forced, exact", wl("exact", {(3, 9): 5}, optional=True))
report("WL6 WorkLoad on a CumulativeWorker, max", wl("max", {(0, 5): 4}, cumulative=True))
report("WL7 WorkLoad empty dict (edge: no assertion, no error)", wl("min", {}))
report("WL8 WorkLoad exact infeasible (unsat)", wl("exact", {(0, 14): 3}))


def wl_unassigned():
    ps.SchedulingProblem(name="WL_unassigned", horizon=10)
    w = ps.Worker(name="W")
    c = ps.WorkLoad(name="wl", resource=w, dict_time_intervals_and_bound={(0, 6): 2}, kind="min")
    return None, [c], None


report("WL9 WorkLoad on unassigned resource -> AssertionError", wl_unassigned)


def wl_bad_kind():
    pb, t1, t2, w = two_tasks("WL_badkind", 10, 2, 2)
    c = ps.WorkLoad(name="wl", resource=w, dict_time_intervals_and_bound={(0, 6): 2}, kind="atleast")
    return pb, [c], None


report("WL10 WorkLoad invalid kind -> validation error", wl_bad_kind)


# ---------------------------------------------------- ResourceTasksDistance
def rtd(mode, distance, intervals="unset", optional=False, optional2=False,
        three=False, horizon=20, start1=1):
    def build():
        pb, t1, t2, w = two_tasks(f"RTD_{mode}", horizon, 4, 3, optional2=optional2)
        if three:
            t3 = ps.FixedDurationTask(name="t3", duration=2)
            t3.add_required_resource(w)
            # keep the optimum unique: t2 before t3
            ps.TaskPrecedence(name="prec", task_before=t2, task_after=t3)
        kwargs = dict(name="rtd", resource=w, distance=distance, optional=optional)
        if mode is not None:
            kwargs["mode"] = mode
        if intervals != "unset":
            kwargs["list_of_time_intervals"] = intervals
        c = ps.ResourceTasksDistance(**kwargs)
        ps.TaskStartAt(name="sa", task=t1, value=start1)
        if optional:
            ps.ForceApplyNOptionalConstraints(
                name="force", list_of_optional_constraints=[c],
                nb_constraints_to_apply=1,
            )
        ps.ObjectiveMinimizeMakespan(name="mk")
        return pb, [c], None

    return build


report("RTD1 default mode (exact), distance 4", rtd(None, 4))
report("RTD2 max, distance 0 (edge)", rtd("max", 0))
report("RTD3 min, distance 3, three tasks", rtd("min", 3, three=True))
report("RTD4 exact, two time intervals", rtd("exact", 2, intervals=[(0, 10), (12, 20)]))
report("RTD5 min, empty interval list (edge: Or([]))", rtd("min", 5, intervals=[]))
report("RTD6 max, distance 1, no intervals, optional second task", rtd("max", 1, optional2=True))
report("RTD6b explicit list_of_time_intervals=None -> validation error", rtd("max", 1, intervals=None))
report("RTD7 optional constraint forced, exact, three tasks, one interval",
       rtd("exact", 1, intervals=[(0, 20)], optional=True, three=True))
report("RTD8 exact distance too large for horizon (unsat)", rtd("exact", 30))


def rtd_one_task():
    ps.SchedulingProblem(name="RTD_one", horizon=10)
    w = ps.Worker(name="W")
    t = ps.FixedDurationTask(name="t", duration=1)
    t.add_required_resource(w)
    c = ps.ResourceTasksDistance(name="rtd", resource=w, distance=0, mode="min")
    return None, [c], None


def rtd_no_task():
    ps.SchedulingProblem(name="RTD_none", horizon=10)
    w = ps.Worker(name="W")
    c = ps.ResourceTasksDistance(name="rtd", resource=w, distance=0, list_of_time_intervals=[(0, 5)])
    return None, [c], None


def rtd_bad_mode():
    pb, t1, t2, w = two_tasks("RTD_badmode", 10, 2, 2)
    c = ps.ResourceTasksDistance(name="rtd", resource=w, distance=1, mode="atmost")
    return pb, [c], None


report("RTD9 one task only -> AssertionError", rtd_one_task)
report("RTD10 no task -> AssertionError", rtd_no_task)
report("RTD11 invalid mode -> validation error", rtd_bad_mode)


# --------------------- untouched neighbours, as a guard for the whole module
def nondelay(force_schedule):
    def build():
        pb, t1, t2, w = two_tasks("ND", 20, 4, 3, optional2=True)
        c = ps.ResourceNonDelay(name="nd", resource=w)
        ps.TaskStartAt(name="sa", task=t1, value=0)
        if force_schedule:
            ps.ForceScheduleNOptionalTasks(
                name="fs", list_of_optional_tasks=[t2], nb_tasks_to_schedule=1
            )
        ps.ObjectiveMinimizeMakespan(name="mk")
        return pb, [c], None

    return build


def unavailable_and_workload():
    pb, t1, t2, w = two_tasks("UNAV", 20, 4, 3)
    c1 = ps.ResourceUnavailable(name="ru", resource=w, list_of_time_intervals=[(0, 3), (8, 10)])
    c2 = ps.WorkLoad(name="wl", resource=w, dict_time_intervals_and_bound={(0, 8): 4}, kind="exact")
    c3 = ps.ResourceTasksDistance(name="rtd", resource=w, distance=3, mode="min")
    ps.TaskStartAt(name="sa", task=t1, value=3)
    ps.ObjectiveMinimizeMakespan(name="mk")
    return pb, [c1, c2, c3], None


report("MIX1 ResourceNonDelay with optional task left unscheduled", nondelay(False))
report("MIX1b ResourceNonDelay with optional task forced", nondelay(True))
report("MIX2 ResourceUnavailable + WorkLoad exact + distance min", unavailable_and_workload)
