"""Equivalence script for the C18 refactoring (SelectWorkers.__init__ and
ForceApplyNOptionalConstraints.__init__).

Prints, for a number of small problems, a canonical description of the outcome:
the error raised at creation, or the sorted list of the solver assertions and the
solution values. uuids are masked.
"""
import os
import re
import sys

sys.path.insert(0, os.getcwd())

import z3  # noqa: E402
from pydantic import ValidationError  # noqa: E402

import processscheduler as ps  # noqa: E402
import processscheduler.base  # noqa: E402

assert os.path.dirname(os.path.abspath(ps.__file__)).startswith(os.getcwd()), ps.__file__


def mask(text):
    """mask the random parts of the names (uuid4().int, or its first 8 digits,
    or 8 hexadecimal digits of a uuid in the Overlap_* variables)"""
    text = re.sub(r"(Overlap_\d+_\d+_)[0-9a-f]{8}", r"\1UID", str(text))
    return re.sub(r"\d{8,}", "UID", text)


class _MaskTimings:
    """stdout filter: the solver itself prints elapsed times, mask them"""

    def __init__(self, stream):
        self.stream = stream

    def write(self, text):
        text = re.sub(r"elapsed time:\s*[0-9.]+s", "elapsed time:Xs", text)
        text = re.sub(r"(satisfiability checked in )[0-9.]+s", r"\1Xs", text)
        return self.stream.write(text)

    def flush(self):
        self.stream.flush()


sys.stdout = _MaskTimings(sys.stdout)


def describe_error(exc):
    if isinstance(exc, ValidationError):
        items = sorted(
            (".".join(str(p) for p in e["loc"]), e["type"]) for e in exc.errors()
        )
        return f"ValidationError {items}"
    return f"{type(exc).__name__}: {mask(exc)}"


def attempt(label, thunk):
    """run thunk, print the canonical outcome, return the created object or None"""
    try:
        obj = thunk()
    except Exception as exc:  # pylint: disable=broad-except
        print(f"  [{label}] REJECTED {describe_error(exc)}")
        return None
    desc = mask(getattr(obj, "name", obj))
    own = sorted(mask(a) for a in obj.get_z3_assertions()) if hasattr(
        obj, "get_z3_assertions"
    ) else []
    print(f"  [{label}] ACCEPTED {type(obj).__name__} {desc} assertions={own}")
    return obj


def registry(problem):
    print(
        "  registry:",
        "tasks", sorted(mask(k) for k in problem.tasks),
        "workers", sorted(mask(k) for k in problem.workers),
        "select", sorted(mask(k) for k in problem.select_workers),
        "cumulative", sorted(mask(k) for k in problem.cumulative_workers),
        "constraints", sorted(mask(k) for k in problem.constraints),
        "indicators", sorted(mask(k) for k in problem.indicators),
        "buffers", sorted(mask(b.name) for b in problem.buffers),
    )


def solve_and_describe(problem, **solver_args):
    solver = ps.SchedulingSolver(problem=problem, **solver_args)
    solver.initialize()
    for line in sorted(mask(a) for a in solver._solver.assertions()):
        print("    A:", line.replace("\n", " "))
    solution = solver.solve()
    if not solution:
        print("    SOLUTION: none")
        return
    print("    SOLUTION horizon", solution.horizon)
    for name in sorted(solution.tasks):
        t = solution.tasks[name]
        print(
            "     task", mask(name), t.start, t.end, t.scheduled,
            sorted(mask(r) for r in t.assigned_resources),
        )
    for name in sorted(solution.indicators):
        print("     indicator", mask(name), solution.indicators[name])


def section(title):
    print("=" * 70)
    print(title)


# ----------------------------------------------------------------------------
section("P0: elements created before any problem exists")
processscheduler.base.active_problem = None
attempt("task no problem", lambda: ps.FixedDurationTask(name="t", duration=1))
attempt("zero task no problem", lambda: ps.ZeroDurationTask(name="t"))
attempt("var task no problem", lambda: ps.VariableDurationTask(name="t"))
attempt("worker no problem", lambda: ps.Worker(name="w"))
attempt("cumulative no problem", lambda: ps.CumulativeWorker(name="c", size=2))
attempt(
    "constraint no problem",
    lambda: ps.ConstraintFromExpression(expression=z3.Bool("b")),
)
attempt(
    "force apply no problem",
    lambda: ps.ForceApplyNOptionalConstraints(list_of_optional_constraints=[]),
)

# ----------------------------------------------------------------------------
section("P1: task parameters, edge values")
pb = ps.SchedulingProblem(name="P1", horizon=10)
for dur in (-1, 0, 1, 3):
    attempt(f"fixed duration={dur}", lambda d=dur: ps.FixedDurationTask(name=f"F{d}", duration=d))
for wa in (-1, 0, 2):
    attempt(
        f"work_amount={wa}",
        lambda v=wa: ps.FixedDurationTask(name=f"WA{v}", duration=2, work_amount=v),
    )
for prio in (-1, 0, 5):
    attempt(
        f"priority={prio}",
        lambda v=prio: ps.ZeroDurationTask(name=f"PR{v}", priority=v),
    )
for md in (-1, 0, 2):
    attempt(
        f"min_duration={md}",
        lambda v=md: ps.VariableDurationTask(name=f"MD{v}", min_duration=v, max_duration=4),
    )
attempt("duplicate task name", lambda: ps.FixedDurationTask(name="F1", duration=2))
attempt("duplicate across kinds", lambda: ps.ZeroDurationTask(name="F3"))
attempt("optional var task", lambda: ps.VariableDurationTask(name="OV", optional=True, allowed_durations=[1, 2]))
registry(pb)
solve_and_describe(pb)

# ----------------------------------------------------------------------------
section("P2: workers, cumulative workers, duplicate names")
pb = ps.SchedulingProblem(name="P2", horizon=8)
attempt("worker", lambda: ps.Worker(name="W1"))
attempt("worker dup", lambda: ps.Worker(name="W1"))
attempt("worker productivity=-1", lambda: ps.Worker(name="Wneg", productivity=-1))
attempt("worker productivity=0", lambda: ps.Worker(name="W0", productivity=0))
for size in (-1, 0, 1, 2, 3):
    attempt(f"cumulative size={size}", lambda s=size: ps.CumulativeWorker(name=f"C{s}", size=s))
attempt("cumulative dup", lambda: ps.CumulativeWorker(name="C2", size=2))
attempt("cumulative productivity=0", lambda: ps.CumulativeWorker(name="Cp0", size=2, productivity=0))
attempt("cumulative prod 7 over 3", lambda: ps.CumulativeWorker(name="Cp7", size=3, productivity=7))
registry(pb)
print("  productivities", sorted((k, w.productivity) for k, w in pb.workers.items()))

# ----------------------------------------------------------------------------
section("P3: SelectWorkers creation, all kinds and edge counts")
pb = ps.SchedulingProblem(name="P3", horizon=12)
ws = [ps.Worker(name=f"W{i}") for i in range(4)]
cw = ps.CumulativeWorker(name="CW", size=2)
for kind in ("exact", "min", "max", "bad"):
    for nb in (-1, 0, 1, 2, 3):
        sw = attempt(
            f"select kind={kind} nb={nb} of 2",
            lambda k=kind, n=nb: ps.SelectWorkers(
                name=f"S_{k}_{n}", list_of_workers=ws[:2], nb_workers_to_select=n, kind=k
            ),
        )
        if sw is not None:
            print(
                "     selection:", mask(sw._selection_assertion),
                [mask(w.name) for w in sw._list_of_workers],
                [(mask(w.name), mask(v)) for w, v in sw._selection_dict.items()],
            )
attempt("select empty", lambda: ps.SelectWorkers(name="S_e", list_of_workers=[]))
attempt("select one", lambda: ps.SelectWorkers(name="S_1", list_of_workers=ws[:1]))
attempt("select default", lambda: ps.SelectWorkers(name="S_d", list_of_workers=ws))
attempt("select dup name", lambda: ps.SelectWorkers(name="S_d", list_of_workers=ws))
attempt("select 4 of 4", lambda: ps.SelectWorkers(name="S_44", list_of_workers=ws, nb_workers_to_select=4, kind="min"))
attempt("select 5 of 4", lambda: ps.SelectWorkers(name="S_54", list_of_workers=ws, nb_workers_to_select=5, kind="max"))
sw = attempt(
    "select with cumulative",
    lambda: ps.SelectWorkers(name="S_c", list_of_workers=[ws[0], cw, ws[1]], nb_workers_to_select=3),
)
print("     flat list:", [w.name for w in sw._list_of_workers], mask(sw._selection_assertion))
sw = attempt(
    "select with repeated worker",
    lambda: ps.SelectWorkers(name="S_r", list_of_workers=[ws[0], ws[0], ws[1]], nb_workers_to_select=3),
)
if sw is not None:
    print("     flat list:", [w.name for w in sw._list_of_workers], mask(sw._selection_assertion))
attempt("select 4 of (w, w, w)", lambda: ps.SelectWorkers(name="S_r4", list_of_workers=[ws[0]] * 3, nb_workers_to_select=4))
sw = attempt("select unnamed", lambda: ps.SelectWorkers(list_of_workers=ws[2:]))
print("     json:", mask(sw.to_json(compact=True)))
registry(pb)

# ----------------------------------------------------------------------------
section("P4: SelectWorkers assigned to tasks and solved")
for kind, nb in (("exact", 1), ("min", 2), ("max", 1), ("exact", 3)):
    pb = ps.SchedulingProblem(name=f"P4_{kind}_{nb}")
    t1 = ps.FixedDurationTask(name="T1", duration=3)
    t2 = ps.FixedDurationTask(name="T2", duration=2, optional=True)
    t3 = ps.VariableDurationTask(name="T3", work_amount=6)
    ws = [ps.Worker(name=f"W{i}", productivity=i + 1) for i in range(3)]
    cw = ps.CumulativeWorker(name="CW", size=2, productivity=3)
    s1 = ps.SelectWorkers(name="Sel1", list_of_workers=ws, nb_workers_to_select=nb, kind=kind)
    s2 = ps.SelectWorkers(name="Sel2", list_of_workers=[ws[0], ws[2]], kind=kind)
    t1.add_required_resource(s1)
    t2.add_required_resource(s2)
    t3.add_required_resources([ws[1], cw])
    attempt("force T2", lambda: ps.OptionalTaskForceSchedule(name="F_T2", task=t2, to_be_scheduled=True))
    ps.ObjectiveMinimizeMakespan()
    print(f"  kind={kind} nb={nb}")
    registry(pb)
    solve_and_describe(pb)

# ----------------------------------------------------------------------------
section("P5: optional-task rules on mandatory and optional tasks")
pb = ps.SchedulingProblem(name="P5", horizon=10)
man = ps.FixedDurationTask(name="Man", duration=2)
opt = ps.FixedDurationTask(name="Opt", duration=2, optional=True)
opt2 = ps.VariableDurationTask(name="Opt2", optional=True, min_duration=1)
zopt = ps.ZeroDurationTask(name="ZOpt", optional=True)
attempt("force schedule mandatory", lambda: ps.OptionalTaskForceSchedule(name="c1", task=man, to_be_scheduled=True))
attempt("force schedule optional", lambda: ps.OptionalTaskForceSchedule(name="c2", task=opt, to_be_scheduled=False))
attempt("condition mandatory", lambda: ps.OptionalTaskConditionSchedule(name="c3", task=man, condition=opt._start > 2))
attempt("condition optional", lambda: ps.OptionalTaskConditionSchedule(name="c4", task=opt2, condition=man._start >= 2))
attempt("dependency man->opt", lambda: ps.OptionalTasksDependency(name="c5", task_1=man, task_2=zopt))
attempt("dependency opt->man", lambda: ps.OptionalTasksDependency(name="c6", task_1=opt, task_2=man))
for kind in ("min", "max", "exact"):
    for nb in (0, 1, 3):
        attempt(
            f"forceN kind={kind} nb={nb}",
            lambda k=kind, n=nb: ps.ForceScheduleNOptionalTasks(
                name=f"fn_{k}_{n}", list_of_optional_tasks=[opt, opt2, zopt], nb_tasks_to_schedule=n, kind=k
            ),
        )
attempt("forceN with mandatory", lambda: ps.ForceScheduleNOptionalTasks(name="fn_m", list_of_optional_tasks=[opt, man]))
attempt("duplicate constraint name", lambda: ps.TaskStartAt(name="c2", task=man, value=1))
registry(pb)
solve_and_describe(pb)

# ----------------------------------------------------------------------------
section("P6: ForceApplyNOptionalConstraints, creation")
pb = ps.SchedulingProblem(name="P6", horizon=10)
a = ps.FixedDurationTask(name="A", duration=2)
b = ps.FixedDurationTask(name="B", duration=3)
c_man = ps.TaskStartAt(name="man_start", task=a, value=1)
c_o1 = ps.TaskStartAt(name="o1", task=a, value=4, optional=True)
c_o2 = ps.TaskEndAt(name="o2", task=b, value=9, optional=True)
c_o3 = ps.TaskPrecedence(name="o3", task_before=a, task_after=b, optional=True)
for kind in ("exact", "min", "max", "other"):
    for nb in (-1, 0, 1, 2, 4):
        attempt(
            f"forceapply kind={kind} nb={nb}",
            lambda k=kind, n=nb: ps.ForceApplyNOptionalConstraints(
                name=f"fa_{k}_{n}",
                list_of_optional_constraints=[c_o1, c_o2, c_o3],
                nb_constraints_to_apply=n,
                kind=k,
            ),
        )
attempt("forceapply mandatory first", lambda: ps.ForceApplyNOptionalConstraints(name="fa_m1", list_of_optional_constraints=[c_man, c_o1]))
attempt("forceapply mandatory last", lambda: ps.ForceApplyNOptionalConstraints(name="fa_m2", list_of_optional_constraints=[c_o1, c_o2, c_man]))
c_man2 = ps.TaskStartAt(name="man_start2", task=b, value=0)
attempt("forceapply two mandatory", lambda: ps.ForceApplyNOptionalConstraints(name="fa_m3", list_of_optional_constraints=[c_o1, c_man2, c_man]))
attempt("forceapply only mandatory", lambda: ps.ForceApplyNOptionalConstraints(name="fa_m4", list_of_optional_constraints=[c_man]))
attempt("forceapply empty", lambda: ps.ForceApplyNOptionalConstraints(name="fa_e", list_of_optional_constraints=[]))
attempt("forceapply default", lambda: ps.ForceApplyNOptionalConstraints(name="fa_d", list_of_optional_constraints=[c_o1, c_o2]))
attempt("forceapply dup name", lambda: ps.ForceApplyNOptionalConstraints(name="fa_d", list_of_optional_constraints=[c_o1, c_o2]))
attempt("forceapply itself optional", lambda: ps.ForceApplyNOptionalConstraints(name="fa_opt", list_of_optional_constraints=[c_o3, c_o1], kind="max", optional=True))
attempt("forceapply repeated", lambda: ps.ForceApplyNOptionalConstraints(name="fa_rep", list_of_optional_constraints=[c_o1, c_o1], nb_constraints_to_apply=2))
attempt("forceapply unnamed", lambda: ps.ForceApplyNOptionalConstraints(list_of_optional_constraints=[c_o2], kind="min"))
attempt("forceapply not a constraint", lambda: ps.ForceApplyNOptionalConstraints(name="fa_t", list_of_optional_constraints=[a]))
# rejected ones are nevertheless registered by the base class: check the registry
registry(pb)

# ----------------------------------------------------------------------------
section("P7: ForceApplyNOptionalConstraints, solved")
for kind, nb in (("exact", 1), ("exact", 3), ("min", 2), ("max", 1), ("max", 2)):
    pb = ps.SchedulingProblem(name=f"P7_{kind}_{nb}", horizon=10)
    a = ps.FixedDurationTask(name="A", duration=2)
    b = ps.FixedDurationTask(name="B", duration=3)
    c = ps.ZeroDurationTask(name="C", optional=True)
    w = ps.Worker(name="W")
    a.add_required_resource(w)
    b.add_required_resource(w)
    c_o1 = ps.TaskStartAt(name="o1", task=a, value=4, optional=True)
    c_o2 = ps.TaskEndAt(name="o2", task=b, value=9, optional=True)
    c_o3 = ps.TaskPrecedence(name="o3", task_before=a, task_after=b, optional=True)
    ps.ForceApplyNOptionalConstraints(
        name="fa", list_of_optional_constraints=[c_o1, c_o2, c_o3], nb_constraints_to_apply=nb, kind=kind
    )
    ps.ForceScheduleNOptionalTasks(name="fs", list_of_optional_tasks=[c], kind=kind)
    print(f"  kind={kind} nb={nb}")
    solve_and_describe(pb)

# ----------------------------------------------------------------------------
section("P8: resource constraints on unassigned / assigned resources, indicators, buffers")
pb = ps.SchedulingProblem(name="P8", horizon=10)
t = ps.FixedDurationTask(name="T", duration=3)
w_free = ps.Worker(name="Wfree")
w_busy = ps.Worker(name="Wbusy")
cw_free = ps.CumulativeWorker(name="CWfree", size=2)
t.add_required_resource(w_busy)
attempt("workload unassigned", lambda: ps.WorkLoad(name="wl1", resource=w_free, dict_time_intervals_and_bound={(0, 4): 2}))
attempt("workload assigned", lambda: ps.WorkLoad(name="wl2", resource=w_busy, dict_time_intervals_and_bound={(0, 4): 2}))
attempt("unavailable unassigned", lambda: ps.ResourceUnavailable(name="ru1", resource=w_free, list_of_time_intervals=[(0, 2)]))
attempt("unavailable unassigned cumulative", lambda: ps.ResourceUnavailable(name="ru1c", resource=cw_free, list_of_time_intervals=[(0, 2)]))
attempt("unavailable assigned", lambda: ps.ResourceUnavailable(name="ru2", resource=w_busy, list_of_time_intervals=[(0, 2)]))
attempt("tasks interval unassigned", lambda: ps.ResourceTasksDistance(name="rd1", resource=w_free, distance=2))
attempt("required resource twice", lambda: t.add_required_resource(w_busy))
attempt("required resource wrong type", lambda: t.add_required_resource(t))
attempt("indicator", lambda: ps.IndicatorResourceUtilization(name="util", resource=w_busy))
attempt("indicator dup", lambda: ps.IndicatorResourceUtilization(name="util", resource=w_busy))
attempt("buffer", lambda: ps.NonConcurrentBuffer(name="Buf", initial_level=0))
attempt("buffer dup", lambda: ps.NonConcurrentBuffer(name="Buf", initial_level=1))
attempt("buffer no level", lambda: ps.NonConcurrentBuffer(name="Buf2"))
registry(pb)
solve_and_describe(pb)
