"""Equivalence script for the C14 refactoring twin (Task.set_assertions and
Task.add_required_resource in processscheduler/task.py).

For a series of small problems, prints a canonical description of the outcome:
the sorted str() of the assertions held by each task, the sorted str() of all
the assertions of the solver, the solution values, or the error raised.
uuid-derived parts of names are masked.
"""
import os
import re
import sys

sys.path.insert(0, os.getcwd())

import z3  # noqa: E402
import processscheduler as ps  # noqa: E402
import processscheduler.base  # noqa: E402

assert os.path.dirname(os.path.abspath(ps.__file__)).startswith(os.getcwd())

_UID = re.compile(r"\d{8,}")


def mask(text):
    return _UID.sub("<UID>", text)


def dump_tasks(pb):
    for name in sorted(pb.tasks):
        task = pb.tasks[name]
        print(f"  task {name} number={task._task_number} scheduled={mask(str(task._scheduled))}")
        print(f"    required={[r.name for r in task._required_resources]}")
        for asst in sorted(mask(str(a)) for a in task.get_z3_assertions()):
            print("    A " + " ".join(asst.split()))
    for name in sorted(pb.workers):
        worker = pb.workers[name]
        intervals = sorted(
            (t.name, str(s), str(e)) for t, (s, e) in worker._busy_intervals.items()
        )
        print(f"  worker {name} busy={intervals}")
    print(f"  unique_integer={pb._unique_integer}")


def dump_solver(pb, solve=True, **solver_args):
    solver = ps.SchedulingSolver(problem=pb, **solver_args)
    solver.initialize()
    for asst in sorted(mask(" ".join(str(a).split())) for a in solver._solver.assertions()):
        print("  S " + asst)
    if not solve:
        return
    solution = solver.solve()
    if not solution:
        print("  SOLUTION: none")
        return
    print(f"  SOLUTION horizon={solution.horizon}")
    for name in sorted(solution.tasks):
        ts = solution.tasks[name]
        print(
            f"    {name}: start={ts.start} end={ts.end} duration={ts.duration} "
            f"scheduled={ts.scheduled} optional={ts.optional} "
            f"resources={sorted(ts.assigned_resources)}"
        )
    for name in sorted(solution.resources):
        print(f"    res {name}: {sorted(solution.resources[name].assignments)}")
    print(f"    indicators={dict(sorted(solution.indicators.items()))}")


def case(title, builder):
    print("=" * 70)
    print(title)
    try:
        builder()
    except Exception as exc:  # pylint: disable=broad-except
        print(f"  ERROR {type(exc).__name__}: {mask(str(exc))}")


# ---------------------------------------------------------------------------
def p1_mandatory():
    pb = ps.SchedulingProblem(name="p1", horizon=20)
    t1 = ps.FixedDurationTask(name="a", duration=3, release_date=2, due_date=9)
    t2 = ps.FixedDurationTask(name="b", duration=4, release_date=0)
    t3 = ps.ZeroDurationTask(name="c", due_date=15, due_date_is_deadline=False)
    t4 = ps.VariableDurationTask(
        name="d", min_duration=0, max_duration=5, allowed_durations=[1, 3, 5], due_date=18
    )
    ps.TaskPrecedence(task_before=t1, task_after=t2)
    ps.TaskPrecedence(task_before=t2, task_after=t4)
    ps.TaskEndAt(task=t3, value=7)
    ps.ObjectiveMinimizeMakespan()
    dump_tasks(pb)
    dump_solver(pb)


def _optional_mix(names, order):
    """names: mapping role -> name ; order: order of declaration of the roles."""
    pb = ps.SchedulingProblem(name="pmix", horizon=12)
    builders = {
        "fix": lambda: ps.FixedDurationTask(
            name=names["fix"], duration=3, optional=True, release_date=1, due_date=8
        ),
        "var": lambda: ps.VariableDurationTask(
            name=names["var"], optional=True, min_duration=2, max_duration=4, release_date=0
        ),
        "zero": lambda: ps.ZeroDurationTask(name=names["zero"], optional=True, due_date=5),
        "mand": lambda: ps.FixedDurationTask(name=names["mand"], duration=2, priority=0),
        "var2": lambda: ps.VariableDurationTask(
            name=names["var2"], optional=True, allowed_durations=[2, 6], work_amount=0
        ),
    }
    tasks = {role: builders[role]() for role in order}
    ps.ForceScheduleNOptionalTasks(
        list_of_optional_tasks=[tasks["fix"], tasks["var"], tasks["zero"], tasks["var2"]],
        nb_tasks_to_schedule=3,
        kind="exact",
    )
    ps.TasksDontOverlap(task_1=tasks["fix"], task_2=tasks["mand"])
    ps.TaskStartAt(task=tasks["mand"], value=2)
    ps.ObjectiveMinimizeMakespan()
    dump_tasks(pb)
    dump_solver(pb)


def p2_optional_mix():
    _optional_mix(
        {"fix": "F", "var": "V", "zero": "Z", "mand": "M", "var2": "V2"},
        ["fix", "var", "zero", "mand", "var2"],
    )


def p3_optional_mix_permuted_renamed():
    _optional_mix(
        {"fix": "zeta", "var": "alpha", "zero": "mu", "mand": "beta", "var2": "omega"},
        ["var2", "mand", "zero", "var", "fix"],
    )


def p4_workers_delay_early():
    pb = ps.SchedulingProblem(name="p4", horizon=15)
    t1 = ps.FixedDurationTask(name="t1", duration=5)
    t2 = ps.FixedDurationTask(name="t2", duration=4, optional=True)
    t3 = ps.VariableDurationTask(name="t3", work_amount=6)
    w1 = ps.Worker(name="w1", productivity=2)
    w2 = ps.Worker(name="w2", productivity=0)
    w3 = ps.Worker(name="w3")
    w4 = ps.Worker(name="w4")
    t1.add_required_resource(w1)  # defaults 0/0
    t1.add_required_resource(w2, delay_in=2, early_out=1)
    t1.add_required_resource(w3, delay_in=0, early_out=2)
    t1.add_required_resource(w4, delay_in=1, early_out=0)
    t2.add_required_resource(w1, delay_in=-1, early_out=-3)  # non positive: ignored
    t2.add_required_resource(w3, dynamic=True, delay_in=2, early_out=2)
    t3.add_required_resources([w1, w4])
    t3.add_required_resources([w2], dynamic=True)
    ps.ConstraintFromExpression(expression=t2._scheduled == True)  # noqa: E712
    ps.ObjectiveMinimizeMakespan()
    dump_tasks(pb)
    dump_solver(pb)


def p5_select_and_cumulative():
    pb = ps.SchedulingProblem(name="p5")
    t1 = ps.FixedDurationTask(name="t1", duration=2)
    t2 = ps.FixedDurationTask(name="t2", duration=3, optional=True)
    t3 = ps.VariableDurationTask(name="t3", optional=True, min_duration=1)
    w1 = ps.Worker(name="w1")
    w2 = ps.Worker(name="w2")
    w3 = ps.Worker(name="w3")
    cw = ps.CumulativeWorker(name="cw", size=2)
    sel1 = ps.SelectWorkers(list_of_workers=[w1, w2, w3], nb_workers_to_select=2, kind="exact")
    sel2 = ps.SelectWorkers(list_of_workers=[w3, w1], nb_workers_to_select=1, kind="min")
    t1.add_required_resource(sel1)
    t2.add_required_resource(sel2)
    t2.add_required_resource(cw)
    t3.add_required_resource(cw)
    t1.add_required_resource(cw)
    ps.ForceScheduleNOptionalTasks(
        list_of_optional_tasks=[t2, t3], nb_tasks_to_schedule=2, kind="min"
    )
    ps.ObjectiveMinimizeMakespan()
    dump_tasks(pb)
    dump_solver(pb)


def p6_after_earlier_problems():
    # an earlier, unrelated problem, built and solved in the same process
    pb0 = ps.SchedulingProblem(name="earlier", horizon=5)
    e1 = ps.FixedDurationTask(name="X", duration=2, optional=True)
    e2 = ps.VariableDurationTask(name="Y", optional=True)
    ew = ps.Worker(name="W")
    ew2 = ps.Worker(name="W2")
    e1.add_required_resource(ps.SelectWorkers(list_of_workers=[ew, ew2]))
    e2.add_required_resource(ew, delay_in=1)
    ps.SchedulingSolver(problem=pb0).solve()
    # the later problem reuses the same names
    pb = ps.SchedulingProblem(name="later", horizon=9)
    t1 = ps.FixedDurationTask(name="X", duration=2, optional=True)
    t2 = ps.VariableDurationTask(name="Y", optional=True, max_duration=3)
    w = ps.Worker(name="W")
    w2 = ps.Worker(name="W2")
    t1.add_required_resource(ps.SelectWorkers(list_of_workers=[w, w2]))
    t2.add_required_resource(w, early_out=1)
    ps.ForceScheduleNOptionalTasks(list_of_optional_tasks=[t1, t2], nb_tasks_to_schedule=2)
    ps.TaskStartAfter(task=t2, value=3)
    dump_tasks(pb)
    dump_solver(pb)


def p7_infeasible():
    pb = ps.SchedulingProblem(name="p7", horizon=4)
    t1 = ps.FixedDurationTask(name="t1", duration=3, release_date=2)
    t2 = ps.FixedDurationTask(name="t2", duration=1, due_date=0)
    w = ps.Worker(name="w")
    t1.add_required_resource(w, delay_in=1, early_out=1)
    t2.add_required_resource(w)
    dump_tasks(pb)
    dump_solver(pb)


def p8_optional_infeasible_unless_skipped():
    pb = ps.SchedulingProblem(name="p8", horizon=4)
    t1 = ps.FixedDurationTask(name="t1", duration=3, release_date=3, optional=True)
    t2 = ps.ZeroDurationTask(name="t2", optional=True, release_date=0, due_date=0)
    t3 = ps.VariableDurationTask(name="t3", optional=True, min_duration=0, due_date=2)
    ind = ps.IndicatorFromMathExpression(
        name="nb",
        expression=z3.If(t1._scheduled, 1, 0)
        + z3.If(t2._scheduled, 1, 0)
        + z3.If(t3._scheduled, 1, 0),
    )
    ps.ObjectiveMaximizeIndicator(target=ind)
    dump_tasks(pb)
    dump_solver(pb)


def e1_duplicate_resource():
    pb = ps.SchedulingProblem(name="e1")
    t = ps.FixedDurationTask(name="t", duration=1)
    w = ps.Worker(name="w")
    t.add_required_resource(w, early_out=1)
    try:
        t.add_required_resource(w)
    finally:
        dump_tasks(pb)


def e2_not_a_resource():
    pb = ps.SchedulingProblem(name="e2")
    t = ps.FixedDurationTask(name="t", duration=1, optional=True)
    try:
        t.add_required_resource("w")
    finally:
        dump_tasks(pb)


def e3_bad_delay_type():
    pb = ps.SchedulingProblem(name="e3")
    t = ps.FixedDurationTask(name="t", duration=1)
    w = ps.Worker(name="w")
    try:
        t.add_required_resource(w, delay_in="1", early_out=1)
    finally:
        dump_tasks(pb)


def e4_bad_early_type():
    pb = ps.SchedulingProblem(name="e4")
    t = ps.FixedDurationTask(name="t", duration=1)
    w = ps.Worker(name="w")
    try:
        t.add_required_resource(w, delay_in=1, early_out=None)
    finally:
        dump_tasks(pb)


def e5_duplicate_task_name():
    pb = ps.SchedulingProblem(name="e5")
    ps.FixedDurationTask(name="t", duration=1, optional=True)
    try:
        ps.VariableDurationTask(name="t", optional=True)
    finally:
        dump_tasks(pb)


def e6_no_active_problem():
    processscheduler.base.active_problem = None
    ps.ZeroDurationTask(name="t", optional=True)


def e7_set_assertions_twice():
    # calling set_assertions a second time re-adds the same assertions
    pb = ps.SchedulingProblem(name="e7")
    t = ps.FixedDurationTask(name="t", duration=2, release_date=1)
    try:
        t.set_assertions([t._start >= 0])
    finally:
        dump_tasks(pb)


def e8_set_assertions_twice_optional():
    pb = ps.SchedulingProblem(name="e8")
    t = ps.VariableDurationTask(name="t", optional=True, due_date=4)
    t.set_assertions([t._start >= 1])
    t.set_assertions([])
    dump_tasks(pb)
    dump_solver(pb)


def e9_float_offsets():
    pb = ps.SchedulingProblem(name="e9", horizon=10)
    t = ps.FixedDurationTask(name="t", duration=4)
    w = ps.Worker(name="w")
    t.add_required_resource(w, delay_in=True, early_out=False)
    dump_tasks(pb)
    dump_solver(pb)


CASES = [
    ("P1 mandatory tasks with release and due dates", p1_mandatory),
    ("P2 optional tasks of every kind", p2_optional_mix),
    ("P3 same as P2, renamed and declared in another order", p3_optional_mix_permuted_renamed),
    ("P4 workers with delay_in / early_out / dynamic", p4_workers_delay_early),
    ("P5 select workers and cumulative workers", p5_select_and_cumulative),
    ("P6 a problem built after an earlier problem", p6_after_earlier_problems),
    ("P7 infeasible problem", p7_infeasible),
    ("P8 optional tasks that can only be skipped", p8_optional_infeasible_unless_skipped),
    ("E1 duplicate required resource", e1_duplicate_resource),
    ("E2 not a resource", e2_not_a_resource),
    ("E3 wrong type for delay_in", e3_bad_delay_type),
    ("E4 wrong type for early_out", e4_bad_early_type),
    ("E5 duplicate task name", e5_duplicate_task_name),
    ("E6 no active problem", e6_no_active_problem),
    ("E7 set_assertions called twice, mandatory", e7_set_assertions_twice),
    ("E8 set_assertions called again, optional", e8_set_assertions_twice_optional),
    ("E9 boolean offsets", e9_float_offsets),
]

class _MaskTimings:
    """stdout filter: the solver prints elapsed times, mask them."""

    _TIME = re.compile(r"\d+\.\d+s\b")

    def __init__(self, stream):
        self._stream = stream

    def write(self, text):
        return self._stream.write(self._TIME.sub("<TIME>s", text))

    def flush(self):
        self._stream.flush()


if __name__ == "__main__":
    sys.stdout = _MaskTimings(sys.stdout)
    for title, builder in CASES:
        case(title, builder)
