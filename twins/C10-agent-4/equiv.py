"""Equivalence script for the C10 refactoring (first_order_logic.py).

Builds several small problems using Not / And / Xor / Implies (alone, nested,
optional, mixed with raw z3 expressions), and prints for each a canonical
description: flags of the constraints, the solver's assertions (sorted,
uuids masked by order of first appearance) and the solution found.
"""
import contextlib
import io
import os
import re
import sys

sys.path.insert(0, os.getcwd())

import z3  # noqa: E402
import processscheduler as ps  # noqa: E402

assert os.path.dirname(os.path.dirname(ps.__file__)) == os.getcwd(), ps.__file__

_LONG = re.compile(r"\d{8,}|asst_[0-9a-f]{8}")


class Masker:
    def __init__(self):
        self.seen = {}

    def __call__(self, text):
        def sub(m):
            return self.seen.setdefault(m.group(0), f"U{len(self.seen)}")

        return _LONG.sub(sub, text)


def describe(pb, **solver_kw):
    mask = Masker()
    out = []
    for name, c in pb.constraints.items():
        own = [mask(a.sexpr()) for a in c.get_z3_assertions()]
        out.append(
            f"  constraint {mask(name)} type={c.type} optional={c.optional} "
            f"from_assertion={c._created_from_assertion} applied={mask(str(c._applied))} "
            f"own={own}"
        )
    solver = ps.SchedulingSolver(problem=pb, **solver_kw)
    buf = io.StringIO()
    with contextlib.redirect_stdout(buf):
        solution = solver.solve()
    raw = [mask(a.sexpr()) for a in solver._solver.assertions()]
    out.append(f"  nb assertions: {len(raw)}")
    for a in sorted(raw):
        out.append("  A " + " ".join(a.split()))
    if not solution:
        out.append("  solution: None")
    else:
        for tname, t in sorted(solution.tasks.items()):
            out.append(
                f"  task {tname}: start={t.start} end={t.end} scheduled={t.scheduled}"
            )
        model = solver._solver.model()
        for name, c in pb.constraints.items():
            if c.optional:
                out.append(
                    f"  applied[{mask(name)}] = {model.eval(c._applied, model_completion=True)}"
                )
    return out


CASES = []


def case(f):
    CASES.append(f)
    return f


@case
def not_constraint():
    pb = ps.SchedulingProblem(name="NotC", horizon=3)
    t = ps.FixedDurationTask(name="t1", duration=2)
    ps.Not(constraint=ps.TaskStartAt(task=t, value=0))
    return describe(pb)


@case
def not_boolref_and_double_not():
    pb = ps.SchedulingProblem(name="NotB", horizon=6)
    t = ps.FixedDurationTask(name="t1", duration=2)
    ps.Not(name="n1", constraint=t._start == 0)
    ps.Not(name="n2", constraint=ps.Not(name="n3", constraint=t._start == 3))
    return describe(pb)


@case
def not_optional_variants():
    pb = ps.SchedulingProblem(name="NotOpt", horizon=5)
    t = ps.FixedDurationTask(name="t1", duration=2)
    inner = ps.TaskStartAt(name="inner", task=t, value=0, optional=True)
    ps.Not(name="outer", constraint=inner)
    other = ps.TaskEndAt(name="other", task=t, value=5)
    opt_not = ps.Not(name="opt_not", constraint=other, optional=True)
    ps.ForceApplyNOptionalConstraints(
        name="force", list_of_optional_constraints=[opt_not], nb_constraints_to_apply=1
    )
    return describe(pb)


@case
def and_mixed():
    pb = ps.SchedulingProblem(name="AndMixed", horizon=23)
    t1 = ps.FixedDurationTask(name="t1", duration=2)
    t2 = ps.FixedDurationTask(name="t2", duration=3)
    ps.And(
        name="a",
        list_of_constraints=[
            ps.TaskStartAfter(name="sa", task=t1, value=3),
            t2._start == 0,
            ps.TaskEndBefore(name="eb", task=t1, value=5),
            ps.TaskPrecedence(name="prec", task_before=t2, task_after=t1, offset=0),
        ],
    )
    return describe(pb)


@case
def and_empty_and_single():
    pb = ps.SchedulingProblem(name="AndEmpty", horizon=4)
    t1 = ps.ZeroDurationTask(name="t1")
    ps.And(name="empty", list_of_constraints=[])
    ps.And(name="single", list_of_constraints=[t1._start == 0])
    return describe(pb)


@case
def and_multi_assertion_operand_optional_task():
    pb = ps.SchedulingProblem(name="AndMulti", horizon=10)
    t1 = ps.FixedDurationTask(name="t1", duration=2, optional=True)
    t2 = ps.FixedDurationTask(name="t2", duration=2)
    t3 = ps.FixedDurationTask(name="t3", duration=2)
    shared = ps.TaskStartAt(name="shared", task=t2, value=4)
    ps.And(
        name="a",
        list_of_constraints=[
            ps.TasksContiguous(name="contig", list_of_tasks=[t1, t2, t3]),
            shared,
            shared,
        ],
        optional=True,
    )
    ps.Not(name="n", constraint=ps.TasksContiguous(name="contig2", list_of_tasks=[t2, t3]))
    return describe(pb)


@case
def xor_constraints():
    pb = ps.SchedulingProblem(name="Xor1", horizon=2)
    t1 = ps.FixedDurationTask(name="t1", duration=1)
    t2 = ps.FixedDurationTask(name="t2", duration=1)
    ps.Xor(
        name="x",
        constraint_1=ps.TaskStartAt(name="s1", task=t1, value=0),
        constraint_2=ps.TaskStartAt(name="s2", task=t2, value=0),
    )
    return describe(pb)


@case
def xor_mixed_optional_unsat():
    pb = ps.SchedulingProblem(name="Xor2", horizon=2)
    t1 = ps.FixedDurationTask(name="t1", duration=2)
    t2 = ps.FixedDurationTask(name="t2", duration=2)
    ps.Xor(
        name="x",
        constraint_1=t1._start == 0,
        constraint_2=ps.TaskStartAt(name="s2", task=t2, value=0),
    )
    ps.Xor(
        name="xo",
        constraint_1=ps.TaskEndAt(name="e1", task=t1, value=2, optional=True),
        constraint_2=t2._end == 1,
        optional=True,
    )
    return describe(pb)


@case
def implies_variants():
    pb = ps.SchedulingProblem(name="Imp", horizon=8)
    t1 = ps.FixedDurationTask(name="t1", duration=2)
    t2 = ps.FixedDurationTask(name="t2", duration=2)
    ps.TaskStartAt(name="fix", task=t1, value=1)
    ps.Implies(
        name="i1",
        condition=t1._start == 1,
        list_of_constraints=[ps.TaskStartAt(name="s2", task=t2, value=4), t2._end == 6],
    )
    ps.Implies(name="i_true", condition=True, list_of_constraints=[t1._end >= 0])
    ps.Implies(
        name="i_false",
        condition=False,
        list_of_constraints=[ps.TaskStartAt(name="never", task=t2, value=0)],
    )
    ps.Implies(name="i_empty", condition=t2._start > 0, list_of_constraints=[])
    return describe(pb)


@case
def implies_optional_force_apply():
    pb = ps.SchedulingProblem(name="ImpOpt", horizon=10)
    t1 = ps.FixedDurationTask(name="t1", duration=3)
    t2 = ps.VariableDurationTask(name="t2", min_duration=0, max_duration=4)
    i1 = ps.Implies(
        name="i1",
        condition=t1._start >= 0,
        list_of_constraints=[ps.TaskStartAt(name="a", task=t1, value=5)],
        optional=True,
    )
    i2 = ps.Implies(
        name="i2",
        condition=t1._start >= 0,
        list_of_constraints=[ps.TaskStartAt(name="b", task=t1, value=6)],
        optional=True,
    )
    n = ps.Not(name="n", constraint=t2._duration == 0, optional=True)
    ps.ForceApplyNOptionalConstraints(
        name="force",
        list_of_optional_constraints=[i1, i2, n],
        nb_constraints_to_apply=2,
        kind="min",
    )
    return describe(pb)


@case
def nested_everything():
    pb = ps.SchedulingProblem(name="Nested", horizon=12)
    t1 = ps.FixedDurationTask(name="t1", duration=2)
    t2 = ps.FixedDurationTask(name="t2", duration=3)
    w = ps.Worker(name="w")
    t1.add_required_resource(w)
    t2.add_required_resource(w)
    x = ps.Xor(
        name="x",
        constraint_1=ps.TaskStartAt(name="s1", task=t1, value=0),
        constraint_2=ps.TaskStartAt(name="s2", task=t2, value=0),
    )
    o = ps.Or(
        name="o",
        list_of_constraints=[ps.TaskEndAt(name="e1", task=t1, value=12), t2._end == 12],
    )
    a = ps.And(name="a", list_of_constraints=[x, o])
    ps.Not(name="n", constraint=ps.Not(name="nn", constraint=a))
    ps.IfThenElse(
        name="ite",
        condition=t1._start == 0,
        then_list_of_constraints=[
            ps.Implies(name="imp", condition=t2._start > 3, list_of_constraints=[t2._start == 9])
        ],
        else_list_of_constraints=[ps.Not(name="n2", constraint=t1._start == 10)],
    )
    ps.ConstraintFromExpression(name="expr", expression=t1._start + t2._start >= 9)
    return describe(pb)


@case
def debug_mode_unsat():
    pb = ps.SchedulingProblem(name="Dbg", horizon=3)
    t1 = ps.FixedDurationTask(name="t1", duration=2)
    ps.Not(name="n0", constraint=ps.TaskStartAt(name="s0", task=t1, value=0))
    ps.Not(name="n1", constraint=t1._start == 1)
    try:
        return describe(pb, debug=True)
    finally:
        z3.set_option("verbose", 0)
        z3.set_option(unsat_core=False)


@case
def errors():
    out = []
    pb = ps.SchedulingProblem(name="Err", horizon=3)
    t1 = ps.FixedDurationTask(name="t1", duration=2)

    def attempt(label, fn):
        try:
            fn()
            out.append(f"  {label}: no error")
        except Exception as e:  # noqa: BLE001
            out.append(f"  {label}: {type(e).__name__}: {Masker()(str(e))[:300]!r}")

    attempt("not_none", lambda: ps.Not(name="e1", constraint=None))
    attempt("not_int", lambda: ps.Not(name="e2", constraint=3))
    attempt("xor_missing", lambda: ps.Xor(name="e3", constraint_1=t1._start == 0))
    attempt("xor_arith", lambda: ps.Xor(name="e4", constraint_1=t1._start, constraint_2=t1._start == 0))
    attempt("and_not_list", lambda: ps.And(name="e5", list_of_constraints=t1._start == 0))
    attempt("and_bad_item", lambda: ps.And(name="e6", list_of_constraints=[t1._start == 0, "x"]))
    attempt("implies_no_cond", lambda: ps.Implies(name="e7", list_of_constraints=[t1._start == 0]))
    attempt("implies_arith_cond", lambda: ps.Implies(name="e8", condition=t1._start, list_of_constraints=[]))
    attempt("dup_name_1", lambda: ps.Not(name="dup", constraint=t1._start == 0))
    attempt("dup_name_2", lambda: ps.Not(name="dup", constraint=t1._start == 1))
    out.append(f"  constraints registered: {sorted(pb.constraints)}")
    out.extend(describe(pb))
    return out


if __name__ == "__main__":
    for f in CASES:
        print(f"=== {f.__name__}")
        try:
            for line in f():
                print(line)
        except Exception as e:  # noqa: BLE001
            print(f"  RAISED {type(e).__name__}: {Masker()(str(e))[:300]!r}")
