"""Equivalence script for the C04 twin (ResourceInterrupted / SameWorkers refactoring).

Run from the worktree root:  cd /tmp/t4_C04 && /venv/bin/python _twin/equiv.py
Prints, for each scenario, the sexpr() of the z3 assertions of the constraint (in
order), the sorted sexpr() of all the solver assertions, and the solution values
(or the error raised).  uuids are made deterministic with a counter so that the
output can be compared byte for byte.
"""
import contextlib
import io
import os
import sys
import uuid

sys.path.insert(0, os.getcwd())

import z3  # noqa: E402

import processscheduler as ps  # noqa: E402
import processscheduler.base  # noqa: E402

assert os.path.dirname(os.path.dirname(ps.__file__)) == os.getcwd(), ps.__file__

_counter = [0]


def _fake_uuid4():
    _counter[0] += 1
    # leading decimal digits and leading hex digits both depend on the counter
    return uuid.UUID(int=(10_000_000 + _counter[0]) * 10**30 + 5 * 10**29, version=4)


uuid.uuid4 = _fake_uuid4
processscheduler.base.uuid4 = _fake_uuid4


def show_constraint(label, cstr):
    print(f"  [{label}] {type(cstr).__name__} optional={cstr.optional}")
    for i, asst in enumerate(cstr.get_z3_assertions()):
        print(f"    asst[{i}] = {' '.join(asst.sexpr().split())}")
    if not cstr.get_z3_assertions():
        print("    (no assertion)")


def solve_and_show(pb, objective=True, values=False, checks=(), **solver_args):
    """Solve and print the canonical outcome.

    values=True is only used for problems whose optimal schedule is unique: when
    several optimal schedules exist the one picked by z3 depends on z3 internal
    AST numbering, which no source level change can keep fixed.  For the other
    problems the returned schedule is verified against the documented meaning of
    the constraints by the independent python checks given in `checks`.
    """
    if objective:
        ps.ObjectiveMinimizeMakespan()
    solver = ps.SchedulingSolver(problem=pb, random_values=False, **solver_args)
    with contextlib.redirect_stdout(io.StringIO()):  # hide timings
        solution = solver.solve()
    all_assts = sorted(" ".join(a.sexpr().split()) for a in solver._solver.assertions())
    print(f"  solver: {len(all_assts)} assertions")
    for a in all_assts:
        print(f"    {a}")
    if not solution:
        print("  solution: NONE")
        return
    print(f"  solution: horizon={solution.horizon}")
    if values:
        for name in sorted(solution.tasks):
            t = solution.tasks[name]
            print(
                f"    task {name}: scheduled={t.scheduled} start={t.start} end={t.end} "
                f"duration={t.duration} resources={sorted(t.assigned_resources)}"
            )
        for name in sorted(solution.resources):
            print(f"    resource {name}: {sorted(solution.resources[name].assignments)}")
    for check in checks:
        print(f"    check {check.__name__}: {check(solution)}")


def interrupted_check(worker_names, intervals, variable_tasks):
    """variable_tasks: {task name: (min_duration, max_duration or None)}; every
    other task is a fixed duration task."""

    def interrupted(solution):
        for w_name in worker_names:
            for t_name in sorted(solution.tasks):
                task = solution.tasks[t_name]
                if not task.scheduled or w_name not in task.assigned_resources:
                    continue
                start, end = task.start, task.end
                if t_name not in variable_tasks:
                    for low, up in intervals:
                        if not ((start >= up) != (end <= low)):
                            return f"KO fixed task {t_name} [{start},{end}] vs ({low},{up})"
                    continue
                total = 0
                for low, up in intervals:
                    if not ((start <= low) != (start >= up)):
                        return f"KO start of {t_name} [{start},{end}] vs ({low},{up})"
                    if not ((end <= low) != (end >= up)):
                        return f"KO end of {t_name} [{start},{end}] vs ({low},{up})"
                    if (start >= up) == (end <= low):
                        total += up - low
                dmin, dmax = variable_tasks[t_name]
                if end - start < dmin + total:
                    return f"KO duration of {t_name} [{start},{end}] overlap {total}"
                if dmax is not None and end - start > dmax + total:
                    return f"KO max duration of {t_name} [{start},{end}] overlap {total}"
        return "OK"

    return interrupted


def same_workers_check(task_1, task_2, common_workers, distinct=False):
    def workers(solution):
        res_1 = set(solution.tasks[task_1].assigned_resources) & set(common_workers)
        res_2 = set(solution.tasks[task_2].assigned_resources) & set(common_workers)
        if distinct:
            return "OK" if not (res_1 & res_2) else f"KO {res_1} {res_2}"
        return "OK" if res_1 == res_2 else f"KO {res_1} {res_2}"

    workers.__name__ = f"{'distinct' if distinct else 'same'}_{task_1}_{task_2}"
    return workers


SCENARIOS = []


def scenario(func):
    SCENARIOS.append(func)
    return func


@scenario
def s01_fixed_tasks_two_intervals():
    pb = ps.SchedulingProblem(name="s01")
    t1 = ps.FixedDurationTask(name="t1", duration=3)
    t2 = ps.FixedDurationTask(name="t2", duration=4)
    w = ps.Worker(name="W")
    t1.add_required_resource(w)
    t2.add_required_resource(w)
    c = ps.ResourceInterrupted(
        name="RI", resource=w, list_of_time_intervals=[(1, 3), (6, 8)]
    )
    show_constraint("RI", c)
    solve_and_show(
        pb, values=True, checks=[interrupted_check(["W"], [(1, 3), (6, 8)], {})]
    )


@scenario
def s02_variable_and_fixed_mixed():
    pb = ps.SchedulingProblem(name="s02")
    t1 = ps.VariableDurationTask(name="t1", min_duration=3)
    t2 = ps.FixedDurationTask(name="t2", duration=4)
    ps.TaskStartAt(name="tsa", task=t1, value=0)
    w = ps.Worker(name="W")
    t1.add_required_resource(w)
    t2.add_required_resource(w)
    c = ps.ResourceInterrupted(
        name="RI", resource=w, list_of_time_intervals=[(1, 3), (6, 8)]
    )
    show_constraint("RI", c)
    solve_and_show(
        pb,
        values=True,
        checks=[interrupted_check(["W"], [(1, 3), (6, 8)], {"t1": (3, None)})],
    )


@scenario
def s03_variable_with_max_and_optional_task():
    pb = ps.SchedulingProblem(name="s03", horizon=20)
    t1 = ps.VariableDurationTask(name="t1", min_duration=2, max_duration=4)
    t2 = ps.VariableDurationTask(
        name="t2", min_duration=0, max_duration=3, optional=True
    )
    t3 = ps.VariableDurationTask(name="t3", min_duration=1, optional=True)
    ps.TaskStartAt(name="tsa", task=t1, value=0)
    w = ps.Worker(name="W")
    for t in (t1, t2, t3):
        t.add_required_resource(w)
    c = ps.ResourceInterrupted(
        name="RI", resource=w, list_of_time_intervals=[(1, 2), (4, 7), (9, 9)]
    )
    show_constraint("RI", c)
    ps.ForceScheduleNOptionalTasks(
        name="force", list_of_optional_tasks=[t2, t3], nb_tasks_to_schedule=2
    )
    variable = {"t1": (2, 4), "t2": (0, 3), "t3": (1, None)}
    solve_and_show(
        pb, checks=[interrupted_check(["W"], [(1, 2), (4, 7), (9, 9)], variable)]
    )


@scenario
def s04_cumulative_worker_mixed():
    pb = ps.SchedulingProblem(name="s04")
    t1 = ps.VariableDurationTask(name="t1", min_duration=3, max_duration=5)
    t2 = ps.FixedDurationTask(name="t2", duration=4)
    t3 = ps.VariableDurationTask(name="t3", min_duration=4)
    ps.TaskStartAt(name="tsa", task=t1, value=0)
    cw = ps.CumulativeWorker(name="CW", size=2)
    for t in (t1, t2, t3):
        t.add_required_resource(cw)
    c = ps.ResourceInterrupted(
        name="RI", resource=cw, list_of_time_intervals=[(1, 3), (6, 8)]
    )
    show_constraint("RI", c)
    sub_workers = ["CW_CumulativeWorker_1", "CW_CumulativeWorker_2"]
    variable = {"t1": (3, 5), "t3": (4, None)}
    solve_and_show(
        pb, checks=[interrupted_check(sub_workers, [(1, 3), (6, 8)], variable)]
    )


@scenario
def s05_optional_constraint_and_zero_edges():
    pb = ps.SchedulingProblem(name="s05", horizon=12)
    t1 = ps.ZeroDurationTask(name="t1")
    t2 = ps.FixedDurationTask(name="t2", duration=5, optional=True)
    t3 = ps.VariableDurationTask(name="t3", min_duration=0)
    w = ps.Worker(name="W")
    for t in (t1, t2, t3):
        t.add_required_resource(w)
    c = ps.ResourceInterrupted(
        name="RI",
        resource=w,
        list_of_time_intervals=[(0, 0), (0, 2), (5, 6)],
        optional=True,
    )
    show_constraint("RI", c)
    solve_and_show(pb)


@scenario
def s06_empty_interval_list():
    pb = ps.SchedulingProblem(name="s06", horizon=10)
    t1 = ps.FixedDurationTask(name="t1", duration=2)
    t2 = ps.VariableDurationTask(name="t2", min_duration=1, max_duration=2)
    w = ps.Worker(name="W")
    t1.add_required_resource(w)
    t2.add_required_resource(w)
    c = ps.ResourceInterrupted(name="RI", resource=w, list_of_time_intervals=[])
    show_constraint("RI", c)
    solve_and_show(pb, checks=[interrupted_check(["W"], [], {"t2": (1, 2)})])


@scenario
def s07_only_fixed_empty_interval_list():
    pb = ps.SchedulingProblem(name="s07", horizon=10)
    t1 = ps.FixedDurationTask(name="t1", duration=2)
    w = ps.Worker(name="W")
    t1.add_required_resource(w)
    c = ps.ResourceInterrupted(name="RI", resource=w, list_of_time_intervals=[])
    show_constraint("RI", c)
    solve_and_show(pb, checks=[interrupted_check(["W"], [], {})])


@scenario
def s08_unassigned_worker_raises():
    ps.SchedulingProblem(name="s08")
    w = ps.Worker(name="W")
    ps.ResourceInterrupted(name="RI", resource=w, list_of_time_intervals=[(1, 3)])


@scenario
def s09_unassigned_cumulative_worker_raises():
    ps.SchedulingProblem(name="s09")
    cw = ps.CumulativeWorker(name="CW", size=3)
    ps.ResourceInterrupted(name="RI", resource=cw, list_of_time_intervals=[(1, 3)])


@scenario
def s10_wrong_resource_type_raises():
    ps.SchedulingProblem(name="s10")
    w1 = ps.Worker(name="W1")
    w2 = ps.Worker(name="W2")
    sw = ps.SelectWorkers(name="SW", list_of_workers=[w1, w2])
    ps.ResourceInterrupted(name="RI", resource=sw, list_of_time_intervals=[(1, 3)])


@scenario
def s11_infeasible_fixed_task():
    pb = ps.SchedulingProblem(name="s11", horizon=6)
    t1 = ps.FixedDurationTask(name="t1", duration=4)
    w = ps.Worker(name="W")
    t1.add_required_resource(w)
    c = ps.ResourceInterrupted(name="RI", resource=w, list_of_time_intervals=[(2, 4)])
    show_constraint("RI", c)
    solve_and_show(pb, objective=False)


@scenario
def s12_same_and_distinct_workers():
    pb = ps.SchedulingProblem(name="s12")
    tasks = [ps.FixedDurationTask(name=f"t{i}", duration=2) for i in range(1, 5)]
    w1, w2, w3 = (ps.Worker(name=f"W{i}") for i in (1, 2, 3))
    sw1 = ps.SelectWorkers(name="SW1", list_of_workers=[w1, w2, w3])
    sw2 = ps.SelectWorkers(name="SW2", list_of_workers=[w3, w2])
    sw3 = ps.SelectWorkers(name="SW3", list_of_workers=[w1, w2])
    sw4 = ps.SelectWorkers(
        name="SW4", list_of_workers=[w2, w1], nb_workers_to_select=1, kind="min"
    )
    for t, sw in zip(tasks, (sw1, sw2, sw3, sw4)):
        t.add_required_resource(sw)
    c1 = ps.SameWorkers(name="same12", select_workers_1=sw1, select_workers_2=sw2)
    c2 = ps.SameWorkers(name="same34", select_workers_1=sw3, select_workers_2=sw4)
    c3 = ps.DistinctWorkers(name="dist24", select_workers_1=sw2, select_workers_2=sw4)
    for label, c in (("same12", c1), ("same34", c2), ("dist24", c3)):
        show_constraint(label, c)
    solve_and_show(
        pb,
        checks=[
            same_workers_check("t1", "t2", ["W2", "W3"]),
            same_workers_check("t3", "t4", ["W1", "W2"]),
            same_workers_check("t2", "t4", ["W2"], distinct=True),
        ],
    )


@scenario
def s13_same_workers_optional_and_disjoint():
    pb = ps.SchedulingProblem(name="s13")
    t1 = ps.FixedDurationTask(name="t1", duration=1)
    t2 = ps.FixedDurationTask(name="t2", duration=3)
    t3 = ps.FixedDurationTask(name="t3", duration=2)
    w1, w2, w3, w4 = (ps.Worker(name=f"W{i}") for i in (1, 2, 3, 4))
    sw1 = ps.SelectWorkers(name="SW1", list_of_workers=[w1, w2])
    sw2 = ps.SelectWorkers(name="SW2", list_of_workers=[w3, w4])
    sw3 = ps.SelectWorkers(name="SW3", list_of_workers=[w2, w3, w1, w1])
    t1.add_required_resource(sw1)
    t2.add_required_resource(sw2)
    t3.add_required_resource(sw3)
    c1 = ps.SameWorkers(name="disjoint", select_workers_1=sw1, select_workers_2=sw2)
    c2 = ps.SameWorkers(
        name="opt", select_workers_1=sw3, select_workers_2=sw1, optional=True
    )
    c3 = ps.SameWorkers(name="self", select_workers_1=sw2, select_workers_2=sw2)
    for label, c in (("disjoint", c1), ("opt", c2), ("self", c3)):
        show_constraint(label, c)
    ps.ForceApplyNOptionalConstraints(
        name="force", list_of_optional_constraints=[c2], nb_constraints_to_apply=1
    )
    solve_and_show(pb, checks=[same_workers_check("t3", "t1", ["W1", "W2"])])


@scenario
def s14_same_workers_wrong_type_raises():
    ps.SchedulingProblem(name="s14")
    w1 = ps.Worker(name="W1")
    sw1 = ps.SelectWorkers(name="SW1", list_of_workers=[w1, ps.Worker(name="W2")])
    ps.SameWorkers(name="bad", select_workers_1=sw1, select_workers_2=w1)


@scenario
def s15_interrupted_then_same_workers_with_selection():
    # a worker reached through a SelectWorkers: busy intervals are conditional
    pb = ps.SchedulingProblem(name="s15", horizon=15)
    t1 = ps.VariableDurationTask(name="t1", min_duration=2, max_duration=6)
    t2 = ps.FixedDurationTask(name="t2", duration=3)
    w1, w2 = ps.Worker(name="W1"), ps.Worker(name="W2")
    sw1 = ps.SelectWorkers(name="SW1", list_of_workers=[w1, w2])
    sw2 = ps.SelectWorkers(name="SW2", list_of_workers=[w1, w2])
    t1.add_required_resource(sw1)
    t2.add_required_resource(sw2)
    c1 = ps.ResourceInterrupted(
        name="RI1", resource=w1, list_of_time_intervals=[(2, 3), (5, 7)]
    )
    c2 = ps.ResourceInterrupted(name="RI2", resource=w2, list_of_time_intervals=[(0, 4)])
    c3 = ps.SameWorkers(name="same", select_workers_1=sw1, select_workers_2=sw2)
    for label, c in (("RI1", c1), ("RI2", c2), ("same", c3)):
        show_constraint(label, c)
    solve_and_show(
        pb,
        checks=[
            interrupted_check(["W1"], [(2, 3), (5, 7)], {"t1": (2, 6)}),
            interrupted_check(["W2"], [(0, 4)], {"t1": (2, 6)}),
            same_workers_check("t1", "t2", ["W1", "W2"]),
        ],
    )


def main():
    for func in SCENARIOS:
        _counter[0] = 0
        print(f"=== {func.__name__}")
        try:
            func()
        except BaseException as exc:  # noqa: BLE001 - we report every error
            msg = " ".join(str(exc).split())
            print(f"  RAISED {type(exc).__module__}.{type(exc).__name__}: {msg[:600]}")
    print("=== done")


if __name__ == "__main__":
    main()
