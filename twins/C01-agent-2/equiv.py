"""Equivalence script for the refactoring of SchedulingSolver.initialize (task loop)
and SchedulingSolver.build_solution (task section).

Each scenario builds a small problem, then prints
  * the sorted list of str() of the assertions held by the z3 solver,
  * the solution (horizon, every field of every TaskSolution, resources, buffers,
    indicators), or the fact that no solution exists, or the error raised.
Random parts of names (uuids) are masked.
"""
import contextlib
import io
import os
import re
import sys
from datetime import datetime, timedelta

sys.path.insert(0, os.getcwd())

import processscheduler as ps  # noqa: E402

assert os.path.dirname(os.path.dirname(ps.__file__)) == os.getcwd(), ps.__file__

MASKS = [
    (re.compile(r"asst_[0-9a-f]{8}"), "asst_XXXXXXXX"),
    (re.compile(r"_[0-9a-f]{8}\b"), "_XXXXXXXX"),
    (re.compile(r"\b[0-9]{8}\b"), "NNNNNNNN"),
    (re.compile(r"[0-9]{20,}"), "UID"),
]


def mask(text):
    for rx, repl in MASKS:
        text = rx.sub(repl, text)
    return text


def describe_solution(solution):
    lines = []
    if not solution:
        return [f"NO SOLUTION ({solution!r})"]
    lines.append(f"horizon={solution.horizon!r}")
    for name, ts in solution.tasks.items():
        fields = ts.__dict__
        lines.append(
            f"task {name}: "
            + ", ".join(f"{k}={fields[k]!r}" for k in sorted(fields) if k != "_uid")
        )
    for name, rs in solution.resources.items():
        lines.append(f"resource {name}: type={rs.type!r} assignments={rs.assignments!r}")
    for name, bs in solution.buffers.items():
        lines.append(
            f"buffer {name}: level={bs.level!r} times={bs.level_change_times!r}"
        )
    for name, value in solution.indicators.items():
        lines.append(f"indicator {name}: {value!r}")
    lines.append("scheduled: " + ",".join(sorted(solution.get_scheduled_tasks())))
    return lines


def run(title, build, **solver_kwargs):
    print("=" * 70)
    print(title)
    sink = io.StringIO()
    try:
        with contextlib.redirect_stdout(sink), contextlib.redirect_stderr(sink):
            problem = build()
            solver = ps.SchedulingSolver(problem=problem, **solver_kwargs)
            solution = solver.solve()
            # mask the random parts *before* sorting
            assertions = sorted(
                mask(" ".join(str(a).split())) for a in solver._solver.assertions()
            )
    except Exception as exc:  # pylint: disable=broad-except
        print(mask(f"ERROR {type(exc).__name__}: {exc}"))
        return
    print(f"-- {len(assertions)} assertions")
    for a in assertions:
        print("   " + a)
    print("-- solution")
    for line in describe_solution(solution):
        print(mask("   " + line))


# 1. fixed durations, release dates (0, positive), deadlines, fixed horizon
def pb_fixed():
    pb = ps.SchedulingProblem(name="fixed", horizon=20)
    ps.FixedDurationTask(name="A", duration=3, release_date=4, due_date=9)
    ps.FixedDurationTask(name="B", duration=5, release_date=0, due_date=20)
    ps.FixedDurationTask(name="C", duration=1, due_date=2, due_date_is_deadline=False)
    ps.FixedDurationTask(name="D", duration=2, priority=0, work_amount=0)
    return pb


# 2. variable durations (min/max/allowed), free horizon, makespan objective
def pb_variable():
    pb = ps.SchedulingProblem(name="variable")
    ps.VariableDurationTask(name="V1", min_duration=2, max_duration=6, release_date=3)
    ps.VariableDurationTask(name="V2", allowed_durations=[3, 5, 7], due_date=12)
    ps.VariableDurationTask(name="V3")  # duration may be 0
    ps.VariableDurationTask(
        name="V4", min_duration=4, allowed_durations=[2, 4, 9], max_duration=8
    )
    ps.ObjectiveMinimizeMakespan()
    return pb


# 3. zero duration tasks, with time deltas and a start time
def pb_zero_datetime():
    pb = ps.SchedulingProblem(
        name="zero",
        horizon=10,
        delta_time=timedelta(minutes=15),
        start_time=datetime(2024, 1, 2, 8, 30),
    )
    z1 = ps.ZeroDurationTask(name="Z1", release_date=2)
    z2 = ps.ZeroDurationTask(name="Z2", due_date=0)
    f1 = ps.FixedDurationTask(name="F1", duration=4, release_date=1, due_date=10)
    ps.ZeroDurationTask(name="Z3", optional=True)
    ps.TaskPrecedence(task_before=f1, task_after=z1)
    ps.TaskStartAt(task=z2, value=0)
    return pb


# 4. delta_time only (no start_time), variable duration, horizon variable
def pb_delta_only():
    pb = ps.SchedulingProblem(name="delta", delta_time=timedelta(hours=2))
    t1 = ps.FixedDurationTask(name="T1", duration=2, release_date=1)
    t2 = ps.VariableDurationTask(name="T2", min_duration=1, max_duration=3)
    ps.TaskPrecedence(task_before=t1, task_after=t2, offset=1)
    return pb


# 5. optional tasks: some forced scheduled, some forced not scheduled
def pb_optional():
    pb = ps.SchedulingProblem(name="optional", horizon=12)
    o1 = ps.FixedDurationTask(
        name="O1", duration=3, optional=True, release_date=2, due_date=8
    )
    o2 = ps.VariableDurationTask(
        name="O2", optional=True, min_duration=2, max_duration=4, due_date=6
    )
    o3 = ps.FixedDurationTask(name="O3", duration=20, optional=True)  # cannot fit
    o4 = ps.ZeroDurationTask(name="O4", optional=True, release_date=5)
    m1 = ps.FixedDurationTask(name="M1", duration=2)
    ps.ForceScheduleNOptionalTasks(
        list_of_optional_tasks=[o1, o2, o4], nb_tasks_to_schedule=2, kind="exact"
    )
    ps.OptionalTaskConditionSchedule(task=o1, condition=m1._start >= 0)
    return pb


# 6. resources: worker, select workers, cumulative worker, dynamic, work amount
def pb_resources():
    pb = ps.SchedulingProblem(name="resources", horizon=15)
    w1 = ps.Worker(name="W1", productivity=2)
    w2 = ps.Worker(name="W2", productivity=1)
    w3 = ps.Worker(name="W3")
    cw = ps.CumulativeWorker(name="CW", size=2)
    t1 = ps.FixedDurationTask(name="T1", duration=4, release_date=1, due_date=9)
    t2 = ps.VariableDurationTask(name="T2", work_amount=6, max_duration=10)
    t3 = ps.FixedDurationTask(name="T3", duration=3, optional=True, due_date=15)
    t4 = ps.FixedDurationTask(name="T4", duration=5, release_date=6)
    t1.add_required_resource(w1)
    t1.add_required_resource(cw)
    t2.add_required_resources([w1, w2])
    t3.add_required_resource(
        ps.SelectWorkers(list_of_workers=[w2, w3], nb_workers_to_select=1)
    )
    t4.add_required_resource(w3, dynamic=True)
    t4.add_required_resource(cw)
    t4.add_required_resource(w2, delay_in=1, early_out=2)
    ps.ForceScheduleNOptionalTasks(
        list_of_optional_tasks=[t3], nb_tasks_to_schedule=1, kind="exact"
    )
    return pb


# 7. infeasible: deadline shorter than duration / release after the horizon
def pb_infeasible_deadline():
    pb = ps.SchedulingProblem(name="infeasible1", horizon=10)
    ps.FixedDurationTask(name="X", duration=5, due_date=4)
    return pb


def pb_infeasible_release():
    pb = ps.SchedulingProblem(name="infeasible2", horizon=10)
    ps.FixedDurationTask(name="Y", duration=3, release_date=8)
    return pb


# 8. buffers and indicators next to tasks with release/deadline
def pb_buffer():
    pb = ps.SchedulingProblem(name="buffer")
    t1 = ps.FixedDurationTask(name="T1", duration=3, release_date=2)
    t2 = ps.FixedDurationTask(name="T2", duration=2, due_date=14)
    t3 = ps.VariableDurationTask(name="T3", allowed_durations=[1, 2])
    buf = ps.NonConcurrentBuffer(name="Buf", initial_level=5, lower_bound=0)
    ps.TaskUnloadBuffer(task=t1, buffer=buf, quantity=3)
    ps.TaskLoadBuffer(task=t2, buffer=buf, quantity=2)
    ps.TaskUnloadBuffer(task=t3, buffer=buf, quantity=4)
    ps.IndicatorFromMathExpression(name="span", expression=t2._end - t1._start)
    ps.ObjectiveMinimizeMakespan()
    return pb


# 9. debug mode (assert_and_track) with a feasible and an unsat problem
def pb_debug():
    pb = ps.SchedulingProblem(name="debug", horizon=8)
    a = ps.FixedDurationTask(name="A", duration=3, release_date=1)
    b = ps.VariableDurationTask(name="B", min_duration=1, optional=True, due_date=5)
    ps.TaskPrecedence(task_before=a, task_after=b)
    return pb


# 10. errors raised while modelling
def pb_error_duplicate():
    pb = ps.SchedulingProblem(name="dup", horizon=8)
    ps.FixedDurationTask(name="A", duration=3)
    ps.FixedDurationTask(name="A", duration=2)
    return pb


def pb_error_duration():
    pb = ps.SchedulingProblem(name="baddur", horizon=8)
    ps.FixedDurationTask(name="A", duration=0)
    return pb


# 11. empty problem, and optimize solver on a problem with a horizon variable
def pb_empty():
    return ps.SchedulingProblem(name="empty", horizon=3)


def pb_optimize():
    pb = ps.SchedulingProblem(name="optimize")
    t1 = ps.FixedDurationTask(name="T1", duration=3, release_date=2, priority=5)
    t2 = ps.FixedDurationTask(name="T2", duration=2, due_date=30, priority=1)
    w = ps.Worker(name="W")
    t1.add_required_resource(w)
    t2.add_required_resource(w)
    ps.ObjectiveMinimizeMakespan()
    return pb


if __name__ == "__main__":
    run("01 fixed durations / release / deadline / horizon", pb_fixed)
    run("02 variable durations, free horizon, makespan (incremental)", pb_variable)
    run("03 zero durations, delta_time + start_time", pb_zero_datetime)
    run("04 delta_time only", pb_delta_only)
    run("05 optional tasks", pb_optional)
    run("06 resources", pb_resources)
    run("07a infeasible deadline", pb_infeasible_deadline)
    run("07b infeasible release vs horizon", pb_infeasible_release)
    run("08 buffer + indicator + objective", pb_buffer)
    run("09 debug mode", pb_debug, debug=True)
    run("09b debug mode unsat", pb_infeasible_deadline, debug=True)
    run("10a error duplicate task name", pb_error_duplicate)
    run("10b error zero fixed duration", pb_error_duration)
    run("11a empty problem", pb_empty)
    run("11b optimize solver", pb_optimize, optimizer="optimize")
    run("11c QF_IDL logics", pb_fixed, logics="QF_IDL")
