"""Equivalence script for the C07 refactoring (incremental optimiser loop and
weighted equivalent objective). Prints a canonical description of the outcome
of a number of small optimisation problems."""
import contextlib
import gc
import io
import os
import re
import sys
import tempfile
import warnings

sys.path.insert(0, os.getcwd())

import z3
import processscheduler as ps
import processscheduler.solver as solver_module

assert solver_module.__file__.startswith(os.getcwd()), solver_module.__file__


def mask(text):
    text = re.sub(r"\d+\.\d+s", "<T>s", text)
    text = re.sub(r"[0-9a-f]{32}", "<UID>", text)
    text = re.sub(r"_[0-9a-f]{8}\b", "_<UID8>", text)
    return text


class FakeClock:
    """deterministic replacement of time.perf_counter: the n-th check lasts
    durations[n] seconds (the last one is repeated)"""

    def __init__(self, durations):
        self.durations = list(durations)
        self.now = 0.0
        self.calls = 0

    def __call__(self):
        # check_sat calls perf_counter twice: before and after the check
        if self.calls % 2 == 1:
            idx = min(self.calls // 2, len(self.durations) - 1)
            self.now += self.durations[idx]
        self.calls += 1
        return self.now


def describe_solution(sol):
    if not sol:
        return [f"solution: {sol!r}"]
    out = [f"horizon={sol.horizon}"]
    for name in sorted(sol.tasks):
        t = sol.tasks[name]
        out.append(
            f"task {name}: start={t.start} end={t.end} dur={t.duration} "
            f"scheduled={t.scheduled} res={sorted(t.assigned_resources)}"
        )
    for name in sorted(sol.indicators):
        out.append(f"indicator {name}={sol.indicators[name]}")
    return out


CASES = []


def run(*args, **kwargs):
    """register a case; every case is executed in a python process of its own
    (see the end of the file)"""
    CASES.append((args, kwargs))


def run_case(title, build, solver_kwargs=None, durations=None, call=None, twice=False):
    print("=" * 70)
    print(title)
    solver_kwargs = solver_kwargs or {}
    buf = io.StringIO()
    lines = []
    real_counter = solver_module.time.perf_counter
    # z3 numbers its terms in creation order and reuses the numbers of freed
    # terms; the models it returns depend on these numbers. Freeing the
    # previous problem at a moment chosen by the cyclic garbage collector
    # would make the intermediate values depend on the number of python
    # objects allocated so far: collect now, and not during the case.
    gc.collect()
    gc.disable()
    try:
        with warnings.catch_warnings(record=True) as caught, contextlib.redirect_stdout(
            buf
        ):
            warnings.simplefilter("always")
            if durations is not None:
                solver_module.time.perf_counter = FakeClock(durations)
            problem = build()
            solver = ps.SchedulingSolver(problem=problem, **solver_kwargs)
            if call is None:
                sol = solver.solve()
                lines += describe_solution(sol)
                if twice:
                    sol2 = solver.solve()
                    lines += ["second solve:"] + describe_solution(sol2)
            else:
                lines += call(solver)
            if solver._solver is not None:
                lines.append(f"num_scopes={solver._solver.num_scopes() if hasattr(solver._solver, 'num_scopes') else 'n/a'}")
                lines.append("assertions:")
                lines += sorted(mask(str(a)) for a in solver._solver.assertions())
            if solver._objective is not None:
                o = solver._objective
                lines.append(
                    f"objective: {o.name} kind={o.kind} target={o._target} bounds={o._bounds} weight={o.weight}"
                )
            lines.append(f"problem objectives: {sorted(problem.objectives)}")
            lines.append(f"problem indicators: {sorted(problem.indicators)}")
        for w in caught:
            lines.append(f"warning: {w.category.__name__}: {mask(str(w.message))}")
    except Exception as exc:  # canonical description of the error
        lines.append(f"ERROR {type(exc).__name__}: {mask(str(exc))}")
    finally:
        solver_module.time.perf_counter = real_counter
        gc.enable()
        problem = solver = None
    print("--- stdout of the library")
    print(mask(buf.getvalue()))
    print("--- outcome")
    for line in lines:
        print(mask(line))


# ---------------------------------------------------------------- problems
def pb_makespan(horizon=None, n=3, optional_last=False):
    def build():
        if horizon is None:
            pb = ps.SchedulingProblem(name="Makespan")
        else:
            pb = ps.SchedulingProblem(name="Makespan", horizon=horizon)
        w = ps.Worker(name="W")
        tasks = []
        for i in range(n):
            t = ps.FixedDurationTask(
                name=f"T{i}",
                duration=i + 1,
                optional=(optional_last and i == n - 1),
            )
            t.add_required_resource(w)
            tasks.append(t)
        ps.ObjectiveMinimizeMakespan()
        return pb

    return build


def pb_utilization():
    pb = ps.SchedulingProblem(name="Utilization", horizon=6)
    w = ps.Worker(name="W")
    t1 = ps.FixedDurationTask(name="A", duration=3)
    t2 = ps.FixedDurationTask(name="B", duration=3, optional=True)
    t1.add_required_resource(w)
    t2.add_required_resource(w)
    ps.ObjectiveMaximizeResourceUtilization(resource=w)
    return pb


def pb_utilization_partial():
    pb = ps.SchedulingProblem(name="UtilizationPartial", horizon=10)
    w = ps.Worker(name="W")
    t1 = ps.FixedDurationTask(name="A", duration=3)
    t1.add_required_resource(w)
    ps.ObjectiveMaximizeResourceUtilization(resource=w)
    return pb


def pb_multi(weights=(1, 1), kinds=("min", "min")):
    def build():
        pb = ps.SchedulingProblem(name="Multi", horizon=12)
        w = ps.Worker(name="W")
        t1 = ps.FixedDurationTask(name="A", duration=2, priority=3)
        t2 = ps.FixedDurationTask(name="B", duration=3, priority=1)
        t3 = ps.VariableDurationTask(name="C", min_duration=1, max_duration=4)
        for t in (t1, t2, t3):
            t.add_required_resource(w)
        i1 = ps.IndicatorFromMathExpression(name="EndA", expression=t1._end)
        i2 = ps.IndicatorFromMathExpression(
            name="StartBplusDurC", expression=t2._start + t3._duration
        )
        for indic, weight, kind in zip((i1, i2), weights, kinds):
            if kind == "min":
                ps.ObjectiveMinimizeIndicator(target=indic, weight=weight)
            else:
                ps.ObjectiveMaximizeIndicator(target=indic, weight=weight)
        return pb

    return build


def pb_unsat():
    pb = ps.SchedulingProblem(name="Unsat", horizon=3)
    w = ps.Worker(name="W")
    t1 = ps.FixedDurationTask(name="A", duration=2)
    t2 = ps.FixedDurationTask(name="B", duration=2)
    t1.add_required_resource(w)
    t2.add_required_resource(w)
    ps.ObjectiveMinimizeMakespan()
    return pb


def pb_optional_flowtime():
    pb = ps.SchedulingProblem(name="OptFlow", horizon=9)
    w = ps.Worker(name="W")
    t1 = ps.FixedDurationTask(name="A", duration=2)
    t2 = ps.FixedDurationTask(name="B", duration=3, optional=True)
    t3 = ps.ZeroDurationTask(name="Z")
    t1.add_required_resource(w)
    t2.add_required_resource(w)
    ps.TaskStartAfter(task=t1, value=1)
    ps.ObjectiveMinimizeFlowtime()
    return pb


def pb_start_latest():
    pb = ps.SchedulingProblem(name="Latest", horizon=8)
    t1 = ps.FixedDurationTask(name="A", duration=2)
    t2 = ps.FixedDurationTask(name="B", duration=3)
    ps.TaskPrecedence(task_before=t1, task_after=t2)
    ps.ObjectiveTasksStartLatest()
    return pb


def pb_no_objective():
    pb = ps.SchedulingProblem(name="NoObjective", horizon=5)
    ps.FixedDurationTask(name="A", duration=2)
    return pb


def direct_incremental(kind, max_iter=None):
    def call(solver):
        solver.initialize()
        out = []
        horizon = solver.problem._horizon
        model = solver._solve_optimize_incremental(horizon, max_iter=max_iter, kind=kind)
        out.append(f"first call ({kind}): " + (str(model[horizon]) if model else repr(model)))
        # the solver must be reusable: run again in the other direction
        other = "min" if kind != "min" else "max"
        model = solver._solve_optimize_incremental(horizon, kind=other)
        out.append(f"second call ({other}): " + (str(model[horizon]) if model else repr(model)))
        return out

    return call


def direct_weighted(solver):
    solver.initialize()
    out = []
    obj, indic = solver.build_equivalent_weighted_objective()
    out.append(f"returned {obj.name} {obj.kind} {obj._target} | {indic.name}")
    out.append(f"same object as _objective: {obj is solver._objective}")
    return out


def save_states(solver):
    with tempfile.TemporaryDirectory() as tmp:
        solver.save_intermediate_states = True
        solver.save_intermediate_states_path = tmp
        sol = solver.solve()
        out = describe_solution(sol)
        out.append(f"files: {sorted(os.listdir(tmp))}")
    solver.save_intermediate_states_path = "<tmp>"
    return out


run("01 makespan, incremental, free horizon", pb_makespan())
run("02 makespan, incremental, horizon 20, solved twice", pb_makespan(20), twice=True)
run("03 makespan, optimize", pb_makespan(20), {"optimizer": "optimize"})
run("04 makespan, max_iter=1", pb_makespan(30, 4), {"max_iter": 1})
run("05 makespan, max_iter=2", pb_makespan(30, 4), {"max_iter": 2})
run("06 makespan, max_iter=0", pb_makespan(30, 4), {"max_iter": 0})
run("07 utilization reaches bound 100", pb_utilization)
run("08 utilization, bound not reachable", pb_utilization_partial)
run("09 multi, weights 1/1, incremental", pb_multi())
run("10 multi, weights 2/0, incremental", pb_multi((2, 0)))
run("11 multi, weights 3/5 maximize, incremental", pb_multi((3, 5), ("max", "max")))
run("12 multi, mixed kinds (last one wins)", pb_multi((1, 2), ("max", "min")))
run("13 multi, optimize/weight", pb_multi((1, 4)), {"optimizer": "optimize", "optimize_priority": "weight"})
run("14 multi, optimize/lex", pb_multi((1, 4)), {"optimizer": "optimize", "optimize_priority": "lex"})
run("15 unsat", pb_unsat)
run("16 optional tasks, flowtime", pb_optional_flowtime)
run("17 start latest (maximize)", pb_start_latest)
run("18 no objective", pb_no_objective)
run("19 direct call kind=max then min", pb_makespan(15), call=direct_incremental("max"))
run("20 direct call kind=min max_iter=2 then max", pb_makespan(15, 4), call=direct_incremental("min", 2))
run("21 direct call kind='other' (treated as max)", pb_makespan(9), call=direct_incremental("other"))
run("22 weighted objective built without any objective", pb_no_objective, call=direct_weighted)
run("23 weighted objective built on top of one objective", pb_makespan(9), call=direct_weighted)
run("24 intermediate states saved", pb_makespan(12, 4, True), call=save_states)
# deterministic clocks for the time dependent branches
run(
    "25 fake clock: max time exceeded",
    pb_multi((3, 5), ("max", "max")),
    {"max_time": 10},
    durations=[1, 2, 8, 1],
)
run(
    "26 fake clock: expected time of the next iteration too long",
    pb_multi((3, 5), ("max", "max")),
    {"max_time": 50},
    durations=[0.5, 1, 2, 4, 8, 16],
)
run(
    "27 fake clock: flat times, runs to the optimum",
    pb_multi((3, 5), ("max", "max")),
    {"max_time": 1000},
    durations=[0.25],
)
run(
    "28 fake clock: total time equal to max_time is not exceeded",
    pb_multi((3, 5), ("max", "max")),
    {"max_time": 3},
    durations=[1, 1, 1, 1],
)
run("29 optional last task, makespan, max_iter=3", pb_makespan(25, 4, True), {"max_iter": 3})
run(
    "30 fake clock: start latest, slow third check",
    pb_start_latest,
    {"max_time": 5},
    durations=[1, 1, 4, 1],
)
run(
    "31 fake clock: decreasing times then a jump",
    pb_multi((3, 5), ("max", "max")),
    {"max_time": 30},
    durations=[4, 2, 1, 0.5, 0.5, 9, 9, 9],
)
run("32 multi maximize, max_iter=5", pb_multi((3, 5), ("max", "max")), {"max_iter": 5})


# z3 numbers its terms in creation order and reuses the numbers of freed terms,
# and the (intermediate) models it returns depend on these numbers. What a
# previous case left behind in the process wide z3 context must not leak into
# the next one: one fresh python process per case.
if __name__ == "__main__":
    if len(sys.argv) == 3 and sys.argv[1] == "--case":
        args, kwargs = CASES[int(sys.argv[2])]
        run_case(*args, **kwargs)
    else:
        import subprocess

        for number in range(len(CASES)):
            done = subprocess.run(
                [sys.executable, os.path.abspath(__file__), "--case", str(number)],
                stdout=subprocess.PIPE,
                stderr=subprocess.STDOUT,
                text=True,
                cwd=os.getcwd(),
            )
            sys.stdout.write(done.stdout)
            if done.returncode != 0:
                print(f"case {number}: exit code {done.returncode}")
