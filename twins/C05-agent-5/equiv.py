"""Equivalence script for the C05 twin refactoring.

Exercises util.sort_no_duplicates, ResourceTasksDistance and SameWorkers (and
their users ResourceNonDelay, TasksContiguous, IndicatorResourceIdle) on small
problems; prints for each a canonical description: the assertions of the
constraint in their order, the sorted assertions of the solver, the verdict and
(for pinned schedules) the solution values, or the error raised.

Run:  cd /tmp/t6_C05 && /venv/bin/python _twin/equiv.py
"""
import contextlib
import io
import os
import re
import sys

sys.path.insert(0, os.getcwd())

import z3  # noqa: E402

import processscheduler as ps  # noqa: E402
from processscheduler.util import sort_no_duplicates  # noqa: E402

assert os.path.dirname(os.path.dirname(ps.__file__)) == os.getcwd(), ps.__file__


_UIDS = {}


def _uid_label(match):
    """the k-th distinct uuid met since the beginning of the case is U<k>"""
    return _UIDS.setdefault(match.group(0), "U%d" % (len(_UIDS) + 1))


def mask(text):
    """mask the random parts of the names (uuids), keeping them distinct"""
    text = re.sub(r"(?<![0-9])\d{20,}(?![0-9])", _uid_label, text)
    text = re.sub(r"([A-Za-z]+_)\d{8}\b", r"\1UID8", text)
    return text


def show(title):
    _UIDS.clear()
    print("=" * 70)
    print(title)


def dump_constraint(cstr):
    print("  constraint", type(cstr).__name__, "optional=%s" % cstr.optional)
    for i, asst in enumerate(cstr.get_z3_assertions()):
        print("    [%d] %s" % (i, mask(" ".join(str(asst).split()))))


def solve_and_dump(pb, pinned=False, dump_solver=True):
    solver = ps.SchedulingSolver(problem=pb, max_time=60)
    sink = io.StringIO()
    with contextlib.redirect_stdout(sink):
        solver.initialize()
    if dump_solver:
        lines = sorted(mask(" ".join(str(a).split())) for a in solver._solver.assertions())
        print("  solver assertions (%d):" % len(lines))
        for line in lines:
            print("    " + line)
    with contextlib.redirect_stdout(sink):
        solution = solver.solve()
    if not solution:
        print("  verdict: NO SOLUTION")
        return None
    print("  verdict: solution found, horizon", solution.horizon if pinned else "-")
    if pinned:
        for name in sorted(solution.tasks):
            t = solution.tasks[name]
            print(
                "    task %s start=%d end=%d scheduled=%s resources=%s"
                % (name, t.start, t.end, t.scheduled, sorted(t.assigned_resources))
            )
        for name in sorted(solution.indicators):
            print("    indicator %s = %s" % (name, solution.indicators[name]))
    return solution


def guarded(fun):
    try:
        fun()
    except Exception as exc:  # pylint: disable=broad-except
        print("  raised %s: %s" % (type(exc).__name__, mask(str(exc))))


# ---------------------------------------------------------------------------
# 1. sort_no_duplicates itself, for 0, 1, 2, 3, 4 values, ints and expressions
# ---------------------------------------------------------------------------
def case_sort():
    show("1. sort_no_duplicates direct")
    for n in (0, 1, 2, 3, 4):
        values = [z3.Int("v%d_%d" % (n, i)) for i in range(n)]
        sorted_vars, constraints = sort_no_duplicates(values)
        print("  n=%d sorted=%s" % (n, [str(v) for v in sorted_vars]))
        for c in constraints:
            print("    " + " ".join(str(c).split()))
        # the model: values 7, 3, 5, ... are sorted
        s = z3.Solver()
        s.add(constraints)
        for i, v in enumerate(values):
            s.add(v == [7, 3, 5, -2][i])
        print("    check:", s.check(), end=" ")
        if s.check() == z3.sat:
            m = s.model()
            print([m.eval(v, model_completion=True).as_long() for v in sorted_vars])
        else:
            print()
        # two equal values: no strict order possible (n >= 2)
        s = z3.Solver()
        s.add(constraints)
        for v in values:
            s.add(v == 1)
        print("    all equal:", s.check())
    # mixed: python ints and arithmetic expressions
    x = z3.Int("x")
    sorted_vars, constraints = sort_no_duplicates([x + 1, 4, x * 2])
    print("  mixed sorted=%s" % [str(v) for v in sorted_vars])
    for c in constraints:
        print("    " + " ".join(str(c).split()))
    # a tuple and wrong kinds of input
    sorted_vars, constraints = sort_no_duplicates((z3.Int("ta"), z3.Int("tb")))
    print("  tuple:", [str(v) for v in sorted_vars], [" ".join(str(c).split()) for c in constraints])
    for bad in (None, 3, {z3.Int("sa"), z3.Int("sb")}, (i for i in range(2))):
        try:
            print("  bad input ->", sort_no_duplicates(bad))
        except Exception as exc:  # pylint: disable=broad-except
            print("  bad input %s raised %s: %s" % (type(bad).__name__, type(exc).__name__, exc))
    # the counter of the fresh variables goes on
    print("  next fresh:", z3.FreshInt())


# ---------------------------------------------------------------------------
# 2. ResourceTasksDistance: the three modes, distance 0, intervals, optional
# ---------------------------------------------------------------------------
def tasks_distance_problem(name, mode, distance, intervals, optional, n_tasks=3, opt_task=False):
    pb = ps.SchedulingProblem(name=name, horizon=20)
    worker = ps.Worker(name="W")
    tasks = []
    for i in range(n_tasks):
        t = ps.FixedDurationTask(
            name="t%d" % i, duration=2, optional=(opt_task and i == n_tasks - 1)
        )
        t.add_required_resource(worker)
        tasks.append(t)
    kwargs = {"resource": worker, "distance": distance, "optional": optional}
    if mode is not None:
        kwargs["mode"] = mode
    if intervals != "default":
        kwargs["list_of_time_intervals"] = intervals
    cstr = ps.ResourceTasksDistance(**kwargs)
    return pb, worker, tasks, cstr


def case_tasks_distance():
    show("2. ResourceTasksDistance")
    combos = [
        ("exact", 4, "default", False),
        (None, 0, "default", False),
        ("min", 3, "default", False),
        ("max", 1, "default", True),
        ("exact", 2, [(0, 10)], False),
        ("min", 0, [(0, 6), (10, 20)], True),
        ("max", 5, [], False),
        ("exact", 1, None, False),
    ]
    for mode, distance, intervals, optional in combos:
        print("- mode=%s distance=%s intervals=%s optional=%s" % (mode, distance, intervals, optional))

        def run():
            pb, _, tasks, cstr = tasks_distance_problem(
                "TD", mode, distance, intervals, optional
            )
            dump_constraint(cstr)
            ps.TaskStartAt(task=tasks[0], value=1)
            solve_and_dump(pb, dump_solver=False)

        guarded(run)
    print("- wrong mode / fewer than two tasks / cumulative worker")
    guarded(lambda: tasks_distance_problem("TD", "between", 1, "default", False))
    guarded(lambda: tasks_distance_problem("TD", "exact", 1, "default", False, n_tasks=1))
    guarded(lambda: tasks_distance_problem("TD", "exact", 1, [(0, 5)], True, n_tasks=0))

    def cumulative():
        pb = ps.SchedulingProblem(name="TDC", horizon=12)
        cw = ps.CumulativeWorker(name="CW", size=2)
        for i in range(2):
            t = ps.FixedDurationTask(name="c%d" % i, duration=3)
            t.add_required_resource(cw)
        cstr = ps.ResourceTasksDistance(resource=cw, distance=2, mode="min")
        dump_constraint(cstr)
        solve_and_dump(pb)

    guarded(cumulative)

    print("- pinned valid schedule (exact 4): t0 [1,3) t1 [7,9) t2 [13,15)")

    def pinned(starts, mode="exact", distance=4, opt_task=False):
        pb, _, tasks, _ = tasks_distance_problem(
            "TDP", mode, distance, "default", False, opt_task=opt_task
        )
        for t, s in zip(tasks, starts):
            if s is None:
                ps.OptionalTaskForceSchedule(task=t, to_be_scheduled=False)
            else:
                ps.TaskStartAt(task=t, value=s)
                if t.optional:
                    ps.OptionalTaskForceSchedule(task=t, to_be_scheduled=True)
        solve_and_dump(pb, pinned=True, dump_solver=False)

    guarded(lambda: pinned([1, 7, 13]))
    print("- pinned invalid schedule (exact 4): gap of 3")
    guarded(lambda: pinned([1, 6, 12]))
    print("- pinned, min 0, contiguous")
    guarded(lambda: pinned([0, 2, 4], mode="min", distance=0))
    print("- pinned, max 1, gap 2 (invalid)")
    guarded(lambda: pinned([0, 4, 7], mode="max", distance=1))
    print("- optional third task left unscheduled, exact 4")
    guarded(lambda: pinned([1, 7, None], opt_task=True))
    print("- optional third task scheduled, exact 4")
    guarded(lambda: pinned([7, 13, 1], opt_task=True))


# ---------------------------------------------------------------------------
# 3. SameWorkers: identical, overlapping, disjoint offers; optional; same object
# ---------------------------------------------------------------------------
def same_workers_problem(offer_1, offer_2, nb_1=1, nb_2=1, kind_1="exact", kind_2="exact", optional=False, same_object=False):
    pb = ps.SchedulingProblem(name="SW", horizon=6)
    workers = {n: ps.Worker(name=n) for n in ("w1", "w2", "w3", "w4")}
    ta = ps.FixedDurationTask(name="ta", duration=2)
    tb = ps.FixedDurationTask(name="tb", duration=2)
    sel_1 = ps.SelectWorkers(
        list_of_workers=[workers[n] for n in offer_1], nb_workers_to_select=nb_1, kind=kind_1
    )
    ta.add_required_resource(sel_1)
    if same_object:
        sel_2 = sel_1
    else:
        sel_2 = ps.SelectWorkers(
            list_of_workers=[workers[n] for n in offer_2], nb_workers_to_select=nb_2, kind=kind_2
        )
        tb.add_required_resource(sel_2)
    cstr = ps.SameWorkers(select_workers_1=sel_1, select_workers_2=sel_2, optional=optional)
    return pb, workers, (ta, tb), (sel_1, sel_2), cstr


def case_same_workers():
    show("3. SameWorkers")
    combos = [
        dict(offer_1=["w1", "w2"], offer_2=["w1", "w2"]),
        dict(offer_1=["w2", "w1"], offer_2=["w1", "w3"]),
        dict(offer_1=["w1", "w2"], offer_2=["w3", "w4"]),
        dict(offer_1=["w1", "w2", "w3"], offer_2=["w3", "w2", "w4"], nb_1=2, nb_2=2),
        dict(offer_1=["w1", "w2", "w3"], offer_2=["w2", "w3"], nb_1=1, nb_2=2, kind_1="min", kind_2="max"),
        dict(offer_1=["w1", "w2"], offer_2=["w1", "w3"], optional=True),
        dict(offer_1=["w1", "w2"], offer_2=["w3", "w4"], optional=True),
        dict(offer_1=["w1", "w2"], offer_2=[], same_object=True),
        dict(offer_1=["w1"], offer_2=["w1"]),
        dict(offer_1=["w4", "w1"], offer_2=["w1", "w4"], nb_1=2, nb_2=1, kind_2="min"),
    ]
    for combo in combos:
        print("-", combo)

        def run():
            pb, _, _, _, cstr = same_workers_problem(**combo)
            dump_constraint(cstr)
            solve_and_dump(pb)

        guarded(run)

    print("- pinned selections: overlapping offers, both take w1 (valid)")

    def pinned(pick_1, pick_2):
        pb, workers, (ta, tb), (sel_1, sel_2), _ = same_workers_problem(
            ["w1", "w2"], ["w1", "w3"]
        )
        ps.ConstraintFromExpression(expression=sel_1._selection_dict[workers[pick_1]])
        ps.ConstraintFromExpression(expression=sel_2._selection_dict[workers[pick_2]])
        ps.TaskStartAt(task=ta, value=0)
        ps.TaskStartAt(task=tb, value=2)
        solve_and_dump(pb, pinned=True, dump_solver=False)

    guarded(lambda: pinned("w1", "w1"))
    print("- pinned selections: w2 for the first, w3 for the second (invalid)")
    guarded(lambda: pinned("w2", "w3"))
    print("- pinned selections: w2 for the first, w1 for the second (invalid)")
    guarded(lambda: pinned("w2", "w1"))
    print("- wrong argument types")
    guarded(lambda: (ps.SchedulingProblem(name="SWbad"), ps.SameWorkers(select_workers_1=ps.Worker(name="x"), select_workers_2=None)))


# ---------------------------------------------------------------------------
# 4. ResourceNonDelay (two sorts in one constructor) with 0, 1, 3 tasks
# ---------------------------------------------------------------------------
def case_non_delay():
    show("4. ResourceNonDelay")
    for n_tasks, opt in ((0, False), (1, False), (3, False), (3, True)):
        print("- %d task(s), last optional=%s" % (n_tasks, opt))

        def run():
            pb = ps.SchedulingProblem(name="ND", horizon=10)
            worker = ps.Worker(name="W")
            tasks = []
            for i in range(n_tasks):
                t = ps.FixedDurationTask(
                    name="n%d" % i, duration=i + 1, optional=(opt and i == n_tasks - 1)
                )
                t.add_required_resource(worker)
                tasks.append(t)
            cstr = ps.ResourceNonDelay(resource=worker)
            dump_constraint(cstr)
            if tasks:
                ps.TaskStartAt(task=tasks[0], value=2)
            if n_tasks == 3:
                # valid pinned schedule: n0 [2,3) n1 [3,5) n2 [5,8) or unscheduled
                ps.TaskStartAt(task=tasks[1], value=3)
                if opt:
                    ps.OptionalTaskForceSchedule(task=tasks[2], to_be_scheduled=False)
                else:
                    ps.TaskStartAt(task=tasks[2], value=5)
            solve_and_dump(pb, pinned=True)

        guarded(run)
    print("- 3 tasks with a hole (invalid): n0 [0,1) n1 [2,4) n2 [4,7)")

    def hole():
        pb = ps.SchedulingProblem(name="NDH", horizon=10)
        worker = ps.Worker(name="W")
        for i, s in enumerate((0, 2, 4)):
            t = ps.FixedDurationTask(name="n%d" % i, duration=i + 1)
            t.add_required_resource(worker)
            ps.TaskStartAt(task=t, value=s)
        ps.ResourceNonDelay(resource=worker)
        solve_and_dump(pb, pinned=True, dump_solver=False)

    guarded(hole)


# ---------------------------------------------------------------------------
# 5. TasksContiguous and IndicatorResourceIdle (other users of the sorter)
# ---------------------------------------------------------------------------
def case_contiguous_and_idle():
    show("5. TasksContiguous / IndicatorResourceIdle")
    for n_tasks in (1, 2, 3):
        print("- TasksContiguous over %d task(s)" % n_tasks)

        def run():
            pb = ps.SchedulingProblem(name="TC", horizon=9)
            tasks = [
                ps.FixedDurationTask(name="c%d" % i, duration=2 + i) for i in range(n_tasks)
            ]
            cstr = ps.TasksContiguous(list_of_tasks=tasks)
            dump_constraint(cstr)
            ps.TaskStartAt(task=tasks[0], value=0)
            if n_tasks == 3:
                ps.TaskStartAt(task=tasks[2], value=2)
                ps.TaskStartAt(task=tasks[1], value=6)
            solve_and_dump(pb, pinned=(n_tasks != 2), dump_solver=(n_tasks < 3))

        guarded(run)
    for n_tasks in (1, 3):
        print("- IndicatorResourceIdle, worker with %d task(s)" % n_tasks)

        def run_idle():
            pb = ps.SchedulingProblem(name="IDLE", horizon=12)
            worker = ps.Worker(name="W")
            for i, s in zip(range(n_tasks), (1, 5, 9)):
                t = ps.FixedDurationTask(name="i%d" % i, duration=2, optional=(i == 1))
                t.add_required_resource(worker)
                if i == 1:
                    ps.OptionalTaskForceSchedule(task=t, to_be_scheduled=False)
                else:
                    ps.TaskStartAt(task=t, value=s)
            ind = ps.IndicatorResourceIdle(resource=worker)
            for asst in ind.get_z3_assertions():
                print("    ind: " + mask(" ".join(str(asst).split())))
            solve_and_dump(pb, pinned=True, dump_solver=False)

        guarded(run_idle)


# ---------------------------------------------------------------------------
# 6. C05 scenario: everything together, a valid schedule pinned, then an
#    infeasible variation
# ---------------------------------------------------------------------------
def case_combined():
    show("6. combined: SameWorkers + ResourceTasksDistance + ResourceNonDelay")
    for variation in ("valid", "distance broken", "selection broken", "free"):
        print("- variation:", variation)

        def run():
            pb = ps.SchedulingProblem(name="ALL", horizon=14)
            w1, w2, w3 = (ps.Worker(name=n) for n in ("w1", "w2", "w3"))
            a = ps.FixedDurationTask(name="a", duration=2)
            b = ps.FixedDurationTask(name="b", duration=3)
            c = ps.FixedDurationTask(name="c", duration=2, optional=True)
            d = ps.ZeroDurationTask(name="d")
            sel_a = ps.SelectWorkers(list_of_workers=[w1, w2], nb_workers_to_select=1)
            sel_b = ps.SelectWorkers(list_of_workers=[w1, w3], nb_workers_to_select=1)
            a.add_required_resource(sel_a)
            b.add_required_resource(sel_b)
            c.add_required_resource(w1)
            d.add_required_resource(w3)
            ps.SameWorkers(select_workers_1=sel_a, select_workers_2=sel_b)
            ps.ResourceTasksDistance(resource=w1, distance=2, mode="min")
            ps.ResourceNonDelay(resource=w3)
            if variation != "free":
                # a on w1 [0,2), b on w1 [4,7), c on w1 [9,11), d at 5
                ps.TaskStartAt(task=a, value=0)
                ps.TaskStartAt(task=b, value=4 if variation != "distance broken" else 3)
                ps.OptionalTaskForceSchedule(task=c, to_be_scheduled=True)
                ps.TaskStartAt(task=c, value=9)
                ps.TaskStartAt(task=d, value=5)
                if variation == "selection broken":
                    ps.ConstraintFromExpression(expression=sel_a._selection_dict[w2])
            solve_and_dump(pb, pinned=(variation != "free"), dump_solver=(variation == "valid"))

        guarded(run)


if __name__ == "__main__":
    case_sort()
    case_tasks_distance()
    case_same_workers()
    case_non_delay()
    case_contiguous_and_idle()
    case_combined()
