"""Equivalence script for the C06 twin refactoring (TasksContiguous,
TaskStartAfter, TaskEndBefore in processscheduler/task_constraint.py).

Run from the worktree root:  cd /tmp/t4_C06 && /venv/bin/python _twin/equiv.py
"""
import contextlib
import io
import os
import re
import sys

sys.path.insert(0, os.getcwd())

import z3  # noqa: E402
import processscheduler as ps  # noqa: E402

assert ps.__file__.startswith(os.getcwd()), ps.__file__

UUID_RE = re.compile(r"[0-9a-f]{8}-[0-9a-f]{4}-[0-9a-f]{4}-[0-9a-f]{4}-[0-9a-f]{12}")
LONGINT_RE = re.compile(r"\d{15,}")
HEX_RE = re.compile(r"\b[0-9a-f]{32}\b")


def mask(text):
    text = UUID_RE.sub("<UUID>", text)
    text = HEX_RE.sub("<HEX>", text)
    text = LONGINT_RE.sub("<BIGINT>", text)
    return text


def flat(s):
    return mask(" ".join(str(s).split()))


def describe(title, build, solve=True):
    """build(pb) creates everything in the active problem, returns the list of
    constraints whose own assertions have to be listed in creation order."""
    print("=" * 70)
    print("CASE", title)
    try:
        pb = ps.SchedulingProblem(name="pb_" + re.sub(r"\W", "_", title), horizon=12)
        watched = build(pb)
        for c in watched:
            print("  constraint", type(c).__name__, "optional=", c.optional)
            for a in c.get_z3_assertions():  # in creation order
                print("    own:", flat(a))
        solver = ps.SchedulingSolver(problem=pb, random_values=False)
        solver.initialize()
        print("  solver assertions (sorted):")
        for line in sorted(flat(a) for a in solver._solver.assertions()):
            print("    ", line)
        if solve:
            # the solver's progress report contains timings: discard it
            with contextlib.redirect_stdout(io.StringIO()):
                solution = ps.SchedulingSolver(problem=pb).solve()
            if not solution:
                print("  solution: NONE", repr(solution))
            else:
                print("  horizon:", solution.horizon)
                for name in sorted(solution.tasks):
                    t = solution.tasks[name]
                    print(
                        "   task", name, t.start, t.end, t.duration,
                        "scheduled=", t.scheduled, "optional=", t.optional,
                        sorted(t.assigned_resources),
                    )
                for name in sorted(solution.indicators):
                    print("   indicator", name, solution.indicators[name])
    except Exception as exc:  # report errors canonically
        print("  ERROR", type(exc).__name__, flat(exc)[:600])


# ---------------------------------------------------------------- start after
def make_start_after(kind, optional_task, value, optional_cstr=False, force=None):
    def build(pb):
        t = ps.FixedDurationTask(name="t", duration=2, optional=optional_task)
        u = ps.FixedDurationTask(name="u", duration=3)
        w = ps.Worker(name="w")
        t.add_required_resource(w)
        u.add_required_resource(w)
        v = u._end if value == "z3" else value
        kw = {} if kind is None else {"kind": kind}
        c = ps.TaskStartAfter(task=t, value=v, optional=optional_cstr, **kw)
        if force is not None:
            ps.OptionalTaskForceSchedule(task=t, to_be_scheduled=force)
        ps.ObjectiveMinimizeMakespan()
        return [c]

    return build


for kind in (None, "lax", "strict"):
    for opt in (False, True):
        for value in (0, 4, "z3"):
            describe(
                f"TaskStartAfter kind={kind} optional_task={opt} value={value}",
                make_start_after(kind, opt, value),
            )
describe(
    "TaskStartAfter optional constraint, optional task forced",
    make_start_after("strict", True, 5, optional_cstr=True, force=True),
)
describe(
    "TaskStartAfter optional task forced out",
    make_start_after("lax", True, 5, force=False),
)
describe(
    "TaskStartAfter beyond horizon, forced in (unsat)",
    make_start_after("strict", True, 11, force=True),
)
describe("TaskStartAfter bad kind", make_start_after("tight", True, 1))
describe("TaskStartAfter bad kind upper", make_start_after("LAX", False, 1))


# ---------------------------------------------------------------- end before
def make_end_before(kind, optional_task, value, optional_cstr=False, force=None,
                    variable=False):
    def build(pb):
        if variable:
            t = ps.VariableDurationTask(name="t", optional=optional_task,
                                        min_duration=1)
        else:
            t = ps.FixedDurationTask(name="t", duration=2, optional=optional_task)
        u = ps.FixedDurationTask(name="u", duration=3)
        w = ps.Worker(name="w")
        t.add_required_resource(w)
        u.add_required_resource(w)
        v = u._start + 1 if value == "z3" else value
        kw = {} if kind is None else {"kind": kind}
        c = ps.TaskEndBefore(task=t, value=v, optional=optional_cstr, **kw)
        if force is not None:
            ps.OptionalTaskForceSchedule(task=t, to_be_scheduled=force)
        ind = ps.IndicatorFromMathExpression(name="t_end", expression=t._end)
        ps.ObjectiveMaximizeIndicator(name="max_t_end", target=ind)
        return [c]

    return build


for kind in (None, "lax", "strict"):
    for opt in (False, True):
        for value in (0, 2, 7, "z3"):
            describe(
                f"TaskEndBefore kind={kind} optional_task={opt} value={value}",
                make_end_before(kind, opt, value),
            )
describe(
    "TaskEndBefore value 0 strict, forced in (unsat)",
    make_end_before("strict", True, 0, force=True),
)
describe(
    "TaskEndBefore optional constraint on mandatory task",
    make_end_before("lax", False, 1, optional_cstr=True),
)
describe(
    "TaskEndBefore variable duration optional",
    make_end_before("strict", True, 4, variable=True, force=True),
)
describe("TaskEndBefore bad kind", make_end_before("tight", False, 1))
describe("TaskEndBefore bad value type", make_end_before("lax", False, "abc"))


# ------------------------------------------------------- first order logic use
def build_not(pb):
    t = ps.FixedDurationTask(name="t", duration=2, optional=True)
    ps.OptionalTaskForceSchedule(task=t, to_be_scheduled=True)
    c1 = ps.TaskStartAfter(task=t, value=3, kind="lax")
    c2 = ps.TaskEndBefore(task=t, value=9, kind="strict")
    n = ps.Not(constraint=c1)
    o = ps.Or(list_of_constraints=[c2, ps.TaskEndBefore(task=t, value=1)])
    return [c1, c2, n, o]


describe("Not / Or over the refactored constraints", build_not)


# ----------------------------------------------------------------- contiguous
def make_contiguous(n_mand, n_opt, forced=(), optional_cstr=False, zero=False,
                    dup=False):
    def build(pb):
        w = ps.Worker(name="w")
        tasks = []
        for i in range(n_mand):
            tasks.append(ps.FixedDurationTask(name=f"m{i}", duration=2 + i))
        for i in range(n_opt):
            tasks.append(ps.FixedDurationTask(name=f"o{i}", duration=1 + i,
                                              optional=True))
        if zero:
            tasks.append(ps.ZeroDurationTask(name="z"))
        for t in tasks:
            if not isinstance(t, ps.ZeroDurationTask):
                t.add_required_resource(w)
        lst = tasks + tasks[:1] if dup else tasks
        c = ps.TasksContiguous(list_of_tasks=lst, optional=optional_cstr)
        for idx, flag in forced:
            ps.OptionalTaskForceSchedule(task=tasks[n_mand + idx],
                                         to_be_scheduled=flag)
        if n_mand:
            ps.TaskStartAt(task=tasks[0], value=1)
        ps.ObjectiveMinimizeMakespan()
        return [c]

    return build


describe("TasksContiguous 3 mandatory", make_contiguous(3, 0))
describe("TasksContiguous 2 mandatory 1 optional forced in",
         make_contiguous(2, 1, forced=[(0, True)]))
describe("TasksContiguous 2 mandatory 2 optional, one in one out",
         make_contiguous(2, 2, forced=[(0, False), (1, True)]))
describe("TasksContiguous 1 mandatory 2 optional free", make_contiguous(1, 2))
describe("TasksContiguous only optional, all out",
         make_contiguous(0, 2, forced=[(0, False), (1, False)]))
describe("TasksContiguous single task", make_contiguous(1, 0))
describe("TasksContiguous empty list", make_contiguous(0, 0))
describe("TasksContiguous optional constraint",
         make_contiguous(2, 1, forced=[(0, True)], optional_cstr=True))
describe("TasksContiguous with zero duration task", make_contiguous(2, 0, zero=True))
describe("TasksContiguous duplicated task in list", make_contiguous(2, 0, dup=True))


def build_contiguous_bad(pb):
    t = ps.FixedDurationTask(name="t", duration=1)
    return [ps.TasksContiguous(list_of_tasks=[t, "not a task"])]


describe("TasksContiguous bad element", build_contiguous_bad)

# the package namespace must not have grown
print("=" * 70)
print("namespace:", sorted(n for n in dir(ps) if "operator" in n.lower()))
