"""Equivalence script for the refactoring of the three task kinds
(ZeroDurationTask / FixedDurationTask / VariableDurationTask constructors).

Run from the worktree:  cd /tmp/t5_C11 && /venv/bin/python _twin/equiv.py
Prints, for each small problem, the assertions stored on every task (in their
order), the sorted assertions of the initialised solver, the solution values and
the consistency facts of property C11; for the invalid inputs, the error raised.
"""
import contextlib
import io
import os
import re
import sys
from datetime import datetime, timedelta

sys.path.insert(0, os.getcwd())

import z3  # noqa: E402
import processscheduler as ps  # noqa: E402
import processscheduler.base  # noqa: E402

assert ps.__file__.startswith(os.getcwd()), ps.__file__

UUID_RE = re.compile(r"(Selected_[A-Za-z0-9_]+?_)\d{20,}")
UID_NAME_RE = re.compile(r"((?:[A-Z][A-Za-z]+)_)[0-9a-f]{8}\b")


def mask(text):
    text = UUID_RE.sub(r"\1<UID>", text)
    text = re.sub(r"\b\d{25,}\b", "<UID>", text)
    return UID_NAME_RE.sub(r"\1<UID8>", text)


def flat(text):
    return " ".join(str(text).split())


def describe(title, problem, with_objective=None):
    print("=" * 70)
    print(title)
    for task in problem.tasks.values():
        print(f"  task {task.name} ({type(task).__name__}) number={task._task_number}")
        for asst in task.get_z3_assertions():
            print("     A:", mask(flat(asst)))
        print("     json:", mask(flat(task.to_json(compact=True))))
    solver = ps.SchedulingSolver(problem=problem, random_values=False)
    chatter = io.StringIO()  # the solver prints timings, which vary from run to run
    with contextlib.redirect_stdout(chatter):
        solver.initialize()
    for line in sorted(mask(flat(a)) for a in solver._solver.assertions()):
        print("  S:", line)
    with contextlib.redirect_stdout(chatter):
        solution = solver.solve()
    if not solution:
        print("  NO SOLUTION")
        return
    print("  horizon:", solution.horizon)
    for name, ts in solution.tasks.items():
        print(
            "  T:", name, ts.type, ts.start, ts.end, ts.duration, ts.scheduled,
            ts.optional, sorted(ts.assigned_resources), ts.release_date,
            ts.due_date, ts.work_amount, ts.priority,
            None if ts.start_time is None else ts.start_time,
            None if ts.end_time is None else ts.end_time,
            None if ts.duration_time is None else ts.duration_time,
        )
        if ts.scheduled:
            print("     end-start==duration:", ts.end - ts.start == ts.duration)
            print("     end<=horizon:", ts.end <= solution.horizon)
        else:
            print("     unscheduled carries no assignment:", ts.assigned_resources == [])
    for name, rs in solution.resources.items():
        print("  R:", name, rs.type, sorted(rs.assignments))
    for name, value in solution.indicators.items():
        print("  I:", mask(name), value)
    # task lists resource <=> resource lists task
    for tname, ts in solution.tasks.items():
        for rname, rs in solution.resources.items():
            in_task = rname in ts.assigned_resources
            in_res = any(a[0] == tname for a in rs.assignments)
            if in_task != in_res:
                print("  MISMATCH", tname, rname, in_task, in_res)


def error_case(title, fn):
    print("=" * 70)
    print(title)
    try:
        result = fn()
        print("  no error:", mask(flat(result)))
    except Exception as exc:  # pylint: disable=broad-except
        print("  ", type(exc).__name__, ":", mask(flat(exc)))


# ---------------------------------------------------------------- problems
def p1():
    pb = ps.SchedulingProblem(
        name="P1",
        horizon=9,
        delta_time=timedelta(minutes=15),
        start_time=datetime(2024, 1, 2, 8, 0),
    )
    t1 = ps.FixedDurationTask(name="t1", duration=3)
    t2 = ps.FixedDurationTask(name="t2", duration=1, release_date=0, due_date=9)
    t3 = ps.FixedDurationTask(
        name="t3", duration=4, release_date=2, due_date=8, due_date_is_deadline=False
    )
    w = ps.Worker(name="w")
    for t in (t1, t2, t3):
        t.add_required_resource(w)
    ps.TaskPrecedence(task_before=t1, task_after=t3)
    describe("P1 fixed durations, one worker, calendar times", pb)


def p2():
    pb = ps.SchedulingProblem(name="P2", delta_time=timedelta(hours=1))
    z1 = ps.ZeroDurationTask(name="z1")
    z2 = ps.ZeroDurationTask(name="z2", optional=True)
    z3_ = ps.ZeroDurationTask(name="z3", release_date=4, due_date=4)
    f = ps.FixedDurationTask(name="f", duration=2, optional=True, priority=0)
    w = ps.Worker(name="w")
    z2.add_required_resource(w)
    f.add_required_resource(w)
    z1.add_required_resource(w)
    ps.ForceScheduleNOptionalTasks(
        list_of_optional_tasks=[z2, f], nb_tasks_to_schedule=1, kind="exact"
    )
    ps.ConstraintFromExpression(expression=z2._scheduled == False)  # noqa: E712
    ps.ObjectiveMinimizeMakespan()
    describe("P2 zero duration tasks, optional ones, one not scheduled", pb)
    del z3_


def p3():
    pb = ps.SchedulingProblem(name="P3", horizon=20)
    v0 = ps.VariableDurationTask(name="v0")
    v1 = ps.VariableDurationTask(name="v1", min_duration=0, max_duration=1)
    v2 = ps.VariableDurationTask(name="v2", min_duration=2, max_duration=5)
    v3 = ps.VariableDurationTask(name="v3", allowed_durations=[3, 7, 11])
    v4 = ps.VariableDurationTask(
        name="v4", min_duration=4, max_duration=9, allowed_durations=[2, 6, 12]
    )
    v5 = ps.VariableDurationTask(name="v5", allowed_durations=[5])
    v6 = ps.VariableDurationTask(name="v6", allowed_durations=[])
    w = ps.Worker(name="w")
    for t in (v0, v1, v2, v3, v4, v5):
        t.add_required_resource(w)
    ps.ObjectiveMinimizeMakespan()
    describe("P3 variable durations: bounds, allowed lists, empty allowed list", pb)
    del v6


def p3b():
    pb = ps.SchedulingProblem(name="P3b", horizon=20)
    v0 = ps.VariableDurationTask(name="v0", min_duration=1)
    v3 = ps.VariableDurationTask(name="v3", allowed_durations=[3, 7])
    w = ps.Worker(name="w")
    v0.add_required_resource(w)
    v3.add_required_resource(w)
    ps.ObjectiveMinimizeMakespan()
    describe("P3b variable durations, satisfiable", pb)


def p4():
    pb = ps.SchedulingProblem(name="P4", horizon=12)
    vo1 = ps.VariableDurationTask(
        name="vo1", optional=True, min_duration=1, max_duration=4, work_amount=6
    )
    vo2 = ps.VariableDurationTask(
        name="vo2", optional=True, allowed_durations=[2, 3], release_date=1, due_date=10
    )
    fo = ps.FixedDurationTask(name="fo", duration=3, optional=True)
    w1 = ps.Worker(name="w1", productivity=2)
    w2 = ps.Worker(name="w2", productivity=0)
    vo1.add_required_resource(w1)
    vo2.add_required_resource(ps.SelectWorkers(list_of_workers=[w1, w2]))
    fo.add_required_resource(w2)
    ps.ConstraintFromExpression(expression=vo2._scheduled == False)  # noqa: E712
    ps.ConstraintFromExpression(expression=vo1._scheduled == True)  # noqa: E712
    describe("P4 optional variable tasks, select workers, work amount", pb)


def p5():
    pb = ps.SchedulingProblem(
        name="P5", start_time=datetime(2023, 5, 1), delta_time=timedelta(days=1)
    )
    cw = ps.CumulativeWorker(name="cw", size=3, productivity=4)
    a = ps.FixedDurationTask(name="a", duration=2)
    b = ps.VariableDurationTask(name="b", min_duration=1, max_duration=3)
    c = ps.ZeroDurationTask(name="c")
    d = ps.VariableDurationTask(name="d", optional=True, allowed_durations=[1, 2])
    for t in (a, b, c, d):
        t.add_required_resource(cw)
    ps.TasksStartSynced(task_1=a, task_2=b)
    ps.ObjectiveMinimizeMakespan()
    describe("P5 cumulative worker with the three kinds of task", pb)


def p6():
    pb = ps.SchedulingProblem(name="P6", horizon=15)
    long_task = ps.VariableDurationTask(name="long", min_duration=6, work_amount=8)
    fixed = ps.FixedDurationTask(name="fixed", duration=5)
    w1 = ps.Worker(name="w1")
    w2 = ps.Worker(name="w2")
    long_task.add_required_resource(w1)
    long_task.add_required_resource(w2, dynamic=True)
    fixed.add_required_resource(w2, delay_in=1, early_out=2)
    ps.TaskStartAt(task=fixed, value=0)
    ps.ObjectiveMinimizeMakespan()
    describe("P6 dynamic resource, delay_in / early_out, work amount", pb)


def p7():
    pb = ps.SchedulingProblem(name="P7")
    t = ps.FixedDurationTask(name="only", duration=1)
    v = ps.VariableDurationTask(name="free")
    z = ps.ZeroDurationTask(name="zero", optional=True)
    describe("P7 no resource, no horizon, no objective", pb)
    del t, v, z


def errors():
    ps.SchedulingProblem(name="E")
    error_case("E1 fixed duration 0", lambda: ps.FixedDurationTask(name="e1", duration=0))
    error_case("E2 fixed duration -3", lambda: ps.FixedDurationTask(name="e2", duration=-3))
    error_case("E3 fixed without duration", lambda: ps.FixedDurationTask(name="e3"))
    error_case(
        "E4 variable min_duration -1",
        lambda: ps.VariableDurationTask(name="e4", min_duration=-1),
    )
    error_case(
        "E5 variable max_duration 0",
        lambda: ps.VariableDurationTask(name="e5", max_duration=0),
    )
    error_case(
        "E6 variable allowed_durations with 0",
        lambda: ps.VariableDurationTask(name="e6", allowed_durations=[0, 2]),
    )
    error_case("E7 zero duration 1", lambda: ps.ZeroDurationTask(name="e7", duration=1))
    ps.FixedDurationTask(name="dup", duration=1)
    error_case("E8 duplicate name", lambda: ps.VariableDurationTask(name="dup"))
    error_case(
        "E9 work_amount -1", lambda: ps.ZeroDurationTask(name="e9", work_amount=-1)
    )
    error_case(
        "E10 unknown field", lambda: ps.VariableDurationTask(name="e10", duration=3)
    )
    error_case(
        "E11 min greater than max is accepted",
        lambda: ps.VariableDurationTask(
            name="e11", min_duration=5, max_duration=2
        ).get_z3_assertions(),
    )
    error_case(
        "E12 optional min greater than max",
        lambda: ps.VariableDurationTask(
            name="e12", min_duration=5, max_duration=2, optional=True
        ).get_z3_assertions(),
    )
    processscheduler.base.active_problem = None
    error_case("E13 no problem, fixed", lambda: ps.FixedDurationTask(name="n1", duration=1))
    error_case("E14 no problem, variable", lambda: ps.VariableDurationTask(name="n2"))
    error_case("E15 no problem, zero", lambda: ps.ZeroDurationTask(name="n3"))


def json_roundtrip():
    pb = ps.SchedulingProblem(name="J", horizon=10)
    v = ps.VariableDurationTask(
        name="jv", min_duration=1, max_duration=4, allowed_durations=[2, 3], optional=True
    )
    f = ps.FixedDurationTask(name="jf", duration=2, priority=3)
    z = ps.ZeroDurationTask(name="jz")
    texts = [t.to_json(compact=True) for t in (v, f, z)]
    pb2 = ps.SchedulingProblem(name="J2", horizon=10)
    for text in texts:
        pb2.add_from_json(text)
    describe("J json round trip of the three kinds of task", pb2)
    del pb


if __name__ == "__main__":
    z3.set_param("smt.random_seed", 0)
    for fn in (p1, p2, p3, p3b, p4, p5, p6, p7, json_roundtrip, errors):
        try:
            fn()
        except Exception as exc:  # pylint: disable=broad-except
            print("  CASE RAISED", type(exc).__name__, ":", mask(flat(exc)))
