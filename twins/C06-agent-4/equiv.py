"""Equivalence script for the refactoring of TasksStartSynced / TasksEndSynced /
TasksDontOverlap (helper _applies_if_all_scheduled in task_constraint.py).

Prints, for a set of small problems, the constraint's own assertions (sexpr, so
that the exact structure is shown), the sorted solver assertions and the
solution values, or the error raised.
"""
import contextlib
import io
import os
import re
import sys

sys.path.insert(0, os.getcwd())

import z3  # noqa: E402
import processscheduler as ps  # noqa: E402

assert os.path.dirname(os.path.dirname(ps.__file__)) == os.getcwd(), ps.__file__


def mask(text):
    text = re.sub(r"[0-9a-f]{8}-[0-9a-f]{4}-[0-9a-f]{4}-[0-9a-f]{4}-[0-9a-f]{12}", "UUID", text)
    text = re.sub(r"[0-9a-f]{32}", "HEX32", text)
    text = re.sub(r"\d{15,}", "BIGINT", text)
    # uids of constraints / indicators are random integers
    text = re.sub(r"constraint_[0-9A-Za-z]+_applied", "constraint_UID_applied", text)
    text = re.sub(r"(Indicator_[A-Za-z]+_)\d+", r"\1UID", text)
    text = re.sub(r"asst_[0-9a-f]{8}", "asst_ID", text)
    return text


def show_constraint(cstr):
    print("  constraint %s optional=%s applied=%s" % (type(cstr).__name__, cstr.optional, mask(str(cstr._applied))))
    for a in cstr.get_z3_assertions():
        sexpr = a.sexpr() if hasattr(a, "sexpr") else repr(a)
        print("    asst:", mask(" ".join(sexpr.split())))


def show_solve(pb, debug=False, times=True):
    try:
        # the solver prints computation times: keep them out of the output
        with contextlib.redirect_stdout(io.StringIO()):
            solver = ps.SchedulingSolver(problem=pb, debug=debug, random_values=False)
            solution = solver.solve()
    except Exception as exc:  # pylint: disable=broad-except
        print("  solve error:", type(exc).__name__, mask(str(exc)))
        return
    assts = sorted(mask(" ".join(str(a).split())) for a in solver._solver.assertions())
    print("  %d solver assertions" % len(assts))
    for a in assts:
        print("    S:", a)
    if not solution:
        print("  solution: NONE")
        return
    for name in sorted(solution.tasks):
        t = solution.tasks[name]
        if not times:
            # several optimal schedules exist and the one z3 returns depends on
            # the random uids: report only what is determined
            print("  task %s: scheduled=%s optional=%s" % (name, t.scheduled, t.optional))
            continue
        print("  task %s: scheduled=%s start=%s end=%s duration=%s optional=%s" % (name, t.scheduled, t.start, t.end, t.duration, t.optional))
    print("  horizon:", solution.horizon)
    for name in sorted(solution.indicators):
        print("  indicator %s = %s" % (name, solution.indicators[name]))


def case(title, builder, **solve_kw):
    print("=" * 70)
    print("CASE", title)
    try:
        pb, cstrs = builder()
    except Exception as exc:  # pylint: disable=broad-except
        print("  build error:", type(exc).__name__, mask(str(exc))[:600])
        return
    for c in cstrs:
        show_constraint(c)
    show_solve(pb, **solve_kw)


CLASSES = {
    "start": ps.TasksStartSynced,
    "end": ps.TasksEndSynced,
    "overlap": ps.TasksDontOverlap,
}


def two_tasks(kind, opt1, opt2, d1=3, d2=4, horizon=10, cstr_optional=False, force=(), start1=None, zero2=False, variable1=False):
    def builder():
        pb = ps.SchedulingProblem(name="pb_%s_%s_%s" % (kind, opt1, opt2), horizon=horizon)
        if variable1:
            t1 = ps.VariableDurationTask(name="t1", optional=opt1, min_duration=d1, max_duration=d1 + 2)
        else:
            t1 = ps.FixedDurationTask(name="t1", duration=d1, optional=opt1)
        if zero2:
            t2 = ps.ZeroDurationTask(name="t2", optional=opt2)
        else:
            t2 = ps.FixedDurationTask(name="t2", duration=d2, optional=opt2)
        c = CLASSES[kind](task_1=t1, task_2=t2, optional=cstr_optional)
        cstrs = [c]
        if start1 is not None:
            cstrs.append(ps.TaskStartAt(task=t1, value=start1))
        for idx, val in force:
            tk = (t1, t2)[idx]
            cstrs.append(ps.OptionalTaskForceSchedule(task=tk, to_be_scheduled=val))
        return pb, cstrs

    return builder


# 1-12: every class x every optional combination
for kind in ("start", "end", "overlap"):
    for o1, o2 in ((False, False), (True, False), (False, True), (True, True)):
        case("%s opt1=%s opt2=%s" % (kind, o1, o2), two_tasks(kind, o1, o2, start1=0))

# forced scheduled / forced unscheduled
case("start both optional, both forced scheduled", two_tasks("start", True, True, force=((0, True), (1, True)), start1=2))
case("end both optional, t2 forced out", two_tasks("end", True, True, force=((0, True), (1, False)), start1=1))
case("overlap optional t2 forced, tight horizon 7", two_tasks("overlap", False, True, horizon=7, force=((1, True),), start1=0))
case("overlap optional t2 forced, too small horizon 3 (unsat)", two_tasks("overlap", False, True, horizon=3, force=((1, True),), start1=0))
case("overlap optional t2 free, horizon 3", two_tasks("overlap", False, True, horizon=3, start1=0))

# optional constraints (the _applied implication wraps the result)
case("start optional constraint, mandatory tasks", two_tasks("start", False, False, cstr_optional=True, start1=0))
case("end optional constraint, optional task", two_tasks("end", True, False, cstr_optional=True, start1=0))
case("overlap optional constraint, both optional", two_tasks("overlap", True, True, cstr_optional=True, force=((0, True), (1, True))))

# edge values: zero duration tasks, duration 0, variable durations, debug mode
case("start with zero duration t2 optional", two_tasks("start", False, True, zero2=True, force=((1, True),), start1=4))
case("end with zero duration t2 mandatory, t1 optional", two_tasks("end", True, False, zero2=True, force=((0, True),)))
case("overlap with duration 0 fixed task", two_tasks("overlap", True, True, d1=0, d2=0, force=((0, True), (1, True))))
case("overlap variable duration t1", two_tasks("overlap", True, False, variable1=True, horizon=8, force=((0, True),)))
case("end synced debug mode", two_tasks("end", False, True, force=((1, True),), start1=0), debug=True)


# same task twice
def same_task(kind, opt):
    def builder():
        pb = ps.SchedulingProblem(name="same_%s_%s" % (kind, opt), horizon=6)
        t1 = ps.FixedDurationTask(name="t1", duration=2, optional=opt)
        c = CLASSES[kind](task_1=t1, task_2=t1)
        return pb, [c]

    return builder


for kind in ("start", "end", "overlap"):
    for opt in (False, True):
        case("same task twice %s optional=%s" % (kind, opt), same_task(kind, opt))


# errors: wrong argument types / missing arguments
def bad_args(kind, which):
    def builder():
        pb = ps.SchedulingProblem(name="bad_%s_%s" % (kind, which), horizon=6)
        t1 = ps.FixedDurationTask(name="t1", duration=2, optional=True)
        if which == "missing":
            c = CLASSES[kind](task_1=t1)
        elif which == "int":
            c = CLASSES[kind](task_1=t1, task_2=3)
        elif which == "none":
            c = CLASSES[kind](task_1=None, task_2=t1)
        elif which == "worker":
            w = ps.Worker(name="w")
            c = CLASSES[kind](task_1=t1, task_2=w)
        return pb, [c]

    return builder


for kind in ("start", "end", "overlap"):
    for which in ("missing", "int", "none", "worker"):
        case("bad args %s %s" % (kind, which), bad_args(kind, which))


# larger mixed problem with worker, objective, indicators and first order logic
def mixed():
    pb = ps.SchedulingProblem(name="mixed", horizon=12)
    w = ps.Worker(name="w1")
    a = ps.FixedDurationTask(name="a", duration=3)
    b = ps.FixedDurationTask(name="b", duration=2, optional=True)
    c = ps.FixedDurationTask(name="c", duration=4, optional=True)
    d = ps.VariableDurationTask(name="d", min_duration=1, max_duration=3, optional=True)
    for t in (a, b, c, d):
        t.add_required_resource(w)
    cs = [
        ps.TasksStartSynced(task_1=a, task_2=b, optional=True),
        ps.TasksEndSynced(task_1=c, task_2=d),
        ps.TasksDontOverlap(task_1=b, task_2=c),
        ps.TasksDontOverlap(task_1=a, task_2=d),
        ps.ForceScheduleNOptionalTasks(list_of_optional_tasks=[b, c, d], nb_tasks_to_schedule=2, kind="min"),
    ]
    ps.IndicatorNumberTasksAssigned(resource=w)
    ps.ObjectiveMinimizeMakespan()
    return pb, cs


case("mixed with worker and objective", mixed, times=False)


# negation / implication of the constraints through first order logic
def fol():
    pb = ps.SchedulingProblem(name="fol", horizon=10)
    a = ps.FixedDurationTask(name="a", duration=3, optional=True)
    b = ps.FixedDurationTask(name="b", duration=3)
    n = ps.Not(constraint=ps.TasksStartSynced(task_1=a, task_2=b))
    i = ps.Implies(
        condition=a._scheduled,
        list_of_constraints=[ps.TasksDontOverlap(task_1=a, task_2=b), ps.TasksEndSynced(task_1=b, task_2=a)],
    )
    f = ps.OptionalTaskForceSchedule(task=a, to_be_scheduled=True)
    return pb, [n, i, f]


case("first order logic over the constraints", fol)


# the helper itself, when present, is private: report only public module names
import processscheduler.task_constraint as tc  # noqa: E402

print("=" * 70)
print("public names:", sorted(n for n in dir(tc) if not n.startswith("_")))
print("ps names:", sorted(n for n in dir(ps) if not n.startswith("_")))
