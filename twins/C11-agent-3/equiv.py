"""Equivalence script for the C11 refactoring twin (resource.py:
_distribute_p_over_n, CumulativeWorker.__init__, SelectWorkers.__init__).

Run with:  cd /tmp/t4_C11 && /venv/bin/python _twin/equiv.py
Prints a canonical description of each scenario outcome.  uuid4 is replaced
by a seeded generator so that the z3 variable names (and hence the models
found by z3) are reproducible from one run to the next.
"""
import contextlib
import io
import os
import sys

sys.path.insert(0, os.getcwd())

import random
import uuid
from datetime import datetime, timedelta

_rng = random.Random(0)


def _fake_uuid4():
    return uuid.UUID(int=_rng.getrandbits(128), version=4)


uuid.uuid4 = _fake_uuid4

import processscheduler as ps  # noqa: E402
import processscheduler.base  # noqa: E402
import processscheduler.function  # noqa: E402
import processscheduler.resource as psr  # noqa: E402

processscheduler.base.uuid4 = _fake_uuid4

assert os.path.realpath(ps.__file__).startswith(os.path.realpath(os.getcwd())), ps.__file__


def reseed(n):
    _rng.seed(n)


def describe_solution(solution, problem):
    if not solution:
        print("  no solution:", solution)
        return
    print("  horizon", solution.horizon)
    for name in sorted(solution.tasks):
        t = solution.tasks[name]
        print(
            "  task",
            name,
            t.type,
            t.start,
            t.end,
            t.duration,
            "sched=%s" % t.scheduled,
            "opt=%s" % t.optional,
            t.assigned_resources,
            t.start_time,
            t.end_time,
            t.duration_time,
        )
    for name in sorted(solution.resources):
        r = solution.resources[name]
        print("  resource", name, r.type, r.assignments)
    for name in sorted(solution.indicators):
        print("  indicator", name, solution.indicators[name])
    # C11 self-consistency
    problems = []
    for name, t in solution.tasks.items():
        if t.scheduled and t.end - t.start != t.duration:
            problems.append(("duration", name))
        if t.scheduled and t.end > solution.horizon:
            problems.append(("horizon", name))
        if not t.scheduled and t.assigned_resources:
            problems.append(("unscheduled-assigned", name))
        for rname in t.assigned_resources:
            if rname not in solution.resources or name not in [
                a[0] for a in solution.resources[rname].assignments
            ]:
                problems.append(("task->resource", name, rname))
        if problem.delta_time is not None:
            base = problem.start_time
            st = t.start * problem.delta_time
            if base is not None:
                st = base + st
            if t.start_time != st or t.duration_time != t.duration * problem.delta_time:
                problems.append(("calendar", name))
            if t.end_time != t.start_time + t.duration_time:
                problems.append(("calendar-end", name))
    for rname, r in solution.resources.items():
        if "_CumulativeWorker_" in rname:
            problems.append(("cumulative-name", rname))
        for tname, _s, _e in r.assignments:
            if rname not in solution.tasks[tname].assigned_resources:
                problems.append(("resource->task", rname, tname))
    print("  consistency problems:", problems)


def describe_resources(problem):
    for name in sorted(problem.workers):
        w = problem.workers[name]
        print("  worker", name, w.productivity, w.cost.value if w.cost is not None else None)
    for sw in problem.select_workers.values():
        print(
            "  select",
            sw.name,
            sw.kind,
            sw.nb_workers_to_select,
            [w.name for w in sw.list_of_workers],
            [w.name for w in sw._list_of_workers],
            sorted((k.name, str(v)) for k, v in sw._selection_dict.items()),
            sw._selection_assertion,
            sw.to_json(compact=True),
        )
    for name in sorted(problem.cumulative_workers):
        cw = problem.cumulative_workers[name]
        print("  cumulative", name, cw.size, [w.name for w in cw._cumulative_workers])


def run(title, seed, builder, **solver_args):
    print("=" * 70)
    print(title)
    reseed(seed)
    try:
        problem = builder()
        describe_resources(problem)
        solver = ps.SchedulingSolver(problem=problem, **solver_args)
        with contextlib.redirect_stdout(io.StringIO()):  # timings are printed
            solution = solver.solve()
        print("  assertions:")
        for a in sorted(str(x).replace("\n", " ") for x in solver._solver.assertions()):
            print("    ", " ".join(a.split()))
        describe_solution(solution, problem)
    except Exception as exc:  # canonical description of the error
        print("  ERROR", type(exc).__name__, str(exc).splitlines()[0][:200])


# ---------------------------------------------------------------- scenarios
def s1():
    pb = ps.SchedulingProblem(
        name="S1",
        horizon=12,
        delta_time=timedelta(minutes=15),
        start_time=datetime(2024, 1, 2, 8, 0),
    )
    t1 = ps.FixedDurationTask(name="T1", duration=3)
    t2 = ps.FixedDurationTask(name="T2", duration=4)
    t3 = ps.ZeroDurationTask(name="Z")
    w = ps.Worker(name="W", productivity=0)
    t1.add_required_resource(w)
    t2.add_required_resource(w)
    ps.TaskPrecedence(task_before=t1, task_after=t2, offset=1)
    ps.TaskStartAt(task=t3, value=5)
    return pb


def s2():
    pb = ps.SchedulingProblem(name="S2", delta_time=timedelta(hours=2))
    tasks = [ps.FixedDurationTask(name=f"T{i}", duration=2) for i in range(4)]
    cw = ps.CumulativeWorker(
        name="Machine", size=3, productivity=7, cost=ps.ConstantFunction(value=5)
    )
    for t in tasks:
        t.add_required_resource(cw)
    ps.ObjectiveMinimizeMakespan()
    ps.IndicatorResourceCost(list_of_resources=[cw])
    return pb


def s3(kind, nb):
    def build():
        pb = ps.SchedulingProblem(name="S3" + kind, horizon=8)
        ws = [ps.Worker(name=f"W{i}", productivity=i) for i in range(3)]
        t1 = ps.FixedDurationTask(name="T1", duration=3)
        t2 = ps.VariableDurationTask(name="T2", work_amount=4, max_duration=6)
        t3 = ps.FixedDurationTask(name="T3", duration=2, optional=True)
        sw1 = ps.SelectWorkers(list_of_workers=ws, nb_workers_to_select=nb, kind=kind)
        sw2 = ps.SelectWorkers(list_of_workers=ws[1:], nb_workers_to_select=1, kind=kind)
        t1.add_required_resource(sw1)
        t2.add_required_resource(sw2)
        t3.add_required_resource(ws[0])
        ps.OptionalTaskForceSchedule(task=t3, to_be_scheduled=False)
        return pb

    return build


def s4():
    pb = ps.SchedulingProblem(name="S4", horizon=6)
    cw = ps.CumulativeWorker(name="Pool", size=2, productivity=3)
    w = ps.Worker(name="Solo", productivity=2, cost=ps.ConstantFunction(value=7))
    t1 = ps.FixedDurationTask(name="T1", duration=3, work_amount=3)
    t2 = ps.FixedDurationTask(name="T2", duration=3)
    t3 = ps.FixedDurationTask(name="T3", duration=3, optional=True)
    sw = ps.SelectWorkers(list_of_workers=[cw, w], nb_workers_to_select=1, kind="exact")
    t1.add_required_resource(sw)
    t2.add_required_resource(cw)
    t3.add_required_resource(cw)
    ps.TaskStartAt(task=t2, value=0)
    ps.OptionalTaskForceSchedule(task=t3, to_be_scheduled=True)
    return pb


def s5():
    pb = ps.SchedulingProblem(name="S5", horizon=5)
    w1 = ps.Worker(name="A")
    w2 = ps.Worker(name="B")
    t1 = ps.ZeroDurationTask(name="T1")
    t2 = ps.FixedDurationTask(name="T2", duration=5)
    # the same worker listed twice, min 2 among 3 entries
    sw = ps.SelectWorkers(list_of_workers=[w1, w2, w1], nb_workers_to_select=2, kind="min")
    t2.add_required_resource(sw)
    t1.add_required_resource(w2)
    return pb


def s6():
    pb = ps.SchedulingProblem(name="S6", horizon=4)
    cw_a = ps.CumulativeWorker(name="CA", size=2, productivity=1, cost=ps.ConstantFunction(value=0))
    cw_b = ps.CumulativeWorker(name="CB", size=4, productivity=2, cost=ps.ConstantFunction(value=9))
    t1 = ps.FixedDurationTask(name="T1", duration=2)
    t2 = ps.FixedDurationTask(name="T2", duration=2)
    sw = ps.SelectWorkers(list_of_workers=[cw_a, cw_b], nb_workers_to_select=2, kind="max")
    t1.add_required_resource(sw)
    t2.add_required_resource(cw_a)
    t2.add_required_resource(cw_b)
    ps.TasksStartSynced(task_1=t1, task_2=t2)
    return pb


def e1():
    ps.SchedulingProblem(name="E1", horizon=5)
    ws = [ps.Worker(name="A"), ps.Worker(name="B")]
    ps.SelectWorkers(list_of_workers=ws, nb_workers_to_select=3)


def e2():
    ps.SchedulingProblem(name="E2", horizon=5)
    ps.CumulativeWorker(name="C", size=1)


def e3():
    ps.SchedulingProblem(name="E3", horizon=5)
    ps.CumulativeWorker(name="C", size=2, cost=ps.LinearFunction(slope=1, intercept=2))


def e4():
    ps.SchedulingProblem(name="E4", horizon=5)
    ws = [ps.Worker(name="A"), ps.Worker(name="B")]
    ps.SelectWorkers(list_of_workers=ws, nb_workers_to_select=1, kind="atleast")


def e5():
    ps.SchedulingProblem(name="E5", horizon=5)
    ps.SelectWorkers(list_of_workers=[ps.Worker(name="A")], nb_workers_to_select=1)


def e6():
    ps.SchedulingProblem(name="E6", horizon=5)
    ps.CumulativeWorker(name="C", size=2, cost=None)


def e7():
    processscheduler.base.active_problem = None
    ps.CumulativeWorker(name="C", size=2)


def e8():
    pb = ps.SchedulingProblem(name="E8", horizon=5)
    ps.CumulativeWorker(name="C", size=3, productivity=2, cost=ps.ConstantFunction(value=2.5))
    return pb


if __name__ == "__main__":
    run("S1 single worker, calendar times with start_time, zero productivity", 1, s1)
    run("S2 cumulative worker size 3 productivity 7 cost 5, makespan, delta_time only", 2, s2)
    run("S3 select workers kind=min nb=2", 3, s3("min", 2))
    run("S3 select workers kind=max nb=1", 4, s3("max", 1))
    run("S3 select workers kind=exact nb=3", 5, s3("exact", 3))
    run("S4 select among cumulative + worker, optional forced task", 6, s4)
    run("S5 duplicated worker in selection, zero duration", 7, s5)
    run("S6 select among two cumulative workers", 8, s6)
    run("S6 with the optimize optimizer", 8, s6, optimizer="optimize")
    for i, e in enumerate([e1, e2, e3, e4, e5, e6, e7, e8]):
        run("E%d construction error / edge" % (i + 1), 20 + i, e)

    print("=" * 70)
    print("_distribute_p_over_n grid")
    values = [None, 0, 1, 2, 5, 7, 10, -3, True, False, 2.5, "7",
              ps.ConstantFunction(value=0), ps.ConstantFunction(value=11),
              ps.ConstantFunction(value=-4), ps.ConstantFunction(value=3.5),
              ps.LinearFunction(slope=1, intercept=1)]
    for p in values:
        for n in [-1, 0, 1, 2, 3, 4, 7]:
            label = (
                "%s(%s)" % (type(p).__name__, getattr(p, "value", "-"))
                if isinstance(p, processscheduler.function.Function)
                else repr(p)
            )
            try:
                out = psr._distribute_p_over_n(p, n)
                print("  ", label, n, "->", out, [type(x).__name__ for x in out])
            except Exception as exc:
                print("  ", label, n, "-> ERROR", type(exc).__name__, exc)
