"""Equivalence script for the C06 twin refactoring.

Exercises TaskPrecedence, ObjectiveMinimizeFlowtime and ObjectivePriorities on
small problems mixing optional and mandatory tasks, and prints a canonical
description: sorted solver assertions (uuids masked), the constraint's own
assertions, the objective expression and the solution values (or the error).
"""
import contextlib
import io
import os
import re
import sys

sys.path.insert(0, os.getcwd())

import z3  # noqa: E402
import processscheduler as ps  # noqa: E402

assert os.path.dirname(os.path.dirname(ps.__file__)) == os.getcwd(), ps.__file__

UID_RX = re.compile(r"(task_group_(?:start|end)_|constraint_)(\d{6,})")
HEX_RX = re.compile(r"[0-9a-f]{32}|(?<=_)[0-9a-f]{8}\b")
_seen = {}


def _number(match):
    # random identifiers are replaced by their rank of first appearance
    uid = match.group(2)
    _seen.setdefault(uid, f"UID{len(_seen)}")
    return match.group(1) + _seen[uid]


def mask(text):
    text = " ".join(str(text).split())
    text = UID_RX.sub(_number, text)
    return HEX_RX.sub("HEX", text)


def canonical_solution(pb, solver, solution, assertions):
    """z3 does not return the same model from one run to the other when several
    models exist (names holding uuids change the internal ordering).  The optimum
    reached by the library's solver is printed as is; the values of the tasks are
    taken from the lexicographically smallest model, among those reaching this
    optimum, of the assertions the library handed to z3."""
    opt = z3.Optimize()
    opt.set(priority="lex")
    opt.add(assertions)
    if pb.objectives:
        target = solver._objective._target
        best = solution.indicators[solver._objective.target.name]
        print(f"  optimum {solver._objective.target.name}={best}")
        opt.add(target == best)
    if pb.horizon is None:
        opt.minimize(pb._horizon)
    tasks = [pb.tasks[n] for n in sorted(pb.tasks)]
    for t in tasks:
        if t.optional:
            opt.minimize(z3.If(t._scheduled, 1, 0))
        opt.minimize(t._start)
        opt.minimize(t._end)
    print(f"  canonical model: {opt.check()}")
    model = opt.model()
    for t in tasks:
        sched = model.eval(t._scheduled, model_completion=True) if t.optional else True
        print(
            f"  task {t.name}: scheduled={sched} "
            f"start={model.eval(t._start, model_completion=True)} "
            f"end={model.eval(t._end, model_completion=True)}"
        )
    # the solution reported by the library satisfies what it reports
    for t in tasks:
        ts = solution.tasks[t.name]
        assert ts.scheduled == (ts.start >= 0), (t.name, ts)
        if not ts.scheduled:
            assert ts.assigned_resources == [], (t.name, ts)


def describe(label, build, solve=True, **solver_args):
    print(f"=== {label}")
    _seen.clear()
    try:
        with contextlib.redirect_stdout(io.StringIO()):
            pb, watched = build()
        for name, obj in watched:
            for a in obj.get_z3_assertions():
                print(f"  own[{name}]: {mask(a)}")
        for obj in pb.objectives.values():
            print(f"  objective {obj.name} kind={obj.kind} target={mask(obj._target)}")
            for a in obj.target.get_z3_assertions():
                print(f"    indicator asst: {mask(a)}")
        with contextlib.redirect_stdout(io.StringIO()):
            solver = ps.SchedulingSolver(problem=pb, **solver_args)
            solver.initialize()
        assertions = list(solver._solver.assertions())
        for line in sorted(mask(a) for a in assertions):
            print(f"  asst: {line}")
        if solve:
            with contextlib.redirect_stdout(io.StringIO()):
                solution = solver.solve()
            if not solution:
                print("  solution: NONE")
            else:
                canonical_solution(pb, solver, solution, assertions)
    except Exception as exc:  # pylint: disable=broad-except
        print(f"  ERROR {type(exc).__name__}: {mask(exc)[:300]}")


def force(task, value=True):
    ps.OptionalTaskForceSchedule(task=task, to_be_scheduled=value)


# ---------------------------------------------------------------- precedence
def precedence(kind, offset, opt_before, opt_after, forced=None, optional_cstr=False):
    def build():
        pb = ps.SchedulingProblem(name=f"prec_{kind}_{offset}", horizon=12)
        t1 = ps.FixedDurationTask(name="t1", duration=2, optional=opt_before)
        t2 = ps.FixedDurationTask(name="t2", duration=3, optional=opt_after)
        w = ps.Worker(name="w")
        t1.add_required_resource(w)
        t2.add_required_resource(w)
        args = {"task_before": t1, "task_after": t2, "kind": kind}
        if offset is not None:
            args["offset"] = offset
        if optional_cstr:
            args["optional"] = True
        c = ps.TaskPrecedence(**args)
        ps.TaskStartAt(task=t2, value=0 if forced == "clash" else 6)
        if forced is not None:
            for t in (t1, t2):
                if t.optional:
                    force(t, forced != "none")
        return pb, [("prec", c)]

    return build


def precedence_groups():
    pb = ps.SchedulingProblem(name="prec_groups", horizon=20)
    a = ps.FixedDurationTask(name="a", duration=2)
    b = ps.FixedDurationTask(name="b", duration=2, optional=True)
    c = ps.VariableDurationTask(name="c", min_duration=1, max_duration=3)
    d = ps.ZeroDurationTask(name="d", optional=True)
    g1 = ps.UnorderedTaskGroup(list_of_tasks=[a, b], time_interval=(0, 8))
    g2 = ps.OrderedTaskGroup(list_of_tasks=[c, d], kind="tight", optional=True)
    p1 = ps.TaskPrecedence(task_before=g1, task_after=g2, offset=1, kind="strict")
    p2 = ps.TaskPrecedence(task_before=g2, task_after=a, offset=0, kind="tight")
    p3 = ps.TaskPrecedence(task_before=b, task_after=g1)
    force(b)
    return pb, [("g1->g2", p1), ("g2->a", p2), ("b->g1", p3)]


def precedence_groups_ok(opt_e=False):
    pb = ps.SchedulingProblem(name="prec_groups_ok", horizon=20)
    a = ps.FixedDurationTask(name="a", duration=2)
    b = ps.FixedDurationTask(name="b", duration=2, optional=True)
    c = ps.VariableDurationTask(name="c", min_duration=1, max_duration=3)
    d = ps.ZeroDurationTask(name="d", optional=True)
    e = ps.FixedDurationTask(name="e", duration=1, optional=opt_e)
    g1 = ps.UnorderedTaskGroup(list_of_tasks=[a, b], time_interval=(0, 8))
    g2 = ps.OrderedTaskGroup(list_of_tasks=[c, d], kind="tight")
    if opt_e:
        p0 = ps.TaskPrecedence(task_before=e, task_after=g1, offset=2)
        return pb, [("e->g1", p0)]
    p1 = ps.TaskPrecedence(task_before=g1, task_after=g2, offset=1, kind="strict")
    p2 = ps.TaskPrecedence(task_before=g2, task_after=e, offset=0, kind="tight")
    p3 = ps.TaskPrecedence(task_before=g1, task_after=g2, optional=True, kind="tight")
    force(b)
    return pb, [("g1->g2", p1), ("g2->e", p2), ("g1->g2 optional", p3)]


def precedence_logic():
    pb = ps.SchedulingProblem(name="prec_logic", horizon=10)
    t1 = ps.FixedDurationTask(name="t1", duration=2, optional=True)
    t2 = ps.FixedDurationTask(name="t2", duration=2)
    t3 = ps.FixedDurationTask(name="t3", duration=2, optional=True)
    p = ps.TaskPrecedence(task_before=t1, task_after=t2, offset=3, kind="tight")
    q = ps.TaskPrecedence(task_before=t2, task_after=t3, kind="strict")
    n = ps.Not(constraint=q)
    i = ps.Implies(
        condition=t1._start > 2,
        list_of_constraints=[ps.TaskPrecedence(task_before=t3, task_after=t1)],
    )
    force(t1)
    force(t3)
    return pb, [("p", p), ("not q", n), ("implies", i)]


# ----------------------------------------------------------------- objectives
def flowtime(subset, all_optional=False, none_optional=False):
    def build():
        pb = ps.SchedulingProblem(name="flow", horizon=15)
        w = ps.Worker(name="w")
        tasks = []
        for i, (dur, opt) in enumerate([(2, False), (3, True), (1, True), (4, False)]):
            opt = (opt or all_optional) and not none_optional
            t = ps.FixedDurationTask(name=f"f{i}", duration=dur, optional=opt)
            t.add_required_resource(w)
            tasks.append(t)
        ps.ZeroDurationTask(name="z", optional=not none_optional)
        if subset == "none":
            ps.ObjectiveMinimizeFlowtime()
        elif subset == "explicit_none":
            ps.ObjectiveMinimizeFlowtime(list_of_tasks=None)
        elif subset == "empty":
            ps.ObjectiveMinimizeFlowtime(list_of_tasks=[])
        else:
            ps.ObjectiveMinimizeFlowtime(list_of_tasks=[tasks[i] for i in subset])
        if not none_optional:
            ps.ForceScheduleNOptionalTasks(
                list_of_optional_tasks=[t for t in tasks if t.optional],
                nb_tasks_to_schedule=1,
                kind="min",
            )
        return pb, []

    return build


def priorities(prios, optionals, with_precedence=False):
    def build():
        pb = ps.SchedulingProblem(name="prio", horizon=14)
        w = ps.Worker(name="w")
        tasks = []
        for i, (prio, opt) in enumerate(zip(prios, optionals)):
            t = ps.FixedDurationTask(
                name=f"p{i}", duration=i + 1, priority=prio, optional=opt
            )
            t.add_required_resource(w)
            tasks.append(t)
        v = ps.VariableDurationTask(
            name="v", min_duration=1, max_duration=2, priority=2, optional=True
        )
        tasks.append(v)
        watched = []
        if with_precedence:
            c = ps.TaskPrecedence(
                task_before=tasks[-1], task_after=tasks[0], offset=2, kind="lax"
            )
            watched.append(("prec", c))
        ps.ObjectivePriorities()
        opt_tasks = [t for t in tasks if t.optional]
        ps.ForceScheduleNOptionalTasks(
            list_of_optional_tasks=opt_tasks,
            nb_tasks_to_schedule=max(1, len(opt_tasks) - 1),
            kind="exact",
        )
        return pb, watched

    return build


def both_objectives():
    pb = ps.SchedulingProblem(name="both", horizon=12)
    w = ps.Worker(name="w")
    a = ps.FixedDurationTask(name="a", duration=2, priority=3)
    b = ps.FixedDurationTask(name="b", duration=2, priority=0, optional=True)
    c = ps.FixedDurationTask(name="c", duration=3, priority=5, optional=True)
    for t in (a, b, c):
        t.add_required_resource(w)
    p = ps.TaskPrecedence(task_before=c, task_after=a, offset=1, kind="strict")
    ps.OptionalTasksDependency(task_1=a, task_2=b)
    force(c)
    ps.ObjectiveMinimizeFlowtime(list_of_tasks=[a, c])
    ps.ObjectivePriorities()
    return pb, [("prec", p)]


def main():
    z3.set_param("smt.random_seed", 0)
    # TaskPrecedence: every kind, offset 0 / default / positive, optional combos
    for kind in ("lax", "strict", "tight"):
        for offset in (None, 0, 3):
            for ob, oa in ((False, False), (True, False), (False, True), (True, True)):
                describe(
                    f"precedence kind={kind} offset={offset} opt=({ob},{oa}) forced",
                    precedence(kind, offset, ob, oa, forced="all"),
                )
    describe(
        "precedence optional tasks left free",
        precedence("tight", 1, True, True, forced=None),
    )
    describe(
        "precedence unscheduled tasks", precedence("strict", 2, True, True, forced="none")
    )
    describe(
        "precedence infeasible when forced",
        precedence("lax", 0, True, False, forced="clash"),
    )
    describe(
        "precedence mandatory infeasible",
        precedence("lax", 0, False, False, forced="clash"),
    )
    describe(
        "precedence as optional constraint",
        precedence("strict", 2, True, False, forced="all", optional_cstr=True),
    )
    describe(
        "precedence optional constraint, mandatory tasks",
        precedence("tight", 0, False, False, optional_cstr=True),
    )
    describe("precedence negative offset", precedence("lax", -1, True, True))
    describe("precedence wrong kind", precedence("loose", 1, True, True))
    describe("precedence between groups (optional group)", precedence_groups)
    describe("precedence between groups", precedence_groups_ok)
    describe("precedence optional task -> group", lambda: precedence_groups_ok(True))
    describe("precedence inside logic operators", precedence_logic)

    # ObjectiveMinimizeFlowtime
    describe("flowtime all tasks (no arg)", flowtime("none"))
    describe("flowtime list_of_tasks=None", flowtime("explicit_none"))
    describe("flowtime empty list", flowtime("empty"))
    describe("flowtime subset mixed", flowtime([0, 1]))
    describe("flowtime subset optional only", flowtime([1, 2]))
    describe("flowtime subset mandatory only", flowtime([0, 3]))
    describe("flowtime every task optional", flowtime("none", all_optional=True))
    describe("flowtime no optional task", flowtime("none", none_optional=True))
    describe(
        "flowtime with optimize solver", flowtime([1, 3, 2]), optimizer="optimize"
    )

    # ObjectivePriorities
    describe("priorities mixed", priorities([1, 5, 0, 3], [False, True, True, False]))
    describe("priorities all optional", priorities([2, 2, 1], [True, True, True]))
    describe("priorities none optional but v", priorities([4, 0], [False, False]))
    describe(
        "priorities + optional precedence",
        priorities([1, 7, 2], [True, False, True], with_precedence=True),
    )
    describe(
        "priorities optimize solver",
        priorities([3, 1], [True, True], with_precedence=True),
        optimizer="optimize",
    )
    describe("flowtime + priorities + precedence", both_objectives)


if __name__ == "__main__":
    main()
