"""Equivalence script for the C12 twin: prints a canonical description of the
outcome of several small 'find another solution' scenarios."""
import contextlib
import io
import os
import re
import sys

sys.path.insert(0, os.getcwd())

# the library draws random name parts from uuid.uuid4 (constraint names, labels of
# tracked assertions). Make them reproducible, so that two runs are comparable
# (the order of a z3 unsat core depends on the labels). Must be done before the
# library is imported (base.py does `from uuid import uuid4`).
import random  # noqa: E402
import uuid  # noqa: E402

_rng = random.Random(12345)
uuid.uuid4 = lambda: uuid.UUID(int=_rng.getrandbits(128), version=4)

import processscheduler as ps  # noqa: E402

assert ps.__file__.startswith(os.getcwd()), ps.__file__

MASK = re.compile(r"asst_[0-9a-f]{8}")


def mask(text):
    return text  # nothing to mask: uuid4 is seeded above


def describe(solution):
    if not solution:
        return repr(solution)
    tasks = sorted(
        (n, t.start, t.end, t.duration, t.scheduled, type(t.scheduled).__name__, tuple(t.assigned_resources))
        for n, t in solution.tasks.items()
    )
    res = sorted((n, tuple(sorted(r.assignments))) for n, r in solution.resources.items())
    return repr((solution.horizon, tasks, res, sorted(solution.indicators.items())))


def assertions(solver):
    return sorted(mask(str(a)) for a in solver._solver.assertions())


def quiet(fn, *args, **kwargs):
    """run fn, return (result or exception description, captured stdout)"""
    buf = io.StringIO()
    with contextlib.redirect_stdout(buf):
        try:
            result = fn(*args, **kwargs)
        except Exception as exc:  # noqa: BLE001
            result = f"RAISED {type(exc).__name__}: {exc}"
    return result, buf.getvalue()


def conflict_section(out):
    """the deterministic part of the debug output: the conflict report"""
    lines = out.splitlines()
    keep = []
    on = False
    for line in lines:
        if "Unsatisfied constraints" in line:
            on = True
        if on:
            keep.append(mask(line))
    return keep


def enumerate_all(title, solver, variable=None, limit=200):
    print(f"=== {title}")
    sol, out = quiet(solver.solve)
    seq = []
    n = 0
    while sol and not isinstance(sol, str) and n < limit:
        seq.append(describe(sol))
        n += 1
        if variable is None:
            sol, out = quiet(solver.find_another_solution)
        else:
            sol, out = quiet(solver.find_another_solution_for_variable, variable)
    print("number of solutions:", n)
    print("all distinct:", len(set(seq)) == len(seq))
    for s in seq:
        print("  ", s)
    print("last:", sol if isinstance(sol, str) else describe(sol))
    print("last conflict report:", conflict_section(out))
    print("tracked origins:", sorted(solver._map_boolrefs_to_constraints.values()))
    print("return of append_z3_assertion:", solver.append_z3_assertion(solver.problem._horizon >= 0))
    print("assertions:")
    for a in assertions(solver):
        print("   ", a)


def scenario_1(debug):
    pb = ps.SchedulingProblem(name=f"S1_{debug}", horizon=4)
    ps.FixedDurationTask(name="T1", duration=2)
    ps.FixedDurationTask(name="T2", duration=3)
    enumerate_all(f"1 two mandatory tasks, horizon 4, debug={debug}", ps.SchedulingSolver(problem=pb, debug=debug))


def scenario_2(debug):
    pb = ps.SchedulingProblem(name=f"S2_{debug}", horizon=3)
    ps.FixedDurationTask(name="M", duration=2)
    ps.FixedDurationTask(name="O", duration=1, optional=True)
    enumerate_all(f"2 mandatory + optional, horizon 3, debug={debug}", ps.SchedulingSolver(problem=pb, debug=debug))


def scenario_3(debug):
    pb = ps.SchedulingProblem(name=f"S3_{debug}", horizon=5)
    t = ps.VariableDurationTask(name="V", min_duration=1, max_duration=2)
    ps.ZeroDurationTask(name="Z")
    enumerate_all(
        f"3 another value for V.start, debug={debug}",
        ps.SchedulingSolver(problem=pb, debug=debug),
        variable=t._start,
    )


def scenario_4(debug):
    pb = ps.SchedulingProblem(name=f"S4_{debug}", horizon=5)
    t1 = ps.FixedDurationTask(name="A", duration=2)
    t2 = ps.FixedDurationTask(name="B", duration=2, optional=True)
    w = ps.Worker(name="W")
    t1.add_required_resource(w)
    t2.add_required_resource(w)
    ps.TaskPrecedence(task_before=t1, task_after=t2)
    ps.TaskStartAfter(task=t1, value=0)
    enumerate_all(f"4 worker, precedence, optional, debug={debug}", ps.SchedulingSolver(problem=pb, debug=debug))


def scenario_5(debug):
    pb = ps.SchedulingProblem(name=f"S5_{debug}", horizon=6)
    t1 = ps.FixedDurationTask(name="A", duration=2)
    ps.TaskStartAt(task=t1, value=0, name="StartAt0")
    ps.TaskStartAt(task=t1, value=1, name="StartAt1")
    enumerate_all(f"5 unsatisfiable from the start, debug={debug}", ps.SchedulingSolver(problem=pb, debug=debug))


def scenario_6(debug):
    pb = ps.SchedulingProblem(name=f"S6_{debug}", horizon=1)
    ps.FixedDurationTask(name="F0", duration=1)
    ps.ZeroDurationTask(name="Z1", optional=True)
    print("horizon 0 ->", quiet(ps.SchedulingProblem, name="S6_zero", horizon=0)[0].__class__.__name__)
    enumerate_all(f"6 horizon 1, single slot + optional zero duration task, debug={debug}", ps.SchedulingSolver(problem=pb, debug=debug))


def scenario_7(debug):
    print(f"=== 7 no solve before, debug={debug}")
    pb = ps.SchedulingProblem(name=f"S7_{debug}", horizon=6)
    t = ps.FixedDurationTask(name="T", duration=2)
    solver = ps.SchedulingSolver(problem=pb, debug=debug)
    print(quiet(solver.find_another_solution)[0])
    print(quiet(solver.find_another_solution_for_variable, t._start)[0])


def scenario_8(debug, optimizer):
    pb = ps.SchedulingProblem(name=f"S8_{debug}_{optimizer}", horizon=4)
    t1 = ps.FixedDurationTask(name="A", duration=1)
    t2 = ps.FixedDurationTask(name="B", duration=2)
    w = ps.Worker(name="W")
    t1.add_required_resource(w)
    t2.add_required_resource(w)
    ps.ObjectiveMinimizeMakespan()
    enumerate_all(
        f"8 makespan objective, optimizer={optimizer}, debug={debug}",
        ps.SchedulingSolver(problem=pb, debug=debug, optimizer=optimizer),
    )


def scenario_9(debug):
    pb = ps.SchedulingProblem(name=f"S9_{debug}", horizon=3)
    t1 = ps.FixedDurationTask(name="A", duration=1)
    t2 = ps.FixedDurationTask(name="B", duration=1)
    c = ps.TaskStartAt(task=t2, value=2, name="OptStartAt", optional=True)
    ps.ForceApplyNOptionalConstraints(list_of_optional_constraints=[c], nb_constraints_to_apply=1, name="ForceIt")
    ps.TasksDontOverlap(task_1=t1, task_2=t2, name="NoOverlap")
    enumerate_all(f"9 optional constraint forced, debug={debug}", ps.SchedulingSolver(problem=pb, debug=debug))


def scenario_10(debug):
    pb = ps.SchedulingProblem(name=f"S10_{debug}", horizon=3)
    t1 = ps.FixedDurationTask(name="A", duration=1)
    ps.TaskStartAfter(task=t1, value=1, name="After1")
    print(f"=== 10 becomes unsatisfiable by a later user assertion, debug={debug}")
    solver = ps.SchedulingSolver(problem=pb, debug=debug)
    sol, _ = quiet(solver.solve)
    print(describe(sol))
    print("append list:", solver.append_z3_assertion([t1._start <= 1, t1._end <= 2], "After1"))
    print("append empty list:", solver.append_z3_assertion([]))
    sol, _ = quiet(solver.solve)
    print(describe(sol))
    sol, out = quiet(solver.find_another_solution)
    print(describe(sol) if not isinstance(sol, str) else sol)
    print("conflict report:", conflict_section(out))
    print("tracked origins:", sorted(solver._map_boolrefs_to_constraints.values()))
    for a in assertions(solver):
        print("   ", a)


if __name__ == "__main__":
    for dbg in (False, True):
        scenario_1(dbg)
        scenario_2(dbg)
        scenario_3(dbg)
        scenario_4(dbg)
        scenario_5(dbg)
        scenario_6(dbg)
        scenario_7(dbg)
        scenario_8(dbg, "incremental")
        scenario_8(dbg, "optimize")
        scenario_9(dbg)
        scenario_10(dbg)
