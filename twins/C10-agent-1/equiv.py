"""Equivalence check for the C10 refactoring (first order logic helpers and
ForceApplyNOptionalConstraints).

For each small problem prints a canonical description: the constraint objects'
own assertions and created_from_assertion flags, the sorted list of the solver
assertions, and the solution (task start/end, applied flags), or the error.
uuid based parts of names are masked by the creation rank of the constraint.
"""
import os
import re
import sys

sys.path.insert(0, os.getcwd())

import z3  # noqa: E402
import processscheduler as ps  # noqa: E402
import processscheduler.first_order_logic as fol  # noqa: E402

assert os.path.dirname(os.path.dirname(ps.__file__)) == os.getcwd(), ps.__file__


def masker(pb):
    mapping = {}
    for rank, cstr in enumerate(pb.constraints.values()):
        mapping[str(cstr._uid)] = f"U{rank}"

    def mask(text):
        for uid, token in mapping.items():
            text = text.replace(uid, token)
            text = text.replace(uid[:8], token + "s")
        text = re.sub(r"asst_[0-9a-f]{8}", "asst_X", text)
        return re.sub(r"\d{12,}", "UID", text)

    return mask


def describe(title, build, solve=True):
    print("=" * 70)
    print(title)
    try:
        pb = build()
    except Exception as exc:  # pylint: disable=broad-except
        print("  BUILD ERROR:", type(exc).__name__, re.sub(r"\d{12,}", "UID", str(exc)))
        return
    mask = masker(pb)
    for cstr in pb.constraints.values():
        print(
            "  constraint",
            mask(cstr.name),
            type(cstr).__name__,
            "optional=%s" % cstr.optional,
            "from_assertion=%s" % cstr._created_from_assertion,
        )
        for asst in cstr.get_z3_assertions():
            print("     |", mask(" ".join(str(asst).split())))
    if not solve:
        return
    try:
        solver = ps.SchedulingSolver(problem=pb)
        solver.initialize()
        lines = sorted(mask(" ".join(str(a).split())) for a in solver._solver.assertions())
        print("  solver assertions (%d):" % len(lines))
        for line in lines:
            print("     -", line)
        solution = solver.solve()
    except Exception as exc:  # pylint: disable=broad-except
        print("  SOLVE ERROR:", type(exc).__name__, mask(str(exc)))
        return
    if not solution:
        print("  solution: NONE")
        return
    for name in sorted(solution.tasks):
        tsk = solution.tasks[name]
        print("  task", name, tsk.start, tsk.end, "scheduled=%s" % tsk.scheduled)
    # applied flags are only reported when they are forced to a single value
    for cstr in pb.constraints.values():
        if cstr.optional:
            flag = cstr._applied
            forced = []
            for val in (True, False):
                solver._solver.push()
                solver._solver.add(flag == val)
                forced.append(solver._solver.check() == z3.sat)
                solver._solver.pop()
            print("  applied", mask(str(flag)), "can_be_true=%s can_be_false=%s" % tuple(forced))


# ---------------------------------------------------------------- problems
def p_not():
    pb = ps.SchedulingProblem(name="PNot", horizon=4)
    t1 = ps.FixedDurationTask(name="t1", duration=2)
    ps.Not(constraint=ps.TaskStartAt(task=t1, value=0))
    ps.Not(constraint=t1._start == 1)
    return pb


def p_or_mixed():
    pb = ps.SchedulingProblem(name="POr", horizon=8)
    t1 = ps.FixedDurationTask(name="t1", duration=2)
    t2 = ps.ZeroDurationTask(name="t2")
    ps.Or(
        list_of_constraints=[
            ps.TaskStartAt(task=t1, value=3),
            t1._start == 6,
            ps.TasksEndSynced(task_1=t1, task_2=t2),
        ]
    )
    ps.TaskStartAt(task=t2, value=0)
    return pb


def p_and_mixed():
    pb = ps.SchedulingProblem(name="PAnd", horizon=23)
    t1 = ps.FixedDurationTask(name="t1", duration=2)
    t2 = ps.FixedDurationTask(name="t2", duration=3)
    ps.And(
        list_of_constraints=[
            ps.TaskStartAfter(task=t1, value=3),
            t2._start >= 1,
            ps.TaskEndBefore(task=t1, value=5),
            ps.TaskPrecedence(task_before=t1, task_after=t2, offset=0),
        ]
    )
    ps.ObjectiveMinimizeMakespan()
    return pb


def p_and_empty():
    pb = ps.SchedulingProblem(name="PAndEmpty", horizon=5)
    ps.FixedDurationTask(name="t1", duration=1)
    ps.And(list_of_constraints=[])
    return pb


def p_xor():
    pb = ps.SchedulingProblem(name="PXor", horizon=3)
    t1 = ps.FixedDurationTask(name="t1", duration=2)
    t2 = ps.FixedDurationTask(name="t2", duration=2)
    ps.Xor(
        constraint_1=ps.TaskStartAt(task=t1, value=0),
        constraint_2=ps.TaskStartAt(task=t2, value=0),
    )
    return pb


def p_implies():
    pb = ps.SchedulingProblem(name="PImplies", horizon=10)
    t1 = ps.FixedDurationTask(name="t1", duration=2)
    t2 = ps.FixedDurationTask(name="t2", duration=2)
    ps.TaskStartAt(task=t1, value=1)
    ps.Implies(
        condition=t1._start == 1,
        list_of_constraints=[ps.TaskStartAt(task=t2, value=4), t2._end <= 7],
    )
    return pb


def p_implies_optional():
    pb = ps.SchedulingProblem(name="PImpliesOpt", horizon=10)
    t1 = ps.FixedDurationTask(name="t1", duration=2)
    t2 = ps.FixedDurationTask(name="t2", duration=2)
    ps.TaskStartAt(task=t1, value=1)
    ps.Implies(
        condition=t1._start == 1,
        list_of_constraints=[ps.TaskStartAt(task=t2, value=4, optional=True)],
        optional=True,
    )
    return pb


def p_ite():
    pb = ps.SchedulingProblem(name="PIte", horizon=12)
    t1 = ps.FixedDurationTask(name="t1", duration=2)
    t2 = ps.FixedDurationTask(name="t2", duration=2)
    ps.TaskStartAt(task=t1, value=2)
    ps.IfThenElse(
        condition=t1._start == 1,
        then_list_of_constraints=[ps.TaskStartAt(task=t2, value=3)],
        else_list_of_constraints=[
            ps.TaskStartAt(task=t2, value=6),
            t2._end == 8,
            ps.Not(constraint=ps.TaskEndAt(task=t2, value=9)),
        ],
    )
    return pb


def p_nested():
    pb = ps.SchedulingProblem(name="PNested", horizon=6)
    t1 = ps.FixedDurationTask(name="t1", duration=2)
    t2 = ps.FixedDurationTask(name="t2", duration=1)
    ps.Or(
        list_of_constraints=[
            ps.And(
                list_of_constraints=[
                    ps.TaskStartAt(task=t1, value=0),
                    ps.TaskStartAt(task=t2, value=5),
                ]
            ),
            ps.Not(constraint=ps.And(list_of_constraints=[t1._start <= 3, t2._start >= 0])),
        ]
    )
    return pb


def p_expression():
    pb = ps.SchedulingProblem(name="PExpr", horizon=9)
    t1 = ps.FixedDurationTask(name="t1", duration=2)
    t2 = ps.ZeroDurationTask(name="t2")
    ps.ConstraintFromExpression(expression=t1._start + t2._start == 7)
    ps.ConstraintFromExpression(expression=t2._start == 0, optional=True)
    ps.ConstraintFromExpression(expression=t1._start > t2._start)
    return pb


def make_force(kind, nb, optional_flags=(True, True, True), outer_optional=False):
    def build():
        pb = ps.SchedulingProblem(name="PForce", horizon=6)
        t1 = ps.FixedDurationTask(name="t1", duration=3)
        cstrs = [
            ps.TaskStartAt(task=t1, value=1, optional=optional_flags[0], name="c_start1"),
            ps.TaskStartAt(task=t1, value=2, optional=optional_flags[1], name="c_start2"),
            ps.TaskEndAt(task=t1, value=4, optional=optional_flags[2], name="c_end4"),
        ]
        kwargs = {"list_of_optional_constraints": cstrs, "optional": outer_optional}
        if kind is not None:
            kwargs["kind"] = kind
        if nb is not None:
            kwargs["nb_constraints_to_apply"] = nb
        ps.ForceApplyNOptionalConstraints(**kwargs)
        return pb

    return build


def p_force_empty():
    pb = ps.SchedulingProblem(name="PForceEmpty", horizon=6)
    ps.FixedDurationTask(name="t1", duration=3)
    ps.ForceApplyNOptionalConstraints(list_of_optional_constraints=[], kind="max")
    return pb


def p_force_fol_operands():
    pb = ps.SchedulingProblem(name="PForceFol", horizon=6)
    t1 = ps.FixedDurationTask(name="t1", duration=3)
    n1 = ps.Not(constraint=ps.TaskStartAt(task=t1, value=0), optional=True)
    o1 = ps.Or(list_of_constraints=[t1._start == 0, t1._start == 5], optional=True)
    ps.ForceApplyNOptionalConstraints(
        list_of_optional_constraints=[n1, o1], nb_constraints_to_apply=2, kind="min"
    )
    return pb


def direct_helpers():
    """Call the two helpers directly, including operands they skip or reject."""
    print("=" * 70)
    print("direct helper calls")
    pb = ps.SchedulingProblem(name="PDirect", horizon=6)
    t1 = ps.FixedDurationTask(name="t1", duration=3)
    c1 = ps.TaskStartAt(task=t1, value=1)
    c2 = ps.TasksContiguous(list_of_tasks=[t1, ps.FixedDurationTask(name="t2", duration=1)])
    expr = t1._start >= 0
    print("  get(expr) is expr:", fol._get_assertions(expr) is expr)
    res = fol._get_assertions(c1)
    print("  get(c1) is list:", res is c1._z3_assertions, c1._created_from_assertion, res)
    print("  flatten:", fol._constraints_to_list_of_assertions([expr, c1, c2, expr]))
    print("  flatten empty:", fol._constraints_to_list_of_assertions([]))
    print("  c2 flag:", c2._created_from_assertion)
    for bad in (True, None, 3, "x", [expr]):
        try:
            print("  get(%r):" % (bad,), fol._get_assertions(bad))
        except Exception as exc:  # pylint: disable=broad-except
            print("  get(%r) ERROR:" % (bad,), type(exc).__name__, exc)
        try:
            print("  flatten([%r]):" % (bad,), fol._constraints_to_list_of_assertions([bad]))
        except Exception as exc:  # pylint: disable=broad-except
            print("  flatten([%r]) ERROR:" % (bad,), type(exc).__name__, exc)

    class Weird:  # quacks like a constraint, returns neither a list nor a BoolRef
        def __init__(self, value):
            self.value = value
            self.flag = False

        def set_created_from_assertion(self):
            self.flag = True

        def get_z3_assertions(self):
            return self.value

    for val in ((expr,), None, expr, [expr, expr]):
        weird = Weird(val)
        print("  flatten weird %r:" % (val,), fol._constraints_to_list_of_assertions([weird]), weird.flag)
    del pb


def main():
    describe("01 not (constraint and expression)", p_not)
    describe("02 or with mixed operands, zero duration task", p_or_mixed)
    describe("03 and with mixed operands + objective", p_and_mixed)
    describe("04 and with empty list", p_and_empty)
    describe("05 xor", p_xor)
    describe("06 implies", p_implies)
    describe("07 optional implies with optional operand", p_implies_optional)
    describe("08 if then else with nested not", p_ite)
    describe("09 nested or/and/not", p_nested)
    describe("10 constraints from expressions", p_expression)
    describe("11 force exact default kind and nb", make_force(None, None))
    describe("12 force min 2", make_force("min", 2))
    describe("13 force max 1", make_force("max", 1))
    describe("14 force exact 3 (unsat)", make_force("exact", 3))
    describe("15 force exact 2", make_force("exact", 2))
    describe("16 force min 4 larger than the list", make_force("min", 4))
    describe("17 force nb 0 (rejected)", make_force("exact", 0))
    describe("18 force wrong kind (rejected)", make_force("atleast", 1))
    describe("19 force with first non optional", make_force("min", 1, (False, True, True)))
    describe("20 force with last two non optional", make_force("max", 1, (True, False, False)))
    describe("21 force itself optional", make_force("exact", 1, outer_optional=True))
    describe("22 force empty list max", p_force_empty)
    describe("23 force on optional logical constraints", p_force_fol_operands)
    direct_helpers()


if __name__ == "__main__":
    import contextlib
    import io

    buffer = io.StringIO()
    with contextlib.redirect_stdout(buffer):
        main()
    # the library prints timings, mask them
    sys.stdout.write(re.sub(r"\d+\.\d+s\b", "<time>s", buffer.getvalue()))
