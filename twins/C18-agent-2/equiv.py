"""Equivalence script for the C18 twin: exercises Task.__init__,
ForceScheduleNOptionalTasks.__init__ and ResourceUnavailable.__init__ on small problems
and prints a canonical description of the outcome of each (error raised, or the
assertions owned by each element in creation order, the sorted assertions of the
solver and the solution found).

Run with:  cd /tmp/t4_C18 && /venv/bin/python _twin/equiv.py
"""
import contextlib
import io
import os
import re
import sys

sys.path.insert(0, os.getcwd())

import processscheduler as ps
import processscheduler.base

assert os.path.dirname(os.path.abspath(ps.__file__)).startswith(os.getcwd())

_LONG_NUMBER = re.compile(r"\d{8,}")


def mask(text):
    """uuids are random: mask them"""
    return _LONG_NUMBER.sub("<UID>", str(text))


def describe_error(exc):
    if exc.__class__.__name__ == "ValidationError":
        items = sorted(
            (".".join(str(p) for p in err["loc"]), err["type"], mask(err["msg"]))
            for err in exc.errors()
        )
        return f"ValidationError {items}"
    return f"{exc.__class__.__name__}: {mask(exc)}"


def describe_problem(pb, solve=True):
    lines = []
    for name, task in pb.tasks.items():
        lines.append(
            f"  task {mask(name)} number={task._task_number} scheduled={mask(task._scheduled)} "
            f"release_due={[mask(a) for a in task._release_due_assertions]}"
        )
        for asst in task.get_z3_assertions():
            lines.append(f"    {mask(asst)}")
        lines.append(
            f"    required={[mask(r.name) for r in task._required_resources]}"
        )
    for name, cstr in pb.constraints.items():
        lines.append(
            f"  constraint {mask(name)} type={cstr.type} applied={mask(cstr._applied)}"
        )
        for asst in cstr.get_z3_assertions():
            lines.append(f"    {mask(asst)}")
    lines.append(f"  workers={[mask(n) for n in pb.workers]}")
    lines.append(f"  select_workers={[mask(n) for n in pb.select_workers]}")
    lines.append(f"  cumulative_workers={[mask(n) for n in pb.cumulative_workers]}")
    if solve:
        with contextlib.redirect_stdout(io.StringIO()):
            solver = ps.SchedulingSolver(problem=pb)
            solver.initialize()
            solver_assertions = sorted(mask(a) for a in solver._solver.assertions())
            solution = solver.solve()
        lines.append("  solver assertions (sorted):")
        lines.extend(f"    {a}" for a in solver_assertions)
        if solution:
            lines.append(
                "  solution: "
                + str(
                    sorted(
                        (mask(n), t.scheduled, t.start, t.end)
                        for n, t in solution.tasks.items()
                    )
                )
            )
        else:
            lines.append(f"  solution: {solution!r}")
    return lines


CASES = []


def case(func):
    CASES.append(func)
    return func


def attempt(label, thunk):
    """run thunk, print either the error or 'accepted'"""
    try:
        result = thunk()
    except Exception as exc:  # pylint: disable=broad-except
        print(f"  {label}: REJECTED {describe_error(exc)}")
        return None
    print(f"  {label}: accepted")
    return result


# ---------------------------------------------------------------- Task.__init__
@case
def tasks_before_any_problem():
    processscheduler.base.active_problem = None
    attempt("fixed no problem", lambda: ps.FixedDurationTask(name="t", duration=2))
    attempt("zero no problem", lambda: ps.ZeroDurationTask(name="z"))
    attempt("variable no problem", lambda: ps.VariableDurationTask(name="v"))
    # an ill-formed parameter AND no problem: which error comes first
    attempt("bad duration no problem", lambda: ps.FixedDurationTask(name="t", duration=0))
    attempt("worker no problem", lambda: ps.Worker(name="w"))
    return None


@case
def tasks_ill_formed_parameters():
    pb = ps.SchedulingProblem(name="IllFormed", horizon=20)
    attempt("duration 0", lambda: ps.FixedDurationTask(name="d0", duration=0))
    attempt("duration -3", lambda: ps.FixedDurationTask(name="dm3", duration=-3))
    attempt("duration 1", lambda: ps.FixedDurationTask(name="d1", duration=1))
    attempt("work -1", lambda: ps.FixedDurationTask(name="w1", duration=1, work_amount=-1))
    attempt("work 0", lambda: ps.FixedDurationTask(name="w0", duration=1, work_amount=0))
    attempt("prio -1", lambda: ps.FixedDurationTask(name="p1", duration=1, priority=-1))
    attempt("prio 0", lambda: ps.FixedDurationTask(name="p0", duration=1, priority=0))
    attempt("min_duration -1", lambda: ps.VariableDurationTask(name="m1", min_duration=-1))
    attempt("min_duration 0", lambda: ps.VariableDurationTask(name="m0", min_duration=0))
    attempt("max_duration 0", lambda: ps.VariableDurationTask(name="mx0", max_duration=0))
    attempt("optional 1", lambda: ps.FixedDurationTask(name="o1", duration=1, optional=1))
    attempt("extra field", lambda: ps.FixedDurationTask(name="e1", duration=1, foo=1))
    # the rejected ones must not have been registered, nor have consumed a task number
    return pb


@case
def tasks_duplicate_names():
    pb = ps.SchedulingProblem(name="Duplicates", horizon=20)
    attempt("first", lambda: ps.FixedDurationTask(name="same", duration=2))
    attempt("second fixed", lambda: ps.FixedDurationTask(name="same", duration=3))
    attempt("second zero", lambda: ps.ZeroDurationTask(name="same"))
    attempt("second variable", lambda: ps.VariableDurationTask(name="same", release_date=2))
    attempt("other", lambda: ps.VariableDurationTask(name="other", release_date=2))
    attempt("worker same name as task", lambda: ps.Worker(name="same"))
    attempt("worker duplicate", lambda: ps.Worker(name="same"))
    return pb


@case
def tasks_release_and_due_dates():
    pb = ps.SchedulingProblem(name="ReleaseDue", horizon=30)
    ps.FixedDurationTask(name="r0", duration=2, release_date=0)
    ps.FixedDurationTask(name="rneg", duration=2, release_date=-4)
    ps.FixedDurationTask(name="r3", duration=2, release_date=3)
    ps.FixedDurationTask(name="d9", duration=2, due_date=9)
    ps.FixedDurationTask(name="d0", duration=2, due_date=0, optional=True)
    ps.FixedDurationTask(name="d9lax", duration=2, due_date=9, due_date_is_deadline=False)
    ps.FixedDurationTask(name="r3d9", duration=2, release_date=3, due_date=9)
    ps.FixedDurationTask(
        name="r3d9lax", duration=2, release_date=3, due_date=9, due_date_is_deadline=False
    )
    ps.ZeroDurationTask(name="z_r5_d5", release_date=5, due_date=5)
    ps.VariableDurationTask(
        name="v_opt", release_date=1, due_date=12, optional=True, min_duration=0,
        max_duration=4, allowed_durations=[2, 3],
    )
    ps.VariableDurationTask(name="v_r0_dneg", release_date=0, due_date=-2, optional=True)
    return pb


# ------------------------------------------- ForceScheduleNOptionalTasks.__init__
@case
def force_schedule_n_optional_tasks_kinds():
    pb = ps.SchedulingProblem(name="ForceN", horizon=12)
    opt = [
        ps.FixedDurationTask(name=f"opt{i}", duration=i + 1, optional=True)
        for i in range(4)
    ]
    var_opt = ps.VariableDurationTask(name="vopt", optional=True, max_duration=3)
    attempt(
        "default",
        lambda: ps.ForceScheduleNOptionalTasks(name="f_def", list_of_optional_tasks=opt),
    )
    for kind, n in [("min", 2), ("max", 3), ("exact", 1), ("exact", 4), ("min", 7)]:
        attempt(
            f"{kind} {n}",
            lambda kind=kind, n=n: ps.ForceScheduleNOptionalTasks(
                name=f"f_{kind}_{n}",
                list_of_optional_tasks=opt[:3] + [var_opt],
                nb_tasks_to_schedule=n,
                kind=kind,
            ),
        )
    attempt(
        "optional constraint",
        lambda: ps.ForceScheduleNOptionalTasks(
            name="f_optional", list_of_optional_tasks=opt[1:], kind="max",
            nb_tasks_to_schedule=2, optional=True,
        ),
    )
    attempt(
        "single task",
        lambda: ps.ForceScheduleNOptionalTasks(
            name="f_single", list_of_optional_tasks=[opt[0]], kind="min"
        ),
    )
    attempt(
        "empty list",
        lambda: ps.ForceScheduleNOptionalTasks(
            name="f_empty", list_of_optional_tasks=[], kind="min"
        ),
    )
    return pb


@case
def force_schedule_n_optional_tasks_rejections():
    pb = ps.SchedulingProblem(name="ForceNRejected", horizon=12)
    opt1 = ps.FixedDurationTask(name="opt1", duration=1, optional=True)
    opt2 = ps.ZeroDurationTask(name="opt2", optional=True)
    mand = ps.FixedDurationTask(name="mand", duration=2)
    attempt(
        "mandatory last",
        lambda: ps.ForceScheduleNOptionalTasks(
            name="bad_last", list_of_optional_tasks=[opt1, opt2, mand]
        ),
    )
    attempt(
        "mandatory first",
        lambda: ps.ForceScheduleNOptionalTasks(
            name="bad_first", list_of_optional_tasks=[mand, opt1], kind="min"
        ),
    )
    attempt(
        "only mandatory",
        lambda: ps.ForceScheduleNOptionalTasks(
            name="bad_only", list_of_optional_tasks=[mand], kind="max"
        ),
    )
    attempt(
        "n 0",
        lambda: ps.ForceScheduleNOptionalTasks(
            name="bad_n0", list_of_optional_tasks=[opt1, opt2], nb_tasks_to_schedule=0
        ),
    )
    attempt(
        "wrong kind",
        lambda: ps.ForceScheduleNOptionalTasks(
            name="bad_kind", list_of_optional_tasks=[opt1, opt2], kind="atleast"
        ),
    )
    attempt(
        "mandatory and wrong kind",
        lambda: ps.ForceScheduleNOptionalTasks(
            name="bad_both", list_of_optional_tasks=[mand, opt2], kind="atleast"
        ),
    )
    attempt(
        "good",
        lambda: ps.ForceScheduleNOptionalTasks(
            name="good", list_of_optional_tasks=[opt1, opt2], kind="exact"
        ),
    )
    # a rejected constraint keeps its name: creating it again fails differently
    attempt(
        "name of a rejected one",
        lambda: ps.ForceScheduleNOptionalTasks(
            name="bad_last", list_of_optional_tasks=[opt1, opt2]
        ),
    )
    attempt(
        "other optional task rules on a mandatory task",
        lambda: ps.OptionalTaskForceSchedule(task=mand, to_be_scheduled=True, name="otfs"),
    )
    return pb


# --------------------------------------------------- ResourceUnavailable.__init__
@case
def resource_unavailable_worker():
    pb = ps.SchedulingProblem(name="Unavailable", horizon=14)
    t1 = ps.FixedDurationTask(name="t1", duration=3)
    t2 = ps.FixedDurationTask(name="t2", duration=2, optional=True)
    t3 = ps.VariableDurationTask(name="t3", min_duration=1, max_duration=2)
    w1 = ps.Worker(name="w1")
    w2 = ps.Worker(name="w2")
    idle = ps.Worker(name="idle")
    t1.add_required_resource(w1)
    t2.add_required_resource(w1)
    t3.add_required_resource(w1, dynamic=True)
    t3.add_required_resource(w2)
    attempt(
        "two intervals",
        lambda: ps.ResourceUnavailable(
            name="u_w1", resource=w1, list_of_time_intervals=[(1, 3), (6, 8)]
        ),
    )
    attempt(
        "one interval at 0",
        lambda: ps.ResourceUnavailable(
            name="u_w2", resource=w2, list_of_time_intervals=[(0, 0)]
        ),
    )
    attempt(
        "optional",
        lambda: ps.ResourceUnavailable(
            name="u_w2_opt", resource=w2, list_of_time_intervals=[(9, 11), (12, 14)],
            optional=True,
        ),
    )
    attempt(
        "not assigned",
        lambda: ps.ResourceUnavailable(
            name="u_idle", resource=idle, list_of_time_intervals=[(1, 3)]
        ),
    )
    attempt(
        "not assigned, no interval",
        lambda: ps.ResourceUnavailable(
            name="u_idle_0", resource=idle, list_of_time_intervals=[]
        ),
    )
    attempt(
        "assigned, no interval",
        lambda: ps.ResourceUnavailable(
            name="u_w1_0", resource=w1, list_of_time_intervals=[]
        ),
    )
    attempt(
        "same interval twice",
        lambda: ps.ResourceUnavailable(
            name="u_w2_twice", resource=w2, list_of_time_intervals=[(4, 5), (4, 5)]
        ),
    )
    attempt(
        "same interval twice, optional",
        lambda: ps.ResourceUnavailable(
            name="u_w2_twice_opt", resource=w2, list_of_time_intervals=[(4, 5), (4, 5)],
            optional=True,
        ),
    )
    attempt(
        "duplicate name",
        lambda: ps.ResourceUnavailable(
            name="u_w1", resource=w1, list_of_time_intervals=[(1, 3)]
        ),
    )
    attempt(
        "a task as resource",
        lambda: ps.ResourceUnavailable(
            name="u_task", resource=t1, list_of_time_intervals=[(1, 3)]
        ),
    )
    return pb


@case
def resource_unavailable_cumulative_and_select():
    pb = ps.SchedulingProblem(name="UnavailableCumulative", horizon=10)
    attempt("size 1", lambda: ps.CumulativeWorker(name="c1", size=1))
    attempt("size 0", lambda: ps.CumulativeWorker(name="c0", size=0))
    cumul = attempt("size 2", lambda: ps.CumulativeWorker(name="c2", size=2))
    idle_cumul = attempt("size 3", lambda: ps.CumulativeWorker(name="c3", size=3))
    ta = ps.FixedDurationTask(name="ta", duration=4)
    tb = ps.FixedDurationTask(name="tb", duration=4, optional=True)
    ta.add_required_resource(cumul)
    tb.add_required_resource(cumul)
    wa = ps.Worker(name="wa")
    wb = ps.Worker(name="wb")
    tc = ps.FixedDurationTask(name="tc", duration=2)
    attempt(
        "select 3 among 2",
        lambda: ps.SelectWorkers(list_of_workers=[wa, wb], nb_workers_to_select=3),
    )
    attempt(
        "select among 1",
        lambda: ps.SelectWorkers(list_of_workers=[wa], nb_workers_to_select=1),
    )
    sel = attempt(
        "select 1 among 2",
        lambda: ps.SelectWorkers(
            name="sel", list_of_workers=[wa, wb], nb_workers_to_select=1, kind="min"
        ),
    )
    tc.add_required_resource(sel)
    attempt(
        "cumulative",
        lambda: ps.ResourceUnavailable(
            name="u_c2", resource=cumul, list_of_time_intervals=[(1, 3), (5, 7)]
        ),
    )
    attempt(
        "idle cumulative",
        lambda: ps.ResourceUnavailable(
            name="u_c3", resource=idle_cumul, list_of_time_intervals=[(1, 3)]
        ),
    )
    attempt(
        "worker used through a selection",
        lambda: ps.ResourceUnavailable(
            name="u_wa", resource=wa, list_of_time_intervals=[(0, 2)], optional=True
        ),
    )
    attempt(
        "the selection itself",
        lambda: ps.ResourceUnavailable(
            name="u_sel", resource=sel, list_of_time_intervals=[(0, 2)]
        ),
    )
    return pb


def main():
    for func in CASES:
        print(f"=== {func.__name__}")
        try:
            pb = func()
        except Exception as exc:  # pylint: disable=broad-except
            print(f"  UNEXPECTED {describe_error(exc)}")
            continue
        if pb is not None:
            try:
                for line in describe_problem(pb):
                    print(line)
            except Exception as exc:  # pylint: disable=broad-except
                print(f"  DESCRIBE/SOLVE FAILED {describe_error(exc)}")


if __name__ == "__main__":
    main()
