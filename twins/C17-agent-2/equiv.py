"""Equivalence script for the C17 twin (build_solution / get_scheduled_tasks).

For a set of small problems it prints a canonical description of
  * the solution reported by the solver (tasks, resources, buffers, indicators),
  * what render_gantt_matplotlib actually draws in both views (bars, texts,
    row labels, buffer lines), or the error raised.
"""
import contextlib
import io
import os
import sys

sys.path.insert(0, os.getcwd())

import warnings
from datetime import datetime, timedelta

import matplotlib

matplotlib.use("Agg")
import matplotlib.pyplot as plt  # noqa: E402

import processscheduler as ps  # noqa: E402

assert os.path.dirname(ps.__file__).startswith(os.getcwd()), ps.__file__
warnings.simplefilter("ignore")


def r(x):
    return round(float(x), 6)


def describe_solution(sol):
    print("  horizon:", sol.horizon)
    for name, t in sol.tasks.items():
        print(
            "  task",
            name,
            t.type,
            (t.start, t.end, t.duration),
            "opt=%s sched=%s" % (t.optional, t.scheduled),
            "times=",
            (str(t.start_time), str(t.end_time), str(t.duration_time)),
            "rel/due=",
            (t.release_date, t.due_date, t.due_date_is_deadline),
            "wa/prio=",
            (t.work_amount, t.priority),
            "res=",
            t.assigned_resources,
        )
    # which sub-worker of a cumulative worker z3 picks depends on uuid-named
    # variables, so the order of the merged assignment list of a cumulative
    # worker is not stable from run to run (with or without the change):
    # it is sorted; plain workers are printed in the reported order.
    cumulative_names = {
        w.name.split("_CumulativeWorker_")[0]
        for w in sol.problem.workers.values()
        if "_CumulativeWorker_" in w.name
    }
    for name, res in sol.resources.items():
        assignments = res.assignments
        if name in cumulative_names:
            assignments = ("sorted", sorted(assignments))
        print("  resource", name, res.name, res.type, assignments)
    for name, b in sol.buffers.items():
        print("  buffer", name, b.name, b.level, b.level_change_times)
    print("  indicators", dict(sol.indicators))
    print("  scheduled tasks:", list(sol.get_scheduled_tasks().keys()))
    print(
        "  scheduled identity:",
        all(v is sol.tasks[k] for k, v in sol.get_scheduled_tasks().items()),
    )


def describe_chart(sol, mode, **kw):
    plt.close("all")
    try:
        ps.render_gantt_matplotlib(sol, render_mode=mode, show_plot=False, **kw)
    except Exception as exc:  # pylint: disable=broad-except
        print("  chart[%s] ERROR %s: %s" % (mode, type(exc).__name__, exc))
        plt.close("all")
        return
    fig = plt.gcf()
    for k, ax in enumerate(fig.axes):
        print("  chart[%s] axis %d title=%r" % (mode, k, ax.get_title()))
        print("    xlim", tuple(map(r, ax.get_xlim())), "ylim", tuple(map(r, ax.get_ylim())))
        print("    yticklabels", [t.get_text() for t in ax.get_yticklabels()])
        print("    xticklabels", [t.get_text() for t in ax.get_xticklabels()])
        bars = []
        for coll in ax.collections:
            for path in coll.get_paths():
                ext = path.get_extents()
                bars.append(
                    (
                        r(ext.x0),
                        r(ext.x1),
                        r(ext.y0),
                        r(ext.y1),
                        tuple(round(float(c), 4) for c in coll.get_facecolor()[0]),
                    )
                )
        # sorted: see the remark on cumulative workers above
        print("    bars", sorted(bars))
        print(
            "    texts",
            sorted(
                (r(t.get_position()[0]), r(t.get_position()[1]), t.get_text())
                for t in ax.texts
            ),
        )
        for line in ax.get_lines():
            xs = [None if x != x else r(x) for x in line.get_xdata()]
            ys = [None if y != y else r(y) for y in line.get_ydata()]
            print("    line", line.get_label(), xs, ys)
        leg = ax.get_legend()
        if leg is not None:
            print("    legend", [t.get_text() for t in leg.get_texts()])
    plt.close("all")


def run(label, build):
    print("=" * 70)
    print(label)
    try:
        solver = build()
        # the solver prints timings: keep them out of the canonical output
        with contextlib.redirect_stdout(io.StringIO()):
            sol = solver.solve()
    except Exception as exc:  # pylint: disable=broad-except
        print("  ERROR %s: %s" % (type(exc).__name__, exc))
        return
    if not sol:
        print("  no solution:", sol)
        try:
            ps.render_gantt_matplotlib(sol, show_plot=False)
        except Exception as exc:  # pylint: disable=broad-except
            print("  chart ERROR %s: %s" % (type(exc).__name__, exc))
        return
    describe_solution(sol)
    describe_chart(sol, "Resource")
    describe_chart(sol, "Task")
    describe_chart(sol, "Foo")


# 1. single task, single worker, fixed horizon
def p1():
    pb = ps.SchedulingProblem(name="P1", horizon=7)
    t = ps.FixedDurationTask(name="task", duration=7)
    w = ps.Worker(name="worker")
    t.add_required_resource(w)
    return ps.SchedulingSolver(problem=pb)


# 2. free horizon, zero-duration + variable duration + task without resource
def p2():
    pb = ps.SchedulingProblem(name="P2")
    t1 = ps.FixedDurationTask(name="T1", duration=3, priority=2, work_amount=0)
    t2 = ps.ZeroDurationTask(name="Z")
    t3 = ps.VariableDurationTask(name="V", min_duration=2, max_duration=4)
    ps.FixedDurationTask(name="Alone", duration=2)
    w1 = ps.Worker(name="W1")
    w2 = ps.Worker(name="W2")
    t1.add_required_resource(w1)
    t2.add_required_resource(w1)
    t3.add_required_resources([w1, w2])
    ps.TaskStartAt(task=t2, value=3)
    ps.TaskPrecedence(task_before=t1, task_after=t3)
    ps.ObjectiveMinimizeMakespan()
    return ps.SchedulingSolver(problem=pb)


# 3. optional tasks (one forced unscheduled, one forced scheduled), optional
#    resource selection
def p3():
    pb = ps.SchedulingProblem(name="P3", horizon=10)
    t1 = ps.FixedDurationTask(name="Opt1", duration=3, optional=True)
    t2 = ps.FixedDurationTask(name="Opt2", duration=2, optional=True)
    t3 = ps.FixedDurationTask(name="Mand", duration=4, release_date=1, due_date=9)
    w1 = ps.Worker(name="W1")
    w2 = ps.Worker(name="W2")
    w3 = ps.Worker(name="W3")
    t1.add_required_resource(w1)
    t2.add_required_resource(w2)
    t3.add_required_resource(
        ps.SelectWorkers(list_of_workers=[w1, w2, w3], nb_workers_to_select=2)
    )
    ps.ForceScheduleNOptionalTasks(list_of_optional_tasks=[t1, t2], nb_tasks_to_schedule=1)
    ps.OptionalTaskConditionSchedule(task=t2, condition=t3._start >= 0)
    return ps.SchedulingSolver(problem=pb)


# 4. cumulative worker shared by several tasks + plain worker, indicators
def p4():
    pb = ps.SchedulingProblem(name="P4", horizon=6)
    cw = ps.CumulativeWorker(name="Cumul", size=3)
    w = ps.Worker(name="Plain", cost=ps.ConstantFunction(value=2))
    tasks = [ps.FixedDurationTask(name=f"T{i}", duration=2 + (i % 2)) for i in range(4)]
    for t in tasks:
        t.add_required_resource(cw)
    tasks[0].add_required_resource(w)
    tasks[3].add_required_resource(w)
    ps.IndicatorResourceUtilization(resource=w)
    ps.IndicatorResourceCost(list_of_resources=[w])
    return ps.SchedulingSolver(problem=pb)


# 5. buffers (load and unload), real dates
def p5():
    pb = ps.SchedulingProblem(
        name="P5",
        horizon=8,
        delta_time=timedelta(minutes=15),
        start_time=datetime(2024, 1, 1, 8, 0),
    )
    t1 = ps.FixedDurationTask(name="task1", duration=3)
    t2 = ps.FixedDurationTask(name="task2", duration=2)
    t3 = ps.ZeroDurationTask(name="tick")
    w = ps.Worker(name="W")
    t1.add_required_resource(w)
    t2.add_required_resource(w)
    b1 = ps.NonConcurrentBuffer(name="Buffer1", initial_level=10)
    b2 = ps.NonConcurrentBuffer(name="Buffer2", initial_level=0)
    ps.TaskUnloadBuffer(task=t1, buffer=b1, quantity=3)
    ps.TaskLoadBuffer(task=t1, buffer=b2, quantity=2)
    ps.TaskUnloadBuffer(task=t2, buffer=b1, quantity=1)
    ps.TaskStartAt(task=t1, value=0)
    ps.TaskStartAt(task=t2, value=5)
    ps.TaskStartAt(task=t3, value=8)
    return ps.SchedulingSolver(problem=pb)


# 6. delta_time without start_time, no resource at all (falls back to Task view)
def p6():
    pb = ps.SchedulingProblem(name="P6", horizon=5, delta_time=timedelta(hours=1))
    t1 = ps.FixedDurationTask(name="A", duration=2)
    t2 = ps.FixedDurationTask(name="B", duration=0 + 1, optional=True)
    ps.TaskEndAt(task=t1, value=5)
    ps.OptionalTaskConditionSchedule(task=t2, condition=t1._start > 100)
    return ps.SchedulingSolver(problem=pb)


# 7. unsatisfiable problem -> rendering must raise "no solution"
def p7():
    pb = ps.SchedulingProblem(name="P7", horizon=2)
    t = ps.FixedDurationTask(name="TooLong", duration=3)
    t.add_required_resource(ps.Worker(name="W"))
    return ps.SchedulingSolver(problem=pb)


# 8. resource unavailable + worker that ends up with no assignment
#    (optional task not scheduled) + two cumulative workers
def p8():
    pb = ps.SchedulingProblem(name="P8", horizon=9)
    w1 = ps.Worker(name="Busy")
    w2 = ps.Worker(name="Idle")
    c1 = ps.CumulativeWorker(name="C1", size=2)
    c2 = ps.CumulativeWorker(name="C2", size=2)
    t1 = ps.FixedDurationTask(name="t1", duration=3)
    t2 = ps.FixedDurationTask(name="t2", duration=2, optional=True)
    t3 = ps.VariableDurationTask(name="t3", min_duration=0, max_duration=2)
    t1.add_required_resources([w1, c1, c2])
    t2.add_required_resource(w2)
    t3.add_required_resources([c1, w1])
    ps.ResourceUnavailable(resource=w1, list_of_time_intervals=[(0, 2), (6, 9)])
    ps.OptionalTaskConditionSchedule(task=t2, condition=t1._start > 100)
    ps.TaskStartAt(task=t3, value=5)
    ps.TaskEndAt(task=t3, value=5)
    return ps.SchedulingSolver(problem=pb)


# 9. invalid model: error raised while building
def p9():
    pb = ps.SchedulingProblem(name="P9", horizon=9)
    ps.VariableDurationTask(name="bad", max_duration=0)
    return ps.SchedulingSolver(problem=pb)


for lbl, fn in [
    ("P1 single task single worker", p1),
    ("P2 free horizon zero/variable duration", p2),
    ("P3 optional tasks and SelectWorkers", p3),
    ("P4 cumulative worker and indicators", p4),
    ("P5 buffers with dates", p5),
    ("P6 delta_time only, no resources", p6),
    ("P7 unsat", p7),
    ("P8 unavailable, idle worker, 2 cumulative", p8),
    ("P9 invalid model", p9),
]:
    run(lbl, fn)
