"""Equivalence script for the C14 twin (refactoring of SchedulingSolver.initialize).

Builds a series of small problems, initializes/solves them and prints a canonical
description of the outcome: ordered + sorted str() of the solver assertions
(uuid parts masked), the solution values, or the error raised.

Run:  cd /tmp/t3_C14 && /venv/bin/python _twin/equiv.py
"""
import contextlib
import hashlib
import io
import os
import re
import sys

sys.path.insert(0, os.getcwd())

import z3  # noqa: E402
import processscheduler as ps  # noqa: E402

assert os.path.realpath(ps.__file__).startswith(os.path.realpath(os.getcwd())), ps.__file__

_MASKS = [
    (re.compile(r"asst_[0-9a-f]{8}"), "asst_<H>"),
    (re.compile(r"(Overlap_\d+_\d+_)[0-9a-f]{8}"), r"\1<H>"),
    (re.compile(r"\d{12,}"), "<UID>"),
    (re.compile(r"(_)[0-9a-f]{32}\b"), r"\1<HEX>"),
    (re.compile(r"_\d{8}\b"), "_<U8>"),
]


def mask(text):
    for rx, repl in _MASKS:
        text = rx.sub(repl, text)
    return text


def canon_assertions(solver):
    ordered = [mask(" ".join(str(a).split())) for a in solver._solver.assertions()]
    digest = hashlib.sha1("\n".join(ordered).encode()).hexdigest()[:12]
    return ordered, digest


def describe_solution(solution):
    if not solution:
        return ["NO SOLUTION (%r)" % (solution,)]
    lines = ["horizon=%s" % solution.horizon]
    for name in sorted(solution.tasks):
        t = solution.tasks[name]
        lines.append(
            "task %s: scheduled=%s start=%s end=%s duration=%s resources=%s"
            % (mask(name), t.scheduled, t.start, t.end, t.duration,
               sorted(mask(r) for r in t.assigned_resources))
        )
    for name in sorted(solution.resources):
        r = solution.resources[name]
        lines.append("resource %s: %s" % (mask(name), sorted((mask(a), b, c) for a, b, c in r.assignments)))
    for name in sorted(solution.indicators):
        lines.append("indicator %s = %s" % (mask(name), solution.indicators[name]))
    return lines


def run(title, build, solve=True, **solver_kwargs):
    print("=" * 70)
    print("CASE", title)
    sink = io.StringIO()
    try:
        with contextlib.redirect_stdout(sink):
            problem = build()
            solver = ps.SchedulingSolver(problem=problem, **solver_kwargs)
            solver.initialize()
            ordered, digest = canon_assertions(solver)
            solution = solver.solve() if solve else None
    except Exception as exc:  # the error is part of the outcome
        print("ERROR %s: %s" % (type(exc).__name__, mask(str(exc))))
        return
    print("nb assertions:", len(ordered), " ordered digest:", digest)
    print("-- assertions in solver order")
    for a in ordered:
        print("   ", a)
    print("-- assertions sorted")
    for a in sorted(ordered):
        print("   ", a)
    if solve:
        print("-- solution")
        for line in describe_solution(solution):
            print("   ", line)


# ---------------------------------------------------------------- problems
def pb_basic(names=("T1", "T2", "T3"), wname="W", order=(0, 1, 2), pname="basic"):
    """three mandatory tasks on one worker (3 busy interval pairs), precedence,
    makespan objective"""
    def build():
        pb = ps.SchedulingProblem(name=pname, horizon=12)
        durations = {0: 2, 1: 3, 2: 1}
        tasks = {}
        for i in order:
            tasks[i] = ps.FixedDurationTask(name=names[i], duration=durations[i])
        w = ps.Worker(name=wname)
        for i in order:
            tasks[i].add_required_resource(w)
        ps.TaskPrecedence(task_before=tasks[0], task_after=tasks[1], name="prec_01")
        ps.TaskStartAt(task=tasks[2], value=0, name="start_2")
        ps.ObjectiveMinimizeMakespan()
        return pb
    return build


def pb_optional():
    """optional tasks, optional constraints, ForceApplyN, ForceScheduleN, 2 workers,
    one worker with a single task (0 pairs), one with none"""
    pb = ps.SchedulingProblem(name="optional", horizon=8)
    a = ps.FixedDurationTask(name="A", duration=3, optional=True)
    b = ps.FixedDurationTask(name="B", duration=2, optional=True)
    c = ps.VariableDurationTask(name="C", min_duration=0, max_duration=4)
    z = ps.ZeroDurationTask(name="Z")
    w1 = ps.Worker(name="W1")
    w2 = ps.Worker(name="W2")
    ps.Worker(name="Idle")
    a.add_required_resource(w1)
    b.add_required_resource(w1)
    c.add_required_resource(w1)
    c.add_required_resource(w2)
    c1 = ps.TaskStartAt(task=a, value=1, optional=True, name="c1")
    c2 = ps.TaskStartAt(task=a, value=2, optional=True, name="c2")
    c3 = ps.TaskEndAt(task=c, value=8, optional=True, name="c3")
    ps.ForceApplyNOptionalConstraints(
        list_of_optional_constraints=[c1, c2, c3], nb_constraints_to_apply=2, name="force2"
    )
    ps.ForceScheduleNOptionalTasks(
        list_of_optional_tasks=[a, b], nb_tasks_to_schedule=1, kind="min", name="sched1"
    )
    ps.TaskStartAt(task=z, value=0, name="z0")
    return pb


def pb_fol():
    """constraints created from assertions (Not / Or / Implies): nested constraints
    must be skipped by the solver, only the problem-level assertions remain"""
    pb = ps.SchedulingProblem(name="fol", horizon=6)
    t1 = ps.FixedDurationTask(name="t1", duration=2)
    t2 = ps.FixedDurationTask(name="t2", duration=2)
    w = ps.Worker(name="w")
    t1.add_required_resource(w)
    t2.add_required_resource(w)
    ps.Not(constraint=ps.TaskStartAt(task=t1, value=0, name="n0"), name="not0")
    ps.Not(constraint=ps.TaskStartAt(task=t1, value=1, name="n1"), name="not1")
    ps.Or(
        list_of_constraints=[
            ps.TaskStartAt(task=t2, value=0, name="o0"),
            ps.TaskStartAt(task=t2, value=4, name="o4"),
        ],
        name="or04",
    )
    ps.TaskEndBefore(task=t1, value=6, name="plain")
    return pb


def pb_work_indicators():
    """work amounts (0 and >0, optional and mandatory), productivities (0, 1, 2),
    indicators declared in a given order, indicator objective"""
    pb = ps.SchedulingProblem(name="work", horizon=20)
    t1 = ps.VariableDurationTask(name="t1", work_amount=6)
    t2 = ps.VariableDurationTask(name="t2", work_amount=4, optional=True)
    t3 = ps.VariableDurationTask(name="t3", work_amount=0, max_duration=3)
    t4 = ps.VariableDurationTask(name="t4", work_amount=5, max_duration=2)  # no resource
    fast = ps.Worker(name="fast", productivity=2, cost=ps.ConstantFunction(value=3))
    slow = ps.Worker(name="slow", productivity=1)
    lazy = ps.Worker(name="lazy", productivity=0)
    t1.add_required_resource(fast)
    t1.add_required_resource(lazy)
    t2.add_required_resource(slow)
    t2.add_required_resource(fast)
    t3.add_required_resource(slow)
    ps.ForceScheduleNOptionalTasks(list_of_optional_tasks=[t2], nb_tasks_to_schedule=1, name="f")
    ps.IndicatorResourceUtilization(resource=fast)
    ps.IndicatorResourceCost(list_of_resources=[fast])
    ind = ps.IndicatorFromMathExpression(name="sum_ends", expression=t1._end + t2._end + t3._end + t4._end)
    ps.IndicatorBounds(indicator=ind, lower_bound=0, upper_bound=60, name="bounds")
    ps.ObjectiveMinimizeIndicator(target=ind, weight=1) if hasattr(ps, "ObjectiveMinimizeIndicator") else ps.Objective(name="min_sum_ends", target=ind, kind="minimize")
    return pb


def pb_select_cumulative():
    """SelectWorkers and CumulativeWorker: many busy intervals per (sub)worker,
    some of them 'moved to the past' when not selected"""
    pb = ps.SchedulingProblem(name="select", horizon=10)
    t1 = ps.FixedDurationTask(name="t1", duration=2)
    t2 = ps.FixedDurationTask(name="t2", duration=2)
    t3 = ps.FixedDurationTask(name="t3", duration=3, optional=True)
    w1 = ps.Worker(name="w1")
    w2 = ps.Worker(name="w2")
    cw = ps.CumulativeWorker(name="cw", size=2)
    for i, t in enumerate((t1, t2, t3)):
        t.add_required_resource(
            ps.SelectWorkers(list_of_workers=[w1, w2], nb_workers_to_select=1, name="sel%d" % i)
        )
        t.add_required_resource(cw)
    ps.TasksStartSynced(task_1=t1, task_2=t2, name="sync")
    ps.ForceScheduleNOptionalTasks(list_of_optional_tasks=[t3], nb_tasks_to_schedule=1, name="f3")
    ps.ObjectiveMinimizeMakespan()
    return pb


def pb_infeasible():
    """three tasks of total length 6 on one worker with horizon 5"""
    pb = ps.SchedulingProblem(name="infeasible", horizon=5)
    w = ps.Worker(name="w")
    for i in range(3):
        t = ps.FixedDurationTask(name="t%d" % i, duration=2)
        t.add_required_resource(w)
    ps.TaskStartAt(task=t, value=0, name="last_at_0")
    return pb


def pb_no_horizon_empty():
    """edge: no horizon, a single zero duration task, no worker, no constraint"""
    pb = ps.SchedulingProblem(name="tiny")
    ps.ZeroDurationTask(name="only")
    return pb


def pb_duplicate_task_name():
    pb = ps.SchedulingProblem(name="dup")
    ps.FixedDurationTask(name="same", duration=1)
    ps.FixedDurationTask(name="same", duration=2)
    return pb


def pb_duplicate_assertion():
    """the same problem-level assertion twice: error raised at build time"""
    pb = ps.SchedulingProblem(name="dupasst", horizon=4)
    t = ps.FixedDurationTask(name="t", duration=1)
    pb.append_z3_assertion(t._start >= 1)
    pb.append_z3_assertion(t._start >= 1)
    return pb


def pb_after_others():
    """build (and solve) unrelated problems first, then the basic problem:
    the outcome must be the one of CASE basic"""
    with contextlib.redirect_stdout(io.StringIO()):
        ps.SchedulingSolver(problem=pb_optional()).solve()
        other = pb_infeasible()
        ps.SchedulingSolver(problem=other).solve()
    return pb_basic()()


def pb_auto_names():
    """unnamed constraints / workers get uuid based names (masked)"""
    pb = ps.SchedulingProblem(name="auto", horizon=7)
    t1 = ps.FixedDurationTask(name="t1", duration=2)
    t2 = ps.FixedDurationTask(name="t2", duration=3)
    w = ps.Worker(name="w")
    t1.add_required_resource(w)
    t2.add_required_resource(w)
    ps.TaskStartAt(task=t1, value=3)
    ps.TaskPrecedence(task_before=t2, task_after=t1, offset=0, optional=True)
    ps.ResourceUnavailable(resource=w, list_of_time_intervals=[(5, 6)])
    return pb


if __name__ == "__main__":
    run("basic", pb_basic())
    run("basic renamed", pb_basic(names=("alpha", "beta", "gamma"), wname="operator", pname="renamed"))
    run("basic permuted declaration", pb_basic(order=(2, 0, 1)))
    run("basic with z3 optimize", pb_basic(), optimizer="optimize")
    run("basic after other problems", pb_after_others)
    run("optional", pb_optional)
    run("first order logic", pb_fol)
    run("work amounts and indicators", pb_work_indicators)
    run("select and cumulative workers", pb_select_cumulative)
    run("infeasible", pb_infeasible)
    run("infeasible debug (unsat core)", pb_infeasible, debug=True)
    run("fol debug (tracked assertions)", pb_fol, debug=True)
    run("tiny without horizon", pb_no_horizon_empty)
    run("duplicate task name", pb_duplicate_task_name)
    run("duplicate assertion", pb_duplicate_assertion)
    run("auto names", pb_auto_names)
    run("logics QF_IDL init only", pb_basic(), solve=False, logics="QF_IDL")
