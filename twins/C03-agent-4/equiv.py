"""Equivalence script for the C03 twin: Constraint (constraint.py),
sort_no_duplicates (util.py), SchedulingSolver.append_z3_assertion (solver.py).

Prints, for several small problems, a canonical description of the outcome:
the assertions stored on each constraint, the sorted assertions held by the
solver, the map assertion -> constraint (debug mode), the solution, or the
error raised.  uuid parts of names are masked.
"""
import contextlib
import io
import os
import re
import sys

sys.path.insert(0, os.getcwd())

import z3  # noqa: E402
import processscheduler as ps  # noqa: E402
from processscheduler.util import sort_no_duplicates  # noqa: E402

assert os.path.dirname(ps.__file__).startswith(os.getcwd()), ps.__file__


def mask(text):
    text = re.sub(r"asst_[0-9a-f]{8}", "asst_<H>", text)
    text = re.sub(r"\d{8,}", "<U>", text)
    return " ".join(text.split())


def show_constraints(pb):
    for name, cstr in pb.constraints.items():
        print("  constraint", mask(name), "optional=%s" % cstr.optional,
              "applied=%s" % mask(str(cstr._applied)),
              "from_assertion=%s" % cstr._created_from_assertion)
        for asst in cstr.get_z3_assertions():
            print("     |", mask(str(asst)))


def run(title, build, debug=False, show_solver_assertions=True):
    print("=" * 70)
    print(title, "(debug=%s)" % debug)
    try:
        pb = build()
    except Exception as exc:  # construction error
        print("  ERROR at construction:", type(exc).__name__, mask(str(exc)))
        return
    show_constraints(pb)
    out = io.StringIO()
    # z3 writes its verbose statistics (debug mode) on the C level stderr
    sys.stderr.flush()
    saved_fd = os.dup(2)
    devnull = os.open(os.devnull, os.O_WRONLY)
    os.dup2(devnull, 2)
    try:
        with contextlib.redirect_stdout(out):
            solver = ps.SchedulingSolver(problem=pb, debug=debug, random_values=False)
            solution = solver.solve()
    except Exception as exc:
        print("  ERROR at solve:", type(exc).__name__, mask(str(exc)))
        return
    finally:
        os.dup2(saved_fd, 2)
        os.close(saved_fd)
        os.close(devnull)
    if show_solver_assertions:
        assts = sorted(mask(str(a)) for a in solver._solver.assertions())
        print("  solver assertions (%d):" % len(assts))
        for a in assts:
            print("     ", a)
    if debug:
        origins = sorted(
            (mask(k), mask(v)) for k, v in solver._map_boolrefs_to_constraints.items()
        )
        print("  tracked origins (%d):" % len(origins))
        for k, v in origins:
            print("     ", k, "->", v)
        log = out.getvalue().splitlines()
        for line in log:
            if "conflict between" in line:
                print("  log:", mask(line))
        # the constraints reported as conflicting (classes, sorted)
        for line in sorted(l for l in log if re.search(r"-> +[A-Z]\w+\($", l)):
            print("  log:", mask(line))
    if not solution:
        print("  RESULT: no solution", repr(solution))
        return
    print("  RESULT: horizon", solution.horizon)
    for tname in sorted(solution.tasks):
        t = solution.tasks[tname]
        print("     task", tname, t.start, t.end, t.scheduled)


# ---------------------------------------------------------------- problems
def p_start_end_at():
    pb = ps.SchedulingProblem(name="p_start_end_at", horizon=12)
    t1 = ps.FixedDurationTask(name="t1", duration=3)
    t2 = ps.FixedDurationTask(name="t2", duration=2)
    t3 = ps.VariableDurationTask(name="t3")
    ps.TaskStartAt(name="c_sa", task=t1, value=0)
    ps.TaskEndAt(name="c_ea", task=t2, value=12)
    ps.TaskStartAt(name="c_sa3", task=t3, value=4)
    ps.TaskEndAt(name="c_ea3", task=t3, value=9)
    ps.TaskPrecedence(name="c_prec", task_before=t1, task_after=t3, offset=1, kind="tight")
    return pb


def p_optional_constraints(nb):
    def build():
        pb = ps.SchedulingProblem(name="p_optional_constraints", horizon=6)
        t1 = ps.FixedDurationTask(name="t1", duration=3)
        c1 = ps.TaskStartAt(name="c1", task=t1, value=1, optional=True)
        c2 = ps.TaskStartAt(name="c2", task=t1, value=2, optional=True)
        c3 = ps.TaskEndAt(name="c3", task=t1, value=3, optional=True)
        ps.ForceApplyNOptionalConstraints(
            name="force", list_of_optional_constraints=[c1, c2, c3],
            nb_constraints_to_apply=nb, kind="exact",
        )
        return pb
    return build


def p_optional_constraints_unnamed():
    # default names, the uid appears in the name of the applied variable
    pb = ps.SchedulingProblem(name="p_optional_constraints_unnamed", horizon=8)
    t1 = ps.FixedDurationTask(name="t1", duration=3, optional=True)
    t2 = ps.FixedDurationTask(name="t2", duration=2)
    ps.TaskStartAt(task=t1, value=5, optional=True)
    c = ps.TasksDontOverlap(task_1=t1, task_2=t2, optional=True)
    ps.TaskEndBefore(task=t2, value=2, kind="lax")
    ps.ForceApplyNOptionalConstraints(
        list_of_optional_constraints=[c], nb_constraints_to_apply=1, kind="min"
    )
    ps.OptionalTaskForceSchedule(name="force_t1", task=t1, to_be_scheduled=True)
    return pb


def p_force_apply_not_optional():
    pb = ps.SchedulingProblem(name="p_force_apply_not_optional", horizon=6)
    t1 = ps.FixedDurationTask(name="t1", duration=3)
    c1 = ps.TaskStartAt(name="c1", task=t1, value=1, optional=True)
    c2 = ps.TaskStartAt(name="c2", task=t1, value=2)
    ps.ForceApplyNOptionalConstraints(
        name="force", list_of_optional_constraints=[c1, c2], nb_constraints_to_apply=1
    )
    return pb


def p_contiguous(n, optional_last=False):
    def build():
        pb = ps.SchedulingProblem(name="p_contiguous_%d" % n, horizon=4 * n + 1)
        tasks = []
        for i in range(n):
            opt = optional_last and i == n - 1
            tasks.append(ps.FixedDurationTask(name="t%d" % i, duration=i + 1, optional=opt))
        ps.TasksContiguous(name="contig", list_of_tasks=tasks)
        if tasks:
            ps.TaskStartAt(name="sa0", task=tasks[0], value=0)
        for i in range(len(tasks) - 1):
            ps.TaskPrecedence(name="prec%d" % i, task_before=tasks[i], task_after=tasks[i + 1])
        if optional_last:
            ps.OptionalTaskForceSchedule(name="no_last", task=tasks[-1], to_be_scheduled=False)
        return pb
    return build


def p_contiguous_optional_constraint():
    pb = ps.SchedulingProblem(name="p_contig_optc", horizon=10)
    a = ps.FixedDurationTask(name="a", duration=2)
    b = ps.FixedDurationTask(name="b", duration=3)
    c = ps.TasksContiguous(name="contig", list_of_tasks=[a, b], optional=True)
    ps.TaskStartAt(name="sa", task=a, value=0)
    ps.TaskStartAt(name="sb", task=b, value=5)
    return pb


def p_groups_and_intervals():
    pb = ps.SchedulingProblem(name="p_groups", horizon=20)
    a = ps.FixedDurationTask(name="a", duration=2)
    b = ps.FixedDurationTask(name="b", duration=2)
    c = ps.ZeroDurationTask(name="c")
    d = ps.FixedDurationTask(name="d", duration=1, optional=True)
    ps.OrderedTaskGroup(name="og", list_of_tasks=[a, b, c], kind="tight",
                        time_interval=(3, 9))
    ps.UnorderedTaskGroup(name="ug", list_of_tasks=[a, d], time_interval_length=4,
                          optional=True)
    ps.ScheduleNTasksInTimeIntervals(
        name="n_in", list_of_tasks=[a, b, d], nb_tasks_to_schedule=2,
        list_of_time_intervals=[(0, 5), (5, 8)], kind="min",
    )
    ps.TasksStartSynced(name="ss", task_1=d, task_2=b)
    ps.TaskStartAfter(name="saf", task=a, value=3, kind="strict")
    # pins the solution: a 5-7, b 7-9, c 9, d 7-8 (needed to reach 2 tasks in intervals)
    ps.TaskEndAt(name="c_end", task=c, value=9)
    return pb


def p_unsat():
    pb = ps.SchedulingProblem(name="p_unsat", horizon=10)
    a = ps.FixedDurationTask(name="a", duration=4)
    b = ps.FixedDurationTask(name="b", duration=4)
    ps.TaskStartAt(name="a_at_0", task=a, value=0)
    ps.TaskEndAt(name="b_at_3", task=b, value=4)
    ps.TasksDontOverlap(name="no_overlap", task_1=a, task_2=b)
    ps.TasksEndSynced(name="es_opt", task_1=a, task_2=b, optional=True)
    return pb


def p_duplicate_assertion():
    pb = ps.SchedulingProblem(name="p_dup", horizon=10)
    a = ps.FixedDurationTask(name="a", duration=4)
    c = ps.TaskStartAt(name="c", task=a, value=0)
    # the very same z3 expression object a second time
    c.set_z3_assertions(c.get_z3_assertions()[0])
    return pb


def p_from_expression_and_not():
    pb = ps.SchedulingProblem(name="p_expr", horizon=7)
    a = ps.FixedDurationTask(name="a", duration=2)
    b = ps.FixedDurationTask(name="b", duration=2)
    ps.ConstraintFromExpression(name="expr", expression=a._start + b._start == 5)
    ps.ConstraintFromExpression(name="expr_opt", expression=a._start == 6, optional=True)
    ps.Not(name="not_a0", constraint=ps.TaskStartAt(name="a0", task=a, value=0))
    ps.TaskPrecedence(name="prec", task_before=a, task_after=b, offset=0, kind="strict")
    ps.TaskEndAt(name="b_end", task=b, value=6)
    return pb


def sorter_direct():
    print("=" * 70)
    print("sort_no_duplicates called directly")
    for values in ([], [7], [3, -1], [5, 0, -2, 9], [2, 2, 1]):
        z3_vars = [z3.Int("v%d" % i) for i in range(len(values))]
        for source, label in ((values, "ints"), (z3_vars, "z3 vars")):
            try:
                sorted_vars, cstrs = sort_no_duplicates(list(source))
            except Exception as exc:
                print("  ", values, label, "ERROR", type(exc).__name__, exc)
                continue
            # fresh names depend on a process-wide counter: renumber relatively
            names = [str(v) for v in sorted_vars]
            text = " ;; ".join(str(c) for c in cstrs)
            for rank, nm in enumerate(names):
                text = re.sub(re.escape(nm) + r"\b", "S%d" % rank, text)
            print("  ", values, label, "n_sorted=%d n_cstr=%d" % (len(sorted_vars), len(cstrs)))
            print("      ", " ".join(text.split()))
            s = z3.Solver()
            s.add(cstrs)
            if label == "z3 vars":
                s.add([v == x for v, x in zip(z3_vars, values)])
            res = s.check()
            if res == z3.sat:
                m = s.model()
                print("       sat", [m[v].as_long() for v in sorted_vars])
            else:
                print("      ", res)


if __name__ == "__main__":
    sorter_direct()
    run("P1 start/end at, tight precedence", p_start_end_at)
    run("P1 start/end at, tight precedence", p_start_end_at, debug=True)
    run("P2 optional constraints, exactly one applied", p_optional_constraints(1))
    run("P2 optional constraints, exactly one applied", p_optional_constraints(1), debug=True)
    run("P2 optional constraints, exactly two applied", p_optional_constraints(2))
    run("P2 optional constraints, exactly two applied", p_optional_constraints(2), debug=True)
    run("P3 optional constraints with default names, optional task",
        p_optional_constraints_unnamed)
    run("P4 ForceApplyNOptionalConstraints on a mandatory constraint",
        p_force_apply_not_optional)
    run("P5 contiguous, 0 task", p_contiguous(0))
    run("P5 contiguous, 1 task", p_contiguous(1))
    run("P5 contiguous, 2 tasks", p_contiguous(2))
    run("P5 contiguous, 3 tasks", p_contiguous(3))
    run("P5 contiguous, 3 tasks", p_contiguous(3), debug=True)
    run("P5 contiguous, 3 tasks, last optional and not scheduled", p_contiguous(3, True))
    run("P6 optional contiguity that cannot hold", p_contiguous_optional_constraint)
    run("P7 groups, n tasks in intervals, synced starts", p_groups_and_intervals)
    run("P7 groups, n tasks in intervals, synced starts", p_groups_and_intervals, debug=True)
    run("P8 unsatisfiable", p_unsat)
    run("P8 unsatisfiable", p_unsat, debug=True)
    run("P9 same assertion added twice", p_duplicate_assertion)
    run("P10 expressions, not_, strict precedence", p_from_expression_and_not)
    run("P10 expressions, not_, strict precedence", p_from_expression_and_not, debug=True)
