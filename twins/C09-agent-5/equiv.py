"""Equivalence script for the C09 refactoring (SchedulingSolver.build_solution,
Task.set_assertions). Prints a canonical description of each scenario."""
import os
import sys
import re
import io
import contextlib
from datetime import datetime, timedelta

sys.path.insert(0, os.getcwd())

import processscheduler as ps

assert ps.__file__.startswith(os.getcwd()), ps.__file__

# random parts of names: uuid based integers (8 digits or the whole uuid int) and
# the tracking labels of the debug mode
UUID = re.compile(r"\d{8,}|asst_[0-9a-f]{8}")


def mask(text):
    """mask the random ids, and undo the line wrapping (it depends on name lengths)"""
    return re.sub(r"\s+", " ", UUID.sub("<ID>", text))


FRESH = re.compile(r"x!(\d+)")


def renumber(texts):
    """z3 numbers its fresh constants (x!N, made by the sorting helpers) with one
    counter for the whole process, that the solver also uses while it searches
    (quantifiers of the concurrent buffers): number them from 0 in each scenario"""
    numbers = [int(n) for t in texts for n in FRESH.findall(t)]
    if not numbers:
        return texts
    first = min(numbers)
    return [FRESH.sub(lambda m: f"x!{int(m.group(1)) - first}", t) for t in texts]


def describe_solution(solution):
    lines = []
    if not solution:
        return [f"solution: {solution!r}"]
    lines.append(f"horizon={solution.horizon}")
    for name in sorted(solution.tasks):
        t = solution.tasks[name]
        lines.append(
            "task %s type=%s start=%r end=%r duration=%r optional=%r scheduled=%r "
            "release=%r due=%r deadline=%r work=%r prio=%r start_time=%r end_time=%r "
            "duration_time=%r assigned=%r"
            % (
                t.name, t.type, t.start, t.end, t.duration, t.optional, t.scheduled,
                t.release_date, t.due_date, t.due_date_is_deadline, t.work_amount,
                t.priority, t.start_time, t.end_time, t.duration_time,
                t.assigned_resources,
            )
        )
    for name in sorted(solution.resources):
        r = solution.resources[name]
        lines.append(f"resource {r.name} type={r.type} assignments={r.assignments!r}")
    for name in sorted(solution.buffers):
        b = solution.buffers[name]
        lines.append(
            f"buffer {b.name} level={b.level!r} times={b.level_change_times!r}"
        )
    for name in sorted(solution.indicators):
        lines.append(f"indicator {name}={solution.indicators[name]!r}")
    return lines


def run(title, build, **solver_kw):
    print("=" * 70)
    print(title)
    try:
        sink = io.StringIO()
        with contextlib.redirect_stdout(sink):
            pb = build()
            # task level assertions, as created by Task.set_assertions
            task_lines = []
            for t in pb.tasks.values():
                for a in t.get_z3_assertions():
                    task_lines.append(f"{t.name}: {a}")
            solver = ps.SchedulingSolver(problem=pb, **solver_kw)
            solver.initialize()
            assertions = sorted(
                mask(a) for a in renumber([str(a) for a in solver._solver.assertions()])
            )
            solution = solver.solve()
        print("-- task assertions (creation order)")
        for l in task_lines:
            print(mask(l))
        print("-- solver assertions (sorted), count", len(assertions))
        for a in assertions:
            print(a)
        print("-- solution")
        for l in describe_solution(solution):
            print(mask(l))
        if solution:
            print("-- json length check", len(solution.to_json()) > 0)
    except Exception as exc:  # canonical description of the error
        print("ERROR", type(exc).__name__, mask(str(exc)))


def s1():
    pb = ps.SchedulingProblem(name="S1", horizon=10)
    t = ps.FixedDurationTask(name="task1", duration=3)
    b = ps.NonConcurrentBuffer(name="Buffer1", initial_level=10)
    ps.TaskStartAt(task=t, value=5)
    ps.TaskUnloadBuffer(task=t, buffer=b, quantity=3)
    return pb


def s2():
    pb = ps.SchedulingProblem(
        name="S2",
        horizon=12,
        delta_time=timedelta(minutes=15),
        start_time=datetime(2024, 2, 29, 8, 30),
    )
    t1 = ps.FixedDurationTask(name="load", duration=2, priority=3, work_amount=0)
    t2 = ps.FixedDurationTask(name="unload", duration=4, release_date=1, due_date=11)
    t3 = ps.VariableDurationTask(name="var", min_duration=1, max_duration=3)
    w = ps.Worker(name="W")
    t1.add_required_resource(w)
    t2.add_required_resource(w)
    b = ps.NonConcurrentBuffer(
        name="B", initial_level=5, final_level=4, lower_bound=0, upper_bound=8
    )
    ps.TaskStartAt(task=t1, value=0)
    ps.TaskStartAt(task=t2, value=6)
    ps.TaskStartAt(task=t3, value=3)
    ps.TaskEndAt(task=t3, value=5)
    ps.TaskLoadBuffer(task=t1, buffer=b, quantity=3)
    ps.TaskUnloadBuffer(task=t2, buffer=b, quantity=4)
    ps.IndicatorMaxBufferLevel(buffer=b)
    ps.IndicatorMinBufferLevel(buffer=b)
    return pb


def s3():
    pb = ps.SchedulingProblem(name="S3", horizon=10, delta_time=timedelta(hours=2))
    t1 = ps.FixedDurationTask(name="a", duration=2)
    t2 = ps.FixedDurationTask(name="b", duration=3)
    t3 = ps.ZeroDurationTask(name="z")
    b = ps.ConcurrentBuffer(name="CB", initial_level=0, upper_bound=20)
    ps.TaskEndAt(task=t1, value=4)
    ps.TaskEndAt(task=t2, value=4)
    ps.TaskStartAt(task=t3, value=7)
    ps.TaskLoadBuffer(task=t1, buffer=b, quantity=2)
    ps.TaskLoadBuffer(task=t2, buffer=b, quantity=5)
    ps.TaskUnloadBuffer(task=t3, buffer=b, quantity=0)
    return pb


def s4():
    """optional tasks, one forced out, with calendar times"""
    pb = ps.SchedulingProblem(
        name="S4",
        horizon=9,
        delta_time=timedelta(days=1),
        start_time=datetime(2025, 12, 30),
    )
    t1 = ps.FixedDurationTask(name="opt_fixed", duration=3, optional=True)
    t2 = ps.VariableDurationTask(name="opt_var", optional=True, min_duration=2)
    t3 = ps.ZeroDurationTask(name="opt_zero", optional=True)
    t4 = ps.FixedDurationTask(name="mand", duration=1)
    b = ps.NonConcurrentBuffer(name="NB", initial_level=10, lower_bound=0)
    ps.TaskUnloadBuffer(task=t1, buffer=b, quantity=1)
    ps.TaskUnloadBuffer(task=t2, buffer=b, quantity=2)
    ps.TaskLoadBuffer(task=t3, buffer=b, quantity=4)
    ps.TaskUnloadBuffer(task=t4, buffer=b, quantity=3)
    ps.TaskStartAt(task=t4, value=2)
    ps.TaskStartAt(task=t3, value=6)
    ps.ConstraintFromExpression(expression=t1._scheduled == False)
    ps.ConstraintFromExpression(expression=t2._scheduled == False)
    ps.ConstraintFromExpression(expression=t3._scheduled == True)
    return pb


def s5():
    """optional tasks all scheduled, variable horizon, objective"""
    pb = ps.SchedulingProblem(name="S5", delta_time=timedelta(seconds=30))
    t1 = ps.FixedDurationTask(name="f", duration=2, optional=True)
    t2 = ps.VariableDurationTask(
        name="v", optional=True, allowed_durations=[2, 4], release_date=1
    )
    w1 = ps.Worker(name="W1")
    w2 = ps.Worker(name="W2")
    t1.add_required_resource(ps.SelectWorkers(list_of_workers=[w1, w2], nb_workers_to_select=1))
    t2.add_required_resource(w1)
    b = ps.ConcurrentBuffer(name="CB5", initial_level=3, final_level=3)
    ps.TaskUnloadBuffer(task=t1, buffer=b, quantity=2)
    ps.TaskLoadBuffer(task=t2, buffer=b, quantity=2)
    ps.ForceScheduleNOptionalTasks(list_of_optional_tasks=[t1, t2], nb_tasks_to_schedule=2)
    ps.TaskStartAt(task=t1, value=0)
    ps.ObjectiveMinimizeMakespan()
    return pb


def s6():
    """bounds impossible to respect"""
    pb = ps.SchedulingProblem(name="S6", horizon=6)
    t = ps.FixedDurationTask(name="t", duration=2)
    b = ps.NonConcurrentBuffer(name="B6", initial_level=2, lower_bound=0)
    ps.TaskUnloadBuffer(task=t, buffer=b, quantity=3)
    return pb


def s7():
    """two accesses at the same instant: refused by the non concurrent buffer"""
    pb = ps.SchedulingProblem(name="S7", horizon=6)
    t1 = ps.FixedDurationTask(name="t1", duration=2)
    t2 = ps.FixedDurationTask(name="t2", duration=2)
    b = ps.NonConcurrentBuffer(name="B7", initial_level=0)
    ps.TaskLoadBuffer(task=t1, buffer=b, quantity=1)
    ps.TaskLoadBuffer(task=t2, buffer=b, quantity=1)
    ps.TaskStartAt(task=t1, value=1)
    ps.TaskStartAt(task=t2, value=1)
    return pb


def s7b():
    """same accesses, concurrent buffer: accepted"""
    pb = ps.SchedulingProblem(name="S7b", horizon=6)
    t1 = ps.FixedDurationTask(name="t1", duration=2)
    t2 = ps.FixedDurationTask(name="t2", duration=2)
    b = ps.ConcurrentBuffer(name="B7b", initial_level=0)
    ps.TaskLoadBuffer(task=t1, buffer=b, quantity=1)
    ps.TaskLoadBuffer(task=t2, buffer=b, quantity=1)
    ps.TaskStartAt(task=t1, value=1)
    ps.TaskStartAt(task=t2, value=1)
    return pb


def s8():
    """buffer without any level: error at creation"""
    pb = ps.SchedulingProblem(name="S8", horizon=6)
    ps.NonConcurrentBuffer(name="B8")
    return pb


def s9():
    """two optional tasks and an alternative worker: parked points all differ"""
    pb = ps.SchedulingProblem(name="S9", horizon=8, start_time=datetime(2024, 1, 1))
    t1 = ps.FixedDurationTask(name="o1", duration=2, optional=True, due_date=5, due_date_is_deadline=False)
    t2 = ps.FixedDurationTask(name="o2", duration=2, optional=True)
    w1 = ps.Worker(name="A")
    w2 = ps.Worker(name="B")
    t2.add_required_resource(ps.SelectWorkers(list_of_workers=[w1, w2]))
    b = ps.NonConcurrentBuffer(name="B9", initial_level=1, final_level=0, lower_bound=0, upper_bound=1)
    ps.TaskUnloadBuffer(task=t1, buffer=b, quantity=1)
    ps.TaskLoadBuffer(task=t2, buffer=b, quantity=0)
    ps.ConstraintFromExpression(expression=t1._scheduled == True)
    ps.ConstraintFromExpression(expression=t2._scheduled == False)
    ps.TaskStartAt(task=t1, value=1)
    return pb


run("S1 non concurrent unload, mandatory", s1)
run("S2 load/unload, bounds, final level, calendar with start_time", s2)
run("S3 concurrent loads at one instant, quantity 0, delta_time only", s3)
run("S4 optional tasks (fixed, variable, zero) partly unscheduled, calendar", s4)
run("S5 optional tasks scheduled, variable horizon, makespan", s5)
run("S6 lower bound cannot hold", s6)
run("S7 same instant on non concurrent buffer", s7)
run("S7b same instant on concurrent buffer", s7b)
run("S8 buffer with no level", s8)
run("S9 optional tasks, alternative worker, start_time without delta_time", s9)
run("S2 again in debug mode", s2, debug=True)
