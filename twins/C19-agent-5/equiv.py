"""Equivalence witness for the refactoring of
  solver.py : SchedulingSolver.append_z3_assertion, SchedulingSolver.initialize
  util.py   : sort_no_duplicates

Run from the worktree root:  /venv/bin/python _twin/equiv.py 2>/dev/null
Prints, for every case, a canonical description of the outcome. uuid4 is replaced
by a deterministic counter BEFORE the library is imported, so that the tracking
labels are the same from run to run (and so that the number and order of uuid4
calls is itself compared).
"""
import contextlib
import io
import os
import re
import sys
import uuid

sys.path.insert(0, os.getcwd())

_counter = [0]


def _fake_uuid4():
    _counter[0] += 1
    return uuid.UUID(int=(_counter[0] * 0x9E3779B97F4A7C15F39CC0605CEDC835) % (1 << 128))


uuid.uuid4 = _fake_uuid4

import z3  # noqa: E402
import processscheduler as ps  # noqa: E402
from processscheduler.util import sort_no_duplicates  # noqa: E402

assert ps.__file__.startswith(os.getcwd()), ps.__file__

TIME_RE = re.compile(r"\d+\.\d+s")


def describe_solution(solution):
    if not solution:
        return f"verdict={solution!r}"
    out = ["verdict=solution", f"horizon={solution.horizon}"]
    for name in sorted(solution.tasks):
        t = solution.tasks[name]
        out.append(
            f"task {name}: start={t.start} end={t.end} dur={t.duration} "
            f"scheduled={t.scheduled} res={sorted(t.assigned_resources)}"
        )
    for name in sorted(solution.resources):
        out.append(f"resource {name}: {sorted(solution.resources[name].assignments)}")
    for name in sorted(solution.buffers):
        b = solution.buffers[name]
        out.append(f"buffer {name}: {b.level} {b.level_change_times}")
    for name in sorted(solution.indicators):
        out.append(f"indicator {name}: {solution.indicators[name]}")
    return "\n".join(out)


def run_case(title, build, debug, **solver_kwargs):
    print("=" * 70)
    print(f"CASE {title} debug={debug} {solver_kwargs}")
    _counter[0] = 0
    try:
        problem = build()
        solver = ps.SchedulingSolver(problem=problem, debug=debug, **solver_kwargs)
        captured = io.StringIO()
        with contextlib.redirect_stdout(captured):
            solver.initialize()
            assertions_before = sorted(str(a) for a in solver._solver.assertions())
            solution = solver.solve()
        text = captured.getvalue()
    except Exception as exc:  # the error is part of the outcome
        print(f"ERROR {type(exc).__name__}: {exc}")
        return
    print(f"nb uuid4 calls: {_counter[0]}")
    print(f"nb assertions: {len(assertions_before)}")
    for a in assertions_before:
        print("  A", a)
    print("tracking map:")
    for k in sorted(solver._map_boolrefs_to_constraints):
        print("  M", k, "->", solver._map_boolrefs_to_constraints[k])
    print(describe_solution(solution))
    if solution is False:
        if debug:
            core = sorted(str(c) for c in solver._solver.unsat_core())
            print("unsat core labels:", core)
            named = sorted(
                {
                    solver._map_boolrefs_to_constraints[c]
                    for c in core
                    if c in solver._map_boolrefs_to_constraints
                }
            )
            print("core constraint names:", named)
            print("all named are problem constraints:", all(n in problem.constraints for n in named))
        # what the solver told the user about the conflict
        keep = False
        for line in text.splitlines():
            if "Unsatisfied constraints" in line or "No solution" in line:
                keep = True
            if keep:
                print("  OUT", TIME_RE.sub("<t>s", line))
    # the assertions after solve (incremental optimiser pops its scopes)
    after = sorted(str(a) for a in solver._solver.assertions())
    print("assertions unchanged by solve:", after == assertions_before)


# ---------------------------------------------------------------- problems
def pb_start_end_conflict():
    pb = ps.SchedulingProblem(name="StartEndConflict", horizon=10)
    t1 = ps.FixedDurationTask(name="t1", duration=4)
    t2 = ps.FixedDurationTask(name="t2", duration=0 + 3)
    ps.TaskStartAt(name="c_start_t1_5", task=t1, value=5)
    ps.TaskEndBefore(name="c_end_t1_7", task=t1, value=7)
    ps.TaskStartAt(name="c_start_t2_0", task=t2, value=0)  # innocent
    return pb


def pb_one_worker_three_tasks(horizon):
    def build():
        pb = ps.SchedulingProblem(name=f"OneWorker{horizon}", horizon=horizon)
        w = ps.Worker(name="w")
        tasks = [ps.FixedDurationTask(name=f"t{i}", duration=2) for i in range(3)]
        for t in tasks:
            t.add_required_resource(w)
        ps.TaskPrecedence(name="c_prec_01", task_before=tasks[0], task_after=tasks[1])
        ps.TaskStartAt(name="c_start_t2_0", task=tasks[2], value=0)
        return pb

    return build


def pb_optional_constraints(nb_to_apply):
    def build():
        pb = ps.SchedulingProblem(name=f"OptCstr{nb_to_apply}", horizon=6)
        t1 = ps.FixedDurationTask(name="t1", duration=2)
        c1 = ps.TaskStartAt(name="c_opt_start_1", task=t1, value=1, optional=True)
        c2 = ps.TaskStartAt(name="c_opt_start_3", task=t1, value=3, optional=True)
        ps.ForceApplyNOptionalConstraints(
            name="c_force",
            list_of_optional_constraints=[c1, c2],
            nb_constraints_to_apply=nb_to_apply,
            kind="exact",
        )
        return pb

    return build


def pb_first_order_logic():
    pb = ps.SchedulingProblem(name="Fol", horizon=4)
    t1 = ps.FixedDurationTask(name="t1", duration=2)
    t2 = ps.ZeroDurationTask(name="t2")
    ps.Not(name="c_not", constraint=ps.TaskStartAt(name="c_in_0", task=t1, value=0))
    ps.Not(name="c_not1", constraint=ps.TaskStartAt(name="c_in_1", task=t1, value=1))
    ps.Not(name="c_not2", constraint=ps.TaskStartAt(name="c_in_2", task=t1, value=2))
    ps.TaskStartAt(name="c_t2_at_0", task=t2, value=0)
    return pb


def pb_buffer(initial, lower):
    def build():
        pb = ps.SchedulingProblem(name=f"Buffer{initial}_{lower}", horizon=8)
        t1 = ps.FixedDurationTask(name="t1", duration=2)
        t2 = ps.FixedDurationTask(name="t2", duration=2)
        buf = ps.NonConcurrentBuffer(name="buf", initial_level=initial, lower_bound=lower)
        ps.TaskUnloadBuffer(name="c_unload", task=t1, buffer=buf, quantity=3)
        ps.TaskLoadBuffer(name="c_load", task=t2, buffer=buf, quantity=3)
        ps.TaskStartAt(name="c_t1_0", task=t1, value=0)
        return pb

    return build


def pb_non_delay_single_task():
    # one worker, a single task: sort_no_duplicates is called with one value
    pb = ps.SchedulingProblem(name="NonDelaySingle", horizon=5)
    w = ps.Worker(name="w")
    t = ps.FixedDurationTask(name="t", duration=2, optional=True)
    t.add_required_resource(w)
    ps.ResourceNonDelay(name="c_nondelay", resource=w)
    ps.TasksContiguous(name="c_contig", list_of_tasks=[t])
    ps.TaskStartAt(name="c_t_4", task=t, value=4)
    ps.ForceScheduleNOptionalTasks(name="c_force1", list_of_optional_tasks=[t], nb_tasks_to_schedule=1)
    return pb


def pb_select_workers_contiguous():
    pb = ps.SchedulingProblem(name="SelectContig", horizon=6)
    w1, w2 = ps.Worker(name="w1"), ps.Worker(name="w2", productivity=0)
    tasks = [ps.FixedDurationTask(name=f"t{i}", duration=2) for i in range(3)]
    for t in tasks:
        t.add_required_resource(ps.SelectWorkers(list_of_workers=[w1, w2], nb_workers_to_select=1))
    ps.TasksContiguous(name="c_contig", list_of_tasks=tasks)
    ps.ResourceNonDelay(name="c_nondelay_w1", resource=w1)
    ps.ResourceUnavailable(name="c_unavail", resource=w2, list_of_time_intervals=[(0, 6)])
    return pb


def pb_objective():
    pb = ps.SchedulingProblem(name="Obj")
    w = ps.Worker(name="w")
    t1 = ps.FixedDurationTask(name="t1", duration=2, work_amount=0)
    t2 = ps.VariableDurationTask(name="t2", work_amount=3)
    t1.add_required_resource(w)
    t2.add_required_resource(w)
    ps.TaskStartAfter(name="c_after", task=t1, value=1)
    ps.ObjectiveMinimizeMakespan()
    return pb


def pb_duplicate_constraint_name():
    pb = ps.SchedulingProblem(name="Dup", horizon=5)
    t1 = ps.FixedDurationTask(name="t1", duration=1)
    ps.TaskStartAt(name="same", task=t1, value=0)
    ps.TaskEndAt(name="same", task=t1, value=1)
    return pb


CASES = [
    ("start/end conflict", pb_start_end_conflict, {}),
    ("one worker three tasks, horizon 5 (infeasible)", pb_one_worker_three_tasks(5), {}),
    ("one worker three tasks, horizon 6 (feasible)", pb_one_worker_three_tasks(6), {}),
    ("optional constraints, apply exactly 2 (infeasible)", pb_optional_constraints(2), {}),
    ("optional constraints, apply exactly 1 (feasible)", pb_optional_constraints(1), {}),
    ("first order logic, all starts forbidden", pb_first_order_logic, {}),
    ("buffer initial 0 lower 0 (infeasible)", pb_buffer(0, 0), {}),
    ("buffer initial 3 lower 0 (feasible)", pb_buffer(3, 0), {}),
    ("non delay with a single optional task", pb_non_delay_single_task, {}),
    ("select workers, contiguous, unavailable second worker", pb_select_workers_contiguous, {}),
    ("makespan objective incremental", pb_objective, {}),
    ("makespan objective optimize", pb_objective, {"optimizer": "optimize"}),
    ("duplicate constraint name", pb_duplicate_constraint_name, {}),
]

for title, build, kwargs in CASES:
    for debug in (True, False):
        run_case(title, build, debug, **kwargs)

# ---------------------------------------------------------------- direct calls
print("=" * 70)
print("DIRECT sort_no_duplicates")
for n in (0, 1, 2, 3, 4):
    values = [z3.Int(f"v{i}") for i in range(n)]
    sorted_vars, constraints = sort_no_duplicates(values)
    mask = {str(v): f"s{i}" for i, v in enumerate(sorted_vars)}
    texts = []
    for c in constraints:
        s = str(c)
        for k in sorted(mask, key=len, reverse=True):
            s = s.replace(k, mask[k])
        texts.append(" ".join(s.split()))
    print(n, len(sorted_vars), [type(v).__name__ for v in sorted_vars], texts)
    # semantic check: for distinct concrete values the sorted vars are the sorted values
    if n:
        s = z3.Solver()
        s.add(constraints)
        concrete = [(7 * i + 3) % 11 for i in range(n)]
        s.add([v == c for v, c in zip(values, concrete)])
        verdict = s.check()
        model_values = [s.model()[v].as_long() for v in sorted_vars] if verdict == z3.sat else None
        print("   ", verdict, concrete, model_values)
        s.add(values[0] == values[-1]) if n > 1 else None
        print("    with a duplicate:", s.check() if n > 1 else "n/a")
# mixed python ints / z3 ints, as the constraints pass them
sorted_vars, constraints = sort_no_duplicates([z3.Int("a"), 0, -2])
print("mixed:", len(sorted_vars), len(constraints))

print("=" * 70)
print("DIRECT append_z3_assertion")
for debug in (True, False):
    _counter[0] = 0
    pb = ps.SchedulingProblem(name="Direct", horizon=3)
    t = ps.FixedDurationTask(name="t", duration=1)
    solver = ps.SchedulingSolver(problem=pb, debug=debug)
    with contextlib.redirect_stdout(io.StringIO()):
        solver.initialize()
    x = z3.Int("x")
    n0 = len(solver._solver.assertions())
    results = [
        solver.append_z3_assertion(x > 0),
        solver.append_z3_assertion([x < 5, x != 2]),
        solver.append_z3_assertion([], "ghost"),
        solver.append_z3_assertion(x != 3, "named_single"),
        solver.append_z3_assertion([x != 4, x != 1], "named_list"),
    ]
    print(debug, results, len(solver._solver.assertions()) - n0, _counter[0])
    print("   ", sorted(solver._map_boolrefs_to_constraints.items()))
    print("   ", sorted(str(a) for a in solver._solver.assertions())[-8:])
    try:
        solver.append_z3_assertion("not an assertion", "bad")
    except Exception as exc:
        print("    ERROR", type(exc).__name__, str(exc)[:60])
    print("   ", sorted(solver._map_boolrefs_to_constraints.items()))
