"""Equivalence script for the refactoring of processscheduler/resource.py
(CumulativeWorker.__init__, SelectWorkers.__init__, new helper
_expand_cumulative_workers).

For each small problem, prints a canonical description of:
  * the objects built by the refactored constructors,
  * the sorted list of the solver's assertions,
  * the solution (tasks / resources / buffers / indicators),
  * what the matplotlib Gantt chart draws in Resource and in Task view
    (bars, texts, tick labels, buffer step lines).
uuid parts of names are masked.
"""
import contextlib
import io
import os
import re
import sys

sys.path.insert(0, os.getcwd())

import matplotlib

matplotlib.use("Agg")
import matplotlib.pyplot as plt  # noqa: E402

import processscheduler as ps  # noqa: E402
import processscheduler.resource as psres  # noqa: E402

assert psres.__file__.startswith(os.getcwd()), psres.__file__


def mask(text):
    # uuid4().int is a long decimal number, generated names use its first 8 digits
    text = re.sub(r"\d{20,}", "<UID>", text)
    text = re.sub(r"(?<=_)[0-9]{8}(?![0-9])", "<UID8>", text)
    text = re.sub(r"[0-9a-f]{32}", "<HEX>", text)
    return text


def mask_expr(expr_text):
    # the z3 pretty printer wraps lines depending on the length of the names
    # (so on the number of digits of the uid): drop every white space
    return re.sub(r"\s+", "", mask(expr_text))


def rnd(v):
    return round(float(v), 6)


def describe_workers(pb):
    print("  workers registered (order):")
    for name, w in pb.workers.items():
        print(mask(f"    {name}: productivity={w.productivity} cost={w.cost!r}"))
    print("  cumulative workers:", list(pb.cumulative_workers))
    for name, cw in pb.cumulative_workers.items():
        print(f"    {name}._cumulative_workers =", [w.name for w in cw._cumulative_workers])
    print("  select workers (order):")
    for name, sw in pb.select_workers.items():
        print("    ", mask(name), "kind=", sw.kind, "nb=", sw.nb_workers_to_select)
        print("       list_of_workers  =", [w.name for w in sw.list_of_workers])
        print("       _list_of_workers =", [w.name for w in sw._list_of_workers])
        print(
            "       _selection_dict  =",
            [(w.name, mask(str(b))) for w, b in sw._selection_dict.items()],
        )
        print("       _selection_assertion =", mask_expr(str(sw._selection_assertion)))
        print("       sexpr =", mask_expr(sw._selection_assertion.sexpr()))
        print("       ser_model =", mask(str(sw.ser_model())))


def describe_chart(solution, render_mode):
    plt.close("all")
    try:
        ps.render_gantt_matplotlib(solution, show_plot=False, render_mode=render_mode)
    except Exception as exc:  # pylint: disable=broad-except
        print(f"  gantt[{render_mode}] raised {type(exc).__name__}: {exc}")
        return
    fig = plt.gcf()
    for k, ax in enumerate(fig.axes):
        print(f"  gantt[{render_mode}] axes {k}: title={ax.get_title()!r} ylabel={ax.get_ylabel()!r}")
        print("    xlim", tuple(rnd(v) for v in ax.get_xlim()), "ylim", tuple(rnd(v) for v in ax.get_ylim()))
        print("    yticklabels", [t.get_text() for t in ax.get_yticklabels()])
        bars = []
        for coll in ax.collections:
            for path in coll.get_paths():
                xs = [v[0] for v in path.vertices]
                ys = [v[1] for v in path.vertices]
                bars.append(
                    (
                        rnd(min(xs)),
                        rnd(max(xs)),
                        rnd(min(ys)),
                        rnd(max(ys)),
                        tuple(rnd(c) for c in coll.get_facecolor()[0]),
                    )
                )
        print("    bars (x0, x1, y0, y1, color):")
        for b in bars:
            print("      ", b)
        print("    texts:", [(rnd(t.get_position()[0]), rnd(t.get_position()[1]), t.get_text()) for t in ax.texts])
        for line in ax.get_lines():
            xd = [None if v != v else rnd(v) for v in line.get_xdata()]
            yd = [None if v != v else rnd(v) for v in line.get_ydata()]
            print("    line", repr(line.get_label()), xd, yd)
        legend = ax.get_legend()
        if legend is not None:
            print("    legend:", [t.get_text() for t in legend.get_texts()])
    plt.close("all")


def describe_solution(solution):
    if not solution:
        print("  solution:", solution)
        return
    print("  horizon:", solution.horizon)
    for name, t in solution.tasks.items():
        print(
            f"    task {name}: start={t.start} end={t.end} duration={t.duration} "
            f"scheduled={t.scheduled} optional={t.optional} assigned={t.assigned_resources}"
        )
    for name, r in solution.resources.items():
        print(f"    resource {name} ({r.type}): {r.assignments}")
    for name, b in solution.buffers.items():
        print(f"    buffer {name}: level={b.level} change_times={b.level_change_times}")
    print("    indicators:", solution.indicators)


def run(title, builder, **solver_kwargs):
    print("=" * 78)
    print(title)
    print("=" * 78)
    try:
        pb = builder()
    except Exception as exc:  # pylint: disable=broad-except
        print(f"  building raised {type(exc).__name__}: {mask(str(exc))}")
        return
    describe_workers(pb)
    try:
        solver = ps.SchedulingSolver(problem=pb, random_values=False, **solver_kwargs)
        solver.initialize()
        assertions = sorted(mask_expr(str(a)) for a in solver._solver.assertions())
        print(f"  {len(assertions)} assertions:")
        for a in assertions:
            print("     ", a.replace("\n", " "))
        with contextlib.redirect_stdout(io.StringIO()):
            solution = solver.solve()
    except Exception as exc:  # pylint: disable=broad-except
        print(f"  solver raised {type(exc).__name__}: {mask(str(exc))}")
        return
    describe_solution(solution)
    if solution:
        describe_chart(solution, "Resource")
        describe_chart(solution, "Task")


def expect_error(title, fn):
    print("-" * 78)
    print(mask(title))
    try:
        res = fn()
        print("  no error ->", mask(repr(res)))
    except Exception as exc:  # pylint: disable=broad-except
        msg = mask(str(exc))
        print(f"  {type(exc).__name__}: {msg}")


# ---------------------------------------------------------------------------
# problems
# ---------------------------------------------------------------------------
def pb_single_worker():
    pb = ps.SchedulingProblem(name="P1SingleWorker", horizon=8)
    w = ps.Worker(name="W1")
    t1 = ps.FixedDurationTask(name="T1", duration=3)
    t2 = ps.FixedDurationTask(name="T2", duration=2)
    t1.add_required_resource(w)
    t2.add_required_resource(w)
    ps.TaskStartAt(task=t1, value=0)
    ps.TaskStartAt(task=t2, value=4)
    return pb


def pb_cumulative_parallel():
    pb = ps.SchedulingProblem(name="P2Cumulative", horizon=4)
    cw = ps.CumulativeWorker(name="Machine", size=3)
    tasks = [ps.FixedDurationTask(name=f"T{i}", duration=i + 1) for i in range(3)]
    for i, t in enumerate(tasks):
        t.add_required_resource(cw)
        ps.TaskStartAt(task=t, value=i if i < 2 else 0)
    return pb


def pb_cumulative_productivity_cost():
    pb = ps.SchedulingProblem(name="P3CumulProdCost")
    cw = ps.CumulativeWorker(
        name="Crew", size=3, productivity=7, cost=ps.ConstantFunction(value=11)
    )
    w = ps.Worker(name="Solo", productivity=0, cost=ps.ConstantFunction(value=0))
    t1 = ps.VariableDurationTask(name="V1", work_amount=9)
    t2 = ps.VariableDurationTask(name="V2", work_amount=3, min_duration=0)
    z = ps.ZeroDurationTask(name="Z0")
    t1.add_required_resource(cw)
    t2.add_required_resource(cw)
    z.add_required_resource(w)
    ps.TaskStartAt(task=z, value=2)
    ps.TaskStartAt(task=t1, value=0)
    ps.IndicatorResourceCost(list_of_resources=[cw])
    ps.IndicatorResourceUtilization(resource=cw)
    ps.ObjectiveMinimizeMakespan()
    return pb


def pb_select_exact_optional():
    pb = ps.SchedulingProblem(name="P4SelectExact", horizon=6)
    ws = [ps.Worker(name=f"W{i}") for i in range(3)]
    t1 = ps.FixedDurationTask(name="T1", duration=2)
    t2 = ps.FixedDurationTask(name="T2", duration=3, optional=True)
    t3 = ps.FixedDurationTask(name="T3", duration=1, optional=True)
    sw1 = ps.SelectWorkers(list_of_workers=ws, nb_workers_to_select=1, kind="exact")
    sw2 = ps.SelectWorkers(name="Sel2", list_of_workers=ws[:2], nb_workers_to_select=2)
    t1.add_required_resource(sw1)
    t2.add_required_resource(sw2)
    t3.add_required_resource(ws[2])
    ps.ForceScheduleNOptionalTasks(list_of_optional_tasks=[t2, t3], nb_tasks_to_schedule=1)
    ps.TaskStartAt(task=t1, value=1)
    ps.ResourceUnavailable(resource=ws[0], list_of_time_intervals=[(0, 6)])
    ps.ResourceUnavailable(resource=ws[2], list_of_time_intervals=[(0, 5)])
    return pb


def pb_select_min_with_cumulative():
    pb = ps.SchedulingProblem(name="P5SelectMinCumul", horizon=5)
    w1 = ps.Worker(name="Alone")
    cw = ps.CumulativeWorker(name="Pool", size=2, productivity=3)
    w2 = ps.Worker(name="Other")
    sw = ps.SelectWorkers(
        name="SelMin", list_of_workers=[w1, cw, w2], nb_workers_to_select=2, kind="min"
    )
    sw_dup = ps.SelectWorkers(
        name="SelDup", list_of_workers=[w1, w2, w1], nb_workers_to_select=1, kind="exact"
    )
    t1 = ps.FixedDurationTask(name="T1", duration=2)
    t2 = ps.FixedDurationTask(name="T2", duration=2)
    t2.add_required_resource(cw)
    ps.TaskStartAt(task=t1, value=0)
    ps.TaskStartAt(task=t2, value=3)
    # sw / sw_dup are only built, not required (a CumulativeWorker inside a
    # SelectWorkers cannot be required by a task)
    del sw, sw_dup
    t1.add_required_resource(w1)
    return pb


def pb_select_max_zero_buffer():
    pb = ps.SchedulingProblem(name="P6SelectMaxBuffer", horizon=9)
    ws = [ps.Worker(name=f"M{i}") for i in range(2)]
    sw = ps.SelectWorkers(name="SelMax", list_of_workers=ws, nb_workers_to_select=1, kind="max")
    sw_b = ps.SelectWorkers(name="SelMin1", list_of_workers=ws, nb_workers_to_select=1, kind="min")
    z = ps.ZeroDurationTask(name="Milestone")
    t = ps.FixedDurationTask(name="Load", duration=3)
    u = ps.FixedDurationTask(name="Unload", duration=2)
    z.add_required_resource(sw)
    t.add_required_resource(sw_b)
    u.add_required_resource(ws[1])
    ps.TaskStartAt(task=z, value=4)
    ps.TaskStartAt(task=t, value=0)
    ps.TaskStartAt(task=u, value=5)
    buf = ps.NonConcurrentBuffer(name="Stock", initial_level=0)
    ps.TaskLoadBuffer(task=t, buffer=buf, quantity=4)
    ps.TaskUnloadBuffer(task=u, buffer=buf, quantity=1)
    ps.SameWorkers(select_workers_1=sw, select_workers_2=sw_b)
    return pb


def pb_select_cumulative_as_member():
    # a SelectWorkers whose list contains a CumulativeWorker, required by a task
    pb = ps.SchedulingProblem(name="P7SelectCumulMember", horizon=5)
    w1 = ps.Worker(name="A")
    cw = ps.CumulativeWorker(name="Pool", size=2)
    sw = ps.SelectWorkers(name="Sel", list_of_workers=[w1, cw], nb_workers_to_select=1)
    t1 = ps.FixedDurationTask(name="T1", duration=2)
    t1.add_required_resource(sw)
    return pb


def pb_cumulative_two_and_distinct():
    pb = ps.SchedulingProblem(name="P8TwoCumul", horizon=6)
    c1 = ps.CumulativeWorker(name="CA", size=2, productivity=5, cost=ps.ConstantFunction(value=3))
    c2 = ps.CumulativeWorker(name="CB", size=4, productivity=2, cost=ps.ConstantFunction(value=0))
    ts = [ps.FixedDurationTask(name=f"J{i}", duration=2, optional=(i == 3)) for i in range(4)]
    for i, t in enumerate(ts):
        t.add_required_resource(c1 if i % 2 == 0 else c2)
    ps.TaskStartAt(task=ts[0], value=0)
    ps.TaskStartAt(task=ts[2], value=1)
    ps.TaskStartAt(task=ts[1], value=2)
    ps.OptionalTaskForceSchedule(task=ts[3], to_be_scheduled=False) if hasattr(
        ps, "OptionalTaskForceSchedule"
    ) else None
    return pb


if __name__ == "__main__":
    run("1. single worker, two tasks", pb_single_worker)
    run("2. cumulative worker size 3, parallel tasks", pb_cumulative_parallel)
    run("3. cumulative productivity 7 / cost 11 over 3, zero duration, indicators", pb_cumulative_productivity_cost)
    run("4. select exact among 3, optional tasks", pb_select_exact_optional)
    run("5. select min with a cumulative member, duplicate members", pb_select_min_with_cumulative)
    run("6. select max / min, zero-duration task, buffer, SameWorkers", pb_select_max_zero_buffer)
    run("7. select with a cumulative member required by a task", pb_select_cumulative_as_member)
    run("8. two cumulative workers, optional task", pb_cumulative_two_and_distinct)

    print("#" * 78)
    print("direct calls / errors")
    for p, n in [(None, 3), (7, 3), (0, 2), (1, 2), (ps.ConstantFunction(value=10), 4), (True, 2), (5, 1)]:
        expect_error(f"_distribute_p_over_n({p!r}, {n})", lambda p=p, n=n: psres._distribute_p_over_n(p, n))
    expect_error(
        "_distribute_p_over_n(linear)",
        lambda: psres._distribute_p_over_n(ps.LinearFunction(slope=1, intercept=1), 2),
    )
    expect_error("_distribute_p_over_n('7', 2)", lambda: psres._distribute_p_over_n("7", 2))

    def no_problem_worker():
        import processscheduler.base as base

        base.active_problem = None
        return ps.Worker(name="Lonely")

    def with_pb(fn):
        def wrapped():
            ps.SchedulingProblem(name="ErrPb")
            return fn()

        return wrapped

    expect_error("Worker without problem", no_problem_worker)
    expect_error("CumulativeWorker size 1", with_pb(lambda: ps.CumulativeWorker(name="C", size=1)))
    expect_error("CumulativeWorker size 0", with_pb(lambda: ps.CumulativeWorker(name="C", size=0)))
    expect_error(
        "CumulativeWorker productivity 0",
        with_pb(lambda: ps.CumulativeWorker(name="C", size=2, productivity=0)),
    )
    expect_error(
        "CumulativeWorker linear cost",
        with_pb(lambda: ps.CumulativeWorker(name="C", size=2, cost=ps.LinearFunction(slope=1, intercept=0))),
    )
    expect_error(
        "CumulativeWorker cost None",
        with_pb(lambda: ps.CumulativeWorker(name="C", size=2, cost=None)),
    )

    def dup_cumul():
        ps.SchedulingProblem(name="ErrPb")
        ps.CumulativeWorker(name="C", size=2)
        return ps.CumulativeWorker(name="C", size=2)

    expect_error("CumulativeWorker duplicate name", dup_cumul)

    def clash_cumul():
        ps.SchedulingProblem(name="ErrPb")
        ps.Worker(name="C_CumulativeWorker_2")
        return ps.CumulativeWorker(name="C", size=3)

    expect_error("CumulativeWorker elementary name clash", clash_cumul)

    def sel(**kw):
        def fn():
            ps.SchedulingProblem(name="ErrPb")
            ws = [ps.Worker(name=f"W{i}") for i in range(3)]
            n = kw.pop("n_in_list", 3)
            s = ps.SelectWorkers(list_of_workers=ws[:n], **kw)
            return (s.kind, s.nb_workers_to_select, mask_expr(str(s._selection_assertion)))

        return fn

    expect_error("SelectWorkers nb > len", sel(nb_workers_to_select=4))
    expect_error("SelectWorkers nb == len", sel(nb_workers_to_select=3, kind="max"))
    expect_error("SelectWorkers nb 0", sel(nb_workers_to_select=0))
    expect_error("SelectWorkers one worker", sel(n_in_list=1))
    expect_error("SelectWorkers wrong kind", sel(kind="atleast"))
    expect_error("SelectWorkers defaults", sel())

    def dup_sel():
        ps.SchedulingProblem(name="ErrPb")
        ws = [ps.Worker(name=f"W{i}") for i in range(2)]
        ps.SelectWorkers(name="S", list_of_workers=ws)
        return ps.SelectWorkers(name="S", list_of_workers=ws)

    expect_error("SelectWorkers duplicate name", dup_sel)

    def get_sel():
        ps.SchedulingProblem(name="ErrPb")
        cw = ps.CumulativeWorker(name="C", size=3, productivity=4)
        s = cw.get_select_workers()
        return (
            s.kind,
            s.nb_workers_to_select,
            [w.name for w in s._list_of_workers],
            mask_expr(str(s._selection_assertion)),
        )

    expect_error("CumulativeWorker.get_select_workers", get_sel)
