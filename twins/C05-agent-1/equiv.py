"""Equivalence script for the refactoring of Task.add_required_resource and
Task.set_assertions (property C05: no valid schedule is lost).

Run with:  cd /tmp/t3_C05 && /venv/bin/python _twin/equiv.py
For each small problem it prints
  * the per-task z3 assertions IN ORDER (sexpr),
  * the sorted list of all the solver's assertions (sexpr),
  * the solution (start/end/duration/scheduled/assigned resources) or "NO SOLUTION",
  * or the error raised (type and message), plus the state left behind.
uuid parts of names are masked.
"""
import contextlib
import io
import os
import re
import sys

sys.path.insert(0, os.getcwd())

import z3  # noqa: E402
import processscheduler as ps  # noqa: E402
import processscheduler.task  # noqa: E402

assert os.path.dirname(os.path.dirname(ps.__file__)) == os.getcwd(), ps.__file__

_MASK = re.compile(r"\d{8,}")


def mask(text):
    return _MASK.sub("<UID>", text)


def sx(expr):
    return mask(" ".join(expr.sexpr().split()))


def show_task_assertions(pb):
    for task in pb.tasks.values():
        print(f"  task {task.name}: scheduled={mask(str(task._scheduled))}")
        for asst in task.get_z3_assertions():
            print("    ", sx(asst))
        print(
            "    required:", [mask(r.name) for r in task._required_resources]
        )
    for worker in pb.workers.values():
        print(
            f"  worker {mask(worker.name)} busy:",
            [
                (mask(t.name), mask(str(a)), mask(str(b)))
                for t, (a, b) in worker._busy_intervals.items()
            ],
        )


def solve_and_show(pb, **solver_args):
    solver = ps.SchedulingSolver(problem=pb, **solver_args)
    sink = io.StringIO()
    with contextlib.redirect_stdout(sink):
        solver.initialize()
    print("  solver assertions (sorted):")
    for line in sorted(sx(a) for a in solver._solver.assertions()):
        print("    ", line)
    with contextlib.redirect_stdout(sink):
        solution = solver.solve()
    if not solution:
        print("  NO SOLUTION", repr(solution))
        return
    for name in sorted(solution.tasks):
        t = solution.tasks[name]
        print(
            "  sol task",
            mask(name),
            t.start,
            t.end,
            t.duration,
            t.scheduled,
            sorted(mask(r) for r in t.assigned_resources),
        )
    for name in sorted(solution.resources):
        r = solution.resources[name]
        print("  sol res", mask(name), sorted((mask(a), b, c) for a, b, c in r.assignments))


def case(title):
    print("=" * 70)
    print(title)


def run(fn):
    case(fn.__name__ + ": " + (fn.__doc__ or "").strip())
    try:
        fn()
    except Exception as exc:  # print the error in a canonical way
        print("  ERROR", type(exc).__name__, mask(str(exc)))


# ----------------------------------------------------------------------------
def p01_mandatory_tasks_plain_worker():
    """mandatory tasks of each kind, release date 0 / >0, due date, one worker"""
    pb = ps.SchedulingProblem(name="p01", horizon=12)
    t1 = ps.FixedDurationTask(name="t1", duration=3, release_date=0, due_date=9)
    t2 = ps.VariableDurationTask(
        name="t2", min_duration=0, max_duration=4, release_date=2, work_amount=6
    )
    t3 = ps.ZeroDurationTask(name="t3", release_date=5, due_date=5)
    t4 = ps.FixedDurationTask(
        name="t4", duration=2, due_date=1, due_date_is_deadline=False
    )
    w = ps.Worker(name="w", productivity=2)
    for t in (t1, t2, t3, t4):
        t.add_required_resource(w)
    show_task_assertions(pb)
    solve_and_show(pb)


def p02_optional_tasks_all_kinds():
    """optional tasks of each kind, with release/due dates, some forced scheduled"""
    pb = ps.SchedulingProblem(name="p02", horizon=10)
    t1 = ps.FixedDurationTask(
        name="t1", duration=3, optional=True, release_date=2, due_date=8
    )
    t2 = ps.VariableDurationTask(
        name="t2",
        optional=True,
        min_duration=0,
        allowed_durations=[2, 5],
        max_duration=6,
        due_date=10,
    )
    t3 = ps.ZeroDurationTask(name="t3", optional=True, release_date=0)
    t4 = ps.VariableDurationTask(name="t4", optional=True)
    w = ps.Worker(name="w")
    t1.add_required_resource(w)
    t2.add_required_resource(w)
    t4.add_required_resource(w, dynamic=True)
    ps.ConstraintFromExpression(expression=t1._scheduled == True)  # noqa: E712
    ps.ConstraintFromExpression(expression=t2._scheduled == True)  # noqa: E712
    show_task_assertions(pb)
    solve_and_show(pb)


def p03_pinned_valid_schedule_is_accepted():
    """a hand-made valid schedule, pinned by start/end/selection constraints"""
    pb = ps.SchedulingProblem(name="p03", horizon=7)
    t1 = ps.FixedDurationTask(name="t1", duration=3, optional=True)
    t2 = ps.VariableDurationTask(name="t2", optional=True, min_duration=1)
    t3 = ps.FixedDurationTask(name="t3", duration=4)
    w1 = ps.Worker(name="w1")
    w2 = ps.Worker(name="w2")
    sel = ps.SelectWorkers(list_of_workers=[w1, w2], nb_workers_to_select=1)
    t1.add_required_resource(sel)
    t2.add_required_resource(w1)
    t3.add_required_resource(w2)
    # the pinned schedule: t3 on w2 in [0,4], t1 on w2 in [4,7], t2 on w1 in [0,7]
    ps.TaskStartAt(task=t3, value=0)
    ps.TaskStartAt(task=t1, value=4)
    ps.TaskEndAt(task=t1, value=7)
    ps.TaskStartAt(task=t2, value=0)
    ps.TaskEndAt(task=t2, value=7)
    ps.ConstraintFromExpression(expression=t1._scheduled == True)  # noqa: E712
    ps.ConstraintFromExpression(expression=t2._scheduled == True)  # noqa: E712
    ps.ConstraintFromExpression(expression=sel._selection_dict[w2] == True)  # noqa: E712
    show_task_assertions(pb)
    solve_and_show(pb)


def p04_delay_in_early_out_edge_values():
    """delay_in / early_out with 0, positive and negative values"""
    pb = ps.SchedulingProblem(name="p04", horizon=10)
    combos = [(0, 0), (1, 0), (0, 2), (1, 1), (-1, -3), (3, 3)]
    for i, (delay_in, early_out) in enumerate(combos):
        t = ps.FixedDurationTask(name=f"t{i}", duration=5, optional=(i % 2 == 1))
        w = ps.Worker(name=f"w{i}")
        t.add_required_resource(w, delay_in=delay_in, early_out=early_out)
        if t.optional:
            ps.ConstraintFromExpression(expression=t._scheduled == True)  # noqa: E712
    # delay_in + early_out > duration: busy interval would be negative, still accepted
    t = ps.FixedDurationTask(name="tneg", duration=2)
    w = ps.Worker(name="wneg")
    t.add_required_resource(w, delay_in=2, early_out=1)
    # z3 / bool valued offsets
    tb = ps.FixedDurationTask(name="tb", duration=2)
    wb = ps.Worker(name="wb")
    tb.add_required_resource(wb, delay_in=True, early_out=False)
    show_task_assertions(pb)
    solve_and_show(pb)


def p05_dynamic_resources():
    """dynamic workers (delay_in/early_out ignored), shared worker, tight horizon"""
    pb = ps.SchedulingProblem(name="p05", horizon=6)
    t1 = ps.FixedDurationTask(name="t1", duration=3)
    t2 = ps.FixedDurationTask(name="t2", duration=3, optional=True)
    t3 = ps.VariableDurationTask(name="t3", min_duration=2, work_amount=4)
    w1 = ps.Worker(name="w1", productivity=1)
    w2 = ps.Worker(name="w2", productivity=3)
    t1.add_required_resource(w1, dynamic=True)
    t2.add_required_resource(w1, dynamic=True, delay_in=2, early_out=2)
    t3.add_required_resources([w1, w2], dynamic=True)
    ps.ConstraintFromExpression(expression=t2._scheduled == True)  # noqa: E712
    show_task_assertions(pb)
    solve_and_show(pb)


def p06_select_and_cumulative_workers():
    """SelectWorkers of each kind, a CumulativeWorker, optional tasks"""
    pb = ps.SchedulingProblem(name="p06", horizon=6)
    ws = [ps.Worker(name=f"w{i}") for i in range(3)]
    cw = ps.CumulativeWorker(name="cw", size=2)
    t1 = ps.FixedDurationTask(name="t1", duration=3)
    t2 = ps.FixedDurationTask(name="t2", duration=3, optional=True)
    t3 = ps.VariableDurationTask(name="t3", optional=True, min_duration=1)
    t4 = ps.FixedDurationTask(name="t4", duration=2)
    t1.add_required_resource(
        ps.SelectWorkers(list_of_workers=ws, nb_workers_to_select=2, kind="exact")
    )
    t2.add_required_resource(
        ps.SelectWorkers(list_of_workers=ws[:2], nb_workers_to_select=1, kind="min")
    )
    t3.add_required_resource(
        ps.SelectWorkers(list_of_workers=ws[1:], nb_workers_to_select=1, kind="max")
    )
    t3.add_required_resource(cw)
    t4.add_required_resource(cw)
    t4.add_required_resource(ws[0], delay_in=1)
    ps.ConstraintFromExpression(expression=t2._scheduled == True)  # noqa: E712
    ps.ConstraintFromExpression(expression=t3._scheduled == True)  # noqa: E712
    show_task_assertions(pb)
    solve_and_show(pb)


def p07_truly_infeasible():
    """no valid schedule exists: the verdict must be 'no solution'"""
    pb = ps.SchedulingProblem(name="p07", horizon=5)
    t1 = ps.FixedDurationTask(name="t1", duration=3)
    t2 = ps.FixedDurationTask(name="t2", duration=3)
    w = ps.Worker(name="w")
    t1.add_required_resource(w)
    t2.add_required_resource(w)
    show_task_assertions(pb)
    solve_and_show(pb)


def p08_feasible_only_with_offsets_and_unscheduled_optional():
    """feasible only thanks to early_out and to dropping the optional task"""
    pb = ps.SchedulingProblem(name="p08", horizon=5)
    t1 = ps.FixedDurationTask(name="t1", duration=3)
    t2 = ps.FixedDurationTask(name="t2", duration=3)
    t3 = ps.FixedDurationTask(name="t3", duration=5, optional=True, release_date=1)
    t4 = ps.VariableDurationTask(name="t4", optional=True, min_duration=6)
    w = ps.Worker(name="w")
    t1.add_required_resource(w, early_out=1)
    t2.add_required_resource(w)
    t3.add_required_resource(w)
    t4.add_required_resource(w)
    show_task_assertions(pb)
    solve_and_show(pb)


def p09_errors():
    """errors raised by add_required_resource / set_assertions, and state afterwards"""
    pb = ps.SchedulingProblem(name="p09", horizon=5)
    t1 = ps.FixedDurationTask(name="t1", duration=3)
    w = ps.Worker(name="w")
    w2 = ps.Worker(name="w2")
    w3 = ps.Worker(name="w3")
    w4 = ps.Worker(name="w4")
    attempts = [
        ("not a resource", lambda: t1.add_required_resource("w")),
        ("first add", lambda: t1.add_required_resource(w)),
        ("twice", lambda: t1.add_required_resource(w)),
        ("delay_in None", lambda: t1.add_required_resource(w2, delay_in=None)),
        ("early_out str", lambda: t1.add_required_resource(w3, early_out="1")),
        (
            "early_out ok, delay_in str",
            lambda: t1.add_required_resource(w4, early_out=1, delay_in="x"),
        ),
        (
            "set_assertions again (duplicate)",
            lambda: t1.set_assertions([t1._start >= 0]),
        ),
        ("set_assertions with non list", lambda: t1.set_assertions(None)),
        (
            "optional set_assertions on fresh names",
            lambda: ps.FixedDurationTask(name="t1", duration=1, optional=True),
        ),
    ]
    for label, attempt in attempts:
        try:
            res = attempt()
            print(f"  {label}: returned {mask(repr(res))[:60]}")
        except Exception as exc:
            print(f"  {label}: ERROR {type(exc).__name__} {mask(str(exc))}")
    show_task_assertions(pb)
    # no active problem
    processscheduler.base.active_problem = None
    try:
        ps.FixedDurationTask(name="orphan", duration=1, optional=True)
    except Exception as exc:
        print(f"  orphan: ERROR {type(exc).__name__} {mask(str(exc))}")


def p10_subclass_and_direct_calls():
    """direct calls of set_assertions on optional tasks (second call, empty list)"""
    pb = ps.SchedulingProblem(name="p10", horizon=5)
    t1 = ps.ZeroDurationTask(name="t1", optional=True, due_date=3)
    t2 = ps.VariableDurationTask(name="t2", optional=True, release_date=1)
    t3 = ps.FixedDurationTask(name="t3", duration=1)
    for t in (t1, t2, t3):
        for arg in ([], [t._end <= 4], [t._end <= 4]):
            try:
                print("  ", t.name, "->", t.set_assertions(arg))
            except Exception as exc:
                print(f"   {t.name}: ERROR {type(exc).__name__} {mask(str(exc))}")
    show_task_assertions(pb)
    solve_and_show(pb)


def p11_optimisation_keeps_solutions():
    """makespan optimisation over optional + selectable elements"""
    pb = ps.SchedulingProblem(name="p11", horizon=12)
    w1 = ps.Worker(name="w1")
    w2 = ps.Worker(name="w2")
    tasks = []
    for i in range(3):
        t = ps.FixedDurationTask(name=f"t{i}", duration=2 + i, optional=(i == 2))
        t.add_required_resource(
            ps.SelectWorkers(list_of_workers=[w1, w2], nb_workers_to_select=1)
        )
        tasks.append(t)
    ps.ConstraintFromExpression(expression=tasks[2]._scheduled == True)  # noqa: E712
    ps.ObjectiveMinimizeMakespan()
    show_task_assertions(pb)
    solve_and_show(pb)


if __name__ == "__main__":
    for fn in (
        p01_mandatory_tasks_plain_worker,
        p02_optional_tasks_all_kinds,
        p03_pinned_valid_schedule_is_accepted,
        p04_delay_in_early_out_edge_values,
        p05_dynamic_resources,
        p06_select_and_cumulative_workers,
        p07_truly_infeasible,
        p08_feasible_only_with_offsets_and_unscheduled_optional,
        p09_errors,
        p10_subclass_and_direct_calls,
        p11_optimisation_keeps_solutions,
    ):
        run(fn)
