"""Equivalence script for the C09 twin refactoring.

Exercises NamedUIDObject.append_z3_assertion / append_z3_list_of_assertions
(base.py) and TaskLoadBuffer / TaskUnloadBuffer (task_constraint.py) on small
buffer problems and prints a canonical description of every outcome.
Run from the worktree root:  /venv/bin/python _twin/equiv.py
"""
import contextlib
import io
import os
import re
import sys

sys.path.insert(0, os.getcwd())

import z3  # noqa: E402
import processscheduler as ps  # noqa: E402

assert os.path.dirname(os.path.dirname(ps.__file__)) == os.getcwd(), ps.__file__


def mask(text):
    text = re.sub(r"\b[0-9a-f]{32}\b", "<HEX>", text)
    text = re.sub(r"\d{12,}", "<UID>", text)
    text = re.sub(r"asst_[0-9a-f]{8}", "asst_<ID>", text)
    text = re.sub(r"(?<=_)\d{8}\b", "<UID8>", text)
    return text


def relative_fresh_names(texts):
    """z3.FreshInt names (x!N) depend on a process wide counter: number them
    relatively to the smallest one met in the problem."""
    numbers = [int(n) for t in texts for n in re.findall(r"x!(\d+)", t)]
    if not numbers:
        return texts
    low = min(numbers)
    return [
        re.sub(r"x!(\d+)", lambda m: "x!+%d" % (int(m.group(1)) - low), t) for t in texts
    ]


def describe_buffer(buffer):
    print("  buffer", buffer.name, type(buffer).__name__)
    print("    unloading:", [(t.name, q) for t, q in buffer._unloading_tasks.items()])
    print("    loading  :", [(t.name, q) for t, q in buffer._loading_tasks.items()])
    print("    change times:", [str(v) for v in buffer._level_changes_time])
    print("    levels      :", [str(v) for v in buffer._buffer_levels])
    print("    own assertions:", [mask(str(a)) for a in buffer.get_z3_assertions()])
    print("    own hashes == hashes of assertions:",
          buffer._z3_assertion_hashes == [hash(a) for a in buffer._z3_assertions])


def run(title, build, **solver_args):
    print("=" * 70)
    print(title)
    try:
        pb = build()
    except Exception as exc:  # noqa: BLE001
        print("  BUILD ERROR:", type(exc).__name__, mask(str(exc)).splitlines()[0:6])
        return
    for buffer in pb.buffers:
        describe_buffer(buffer)
    for c in pb.constraints.values():
        print("  constraint", type(c).__name__, "optional=", c.optional,
              "applied=", mask(str(c._applied)),
              "assertions=", [mask(str(a)) for a in c.get_z3_assertions()],
              "hashes ok=", c._z3_assertion_hashes == [hash(a) for a in c._z3_assertions])
    try:
        sink = io.StringIO()
        with contextlib.redirect_stdout(sink):
            solver = ps.SchedulingSolver(problem=pb, random_values=False, **solver_args)
            solver.initialize()
            assertions = sorted(
                relative_fresh_names([mask(str(a)) for a in solver._solver.assertions()])
            )
            solution = solver.solve()
    except Exception as exc:  # noqa: BLE001
        print("  SOLVE ERROR:", type(exc).__name__, mask(str(exc)))
        return
    print("  %d solver assertions:" % len(assertions))
    for a in assertions:
        print("    " + a.replace("\n", " "))
    if not solution:
        print("  NO SOLUTION", repr(solution))
        return
    print("  horizon:", solution.horizon)
    for name, t in solution.tasks.items():
        print("  task", name, t.start, t.end, t.duration, t.scheduled)
    for name, b in solution.buffers.items():
        print("  buffer solution", name, "levels", b.level, "times", b.level_change_times)
    print("  indicators:", {mask(k): v for k, v in solution.indicators.items()})


# 1 -------------------------------------------------------------------------
def p1():
    pb = ps.SchedulingProblem(name="P1")
    t1 = ps.FixedDurationTask(name="task1", duration=3)
    b = ps.NonConcurrentBuffer(name="Buffer1", initial_level=10)
    ps.TaskStartAt(task=t1, value=5)
    ps.TaskUnloadBuffer(task=t1, buffer=b, quantity=3)
    return pb


run("1. non concurrent, one unloading task", p1)


# 2 -------------------------------------------------------------------------
def p2():
    pb = ps.SchedulingProblem(name="P2", horizon=12)
    t1 = ps.FixedDurationTask(name="t1", duration=2)
    t2 = ps.FixedDurationTask(name="t2", duration=3)
    t3 = ps.ZeroDurationTask(name="t3")
    b = ps.NonConcurrentBuffer(
        name="B", initial_level=4, final_level=6, lower_bound=0, upper_bound=9
    )
    ps.TaskStartAt(task=t1, value=1)
    ps.TaskStartAt(task=t2, value=4)
    ps.TaskStartAt(task=t3, value=9)
    ps.TaskUnloadBuffer(task=t1, buffer=b, quantity=4)
    ps.TaskLoadBuffer(task=t2, buffer=b, quantity=5)
    ps.TaskLoadBuffer(task=t3, buffer=b, quantity=1)
    return pb


run("2. non concurrent, load and unload, bounds, final level, level reaches 0", p2)


# 3 -------------------------------------------------------------------------
def p3():
    pb = ps.SchedulingProblem(name="P3", horizon=10)
    t1 = ps.FixedDurationTask(name="t1", duration=2)
    t2 = ps.FixedDurationTask(name="t2", duration=2)
    t3 = ps.FixedDurationTask(name="t3", duration=4)
    b = ps.ConcurrentBuffer(name="CB", initial_level=5, lower_bound=0)
    ps.TaskStartAt(task=t1, value=2)
    ps.TaskStartAt(task=t2, value=2)
    ps.TaskStartAt(task=t3, value=0)
    ps.TaskUnloadBuffer(task=t1, buffer=b, quantity=2)
    ps.TaskUnloadBuffer(task=t2, buffer=b, quantity=0)
    ps.TaskLoadBuffer(task=t3, buffer=b, quantity=7)
    return pb


run("3. concurrent buffer, simultaneous accesses, quantity 0", p3)


# 4 -------------------------------------------------------------------------
def p4():
    pb = ps.SchedulingProblem(name="P4", horizon=8)
    t1 = ps.FixedDurationTask(name="t1", duration=2)
    t2 = ps.VariableDurationTask(name="t2", min_duration=1, max_duration=3)
    b = ps.NonConcurrentBuffer(name="OB", final_level=3)
    ps.TaskEndAt(task=t1, value=4)
    ps.TaskStartAt(task=t2, value=5)
    ps.TaskLoadBuffer(task=t1, buffer=b, quantity=2, optional=True)
    ps.TaskUnloadBuffer(task=t2, buffer=b, quantity=1, optional=True, name="named_unload")
    return pb


run("4. final level only, optional buffer constraints, variable duration", p4)


# 5 -------------------------------------------------------------------------
def p5():
    pb = ps.SchedulingProblem(name="P5", horizon=6)
    t1 = ps.FixedDurationTask(name="t1", duration=2)
    t2 = ps.FixedDurationTask(name="t2", duration=2)
    b = ps.NonConcurrentBuffer(name="NB", initial_level=3)
    ps.TaskStartAt(task=t1, value=1)
    ps.TaskStartAt(task=t2, value=1)
    ps.TaskUnloadBuffer(task=t1, buffer=b, quantity=1)
    ps.TaskUnloadBuffer(task=t2, buffer=b, quantity=1)
    return pb


run("5. non concurrent buffer accessed twice at the same instant (unsat)", p5)


# 6 -------------------------------------------------------------------------
def p6():
    pb = ps.SchedulingProblem(name="P6", horizon=6)
    t1 = ps.FixedDurationTask(name="t1", duration=2)
    b = ps.ConcurrentBuffer(name="UB", initial_level=3, upper_bound=4)
    ps.TaskLoadBuffer(task=t1, buffer=b, quantity=2)
    return pb


run("6. upper bound exceeded (unsat)", p6)


# 7 -------------------------------------------------------------------------
def p7():
    pb = ps.SchedulingProblem(name="P7")
    t1 = ps.FixedDurationTask(name="t1", duration=2)
    t2 = ps.FixedDurationTask(name="t2", duration=3, optional=True)
    t3 = ps.FixedDurationTask(name="t3", duration=1)
    b1 = ps.NonConcurrentBuffer(name="B1", initial_level=0, upper_bound=6)
    b2 = ps.ConcurrentBuffer(name="B2", initial_level=8, final_level=2, lower_bound=2)
    ps.TaskLoadBuffer(task=t1, buffer=b1, quantity=6)
    ps.TaskUnloadBuffer(task=t1, buffer=b2, quantity=3)
    ps.TaskUnloadBuffer(task=t2, buffer=b1, quantity=2)
    ps.TaskUnloadBuffer(task=t3, buffer=b2, quantity=3)
    ps.TaskLoadBuffer(task=t3, buffer=b1, quantity=0)
    ps.ForceScheduleNOptionalTasks(list_of_optional_tasks=[t2], nb_tasks_to_schedule=1)
    ps.TaskPrecedence(task_before=t1, task_after=t2)
    ps.TaskPrecedence(task_before=t2, task_after=t3)
    ps.IndicatorMaxBufferLevel(buffer=b1)
    ps.IndicatorMinBufferLevel(buffer=b2)
    ps.ObjectiveMinimizeMakespan()
    return pb


run("7. two buffers, optional task, indicators, makespan objective", p7)


# 8 -------------------------------------------------------------------------
def p8():
    pb = ps.SchedulingProblem(name="P8", horizon=9)
    t1 = ps.FixedDurationTask(name="t1", duration=2)
    b = ps.NonConcurrentBuffer(name="SB", initial_level=5)
    ps.TaskStartAt(task=t1, value=3)
    ps.TaskUnloadBuffer(task=t1, buffer=b, quantity=2)
    ps.TaskLoadBuffer(task=t1, buffer=b, quantity=2)
    return pb


run("8. the same task unloads and loads the same buffer", p8)


# 9 - errors -----------------------------------------------------------------
def p9a():
    pb = ps.SchedulingProblem(name="P9a")
    t1 = ps.FixedDurationTask(name="t1", duration=2)
    ps.TaskLoadBuffer(task=t1, buffer="not a buffer", quantity=2)
    return pb


def p9b():
    pb = ps.SchedulingProblem(name="P9b")
    t1 = ps.FixedDurationTask(name="t1", duration=2)
    b = ps.NonConcurrentBuffer(name="EB", initial_level=5)
    ps.TaskUnloadBuffer(task=t1, buffer=b)
    return pb


def p9c():
    pb = ps.SchedulingProblem(name="P9c")
    b = ps.NonConcurrentBuffer(name="EB", initial_level=5)
    ps.TaskUnloadBuffer(task=None, buffer=b, quantity=1)
    return pb


def p9d():
    pb = ps.SchedulingProblem(name="P9d")
    t1 = ps.FixedDurationTask(name="t1", duration=2)
    b = ps.NonConcurrentBuffer(name="EB", initial_level=5)
    ps.TaskLoadBuffer(task=t1, buffer=b, quantity=1.5)
    return pb


def p9e():
    ps.base.active_problem = None
    t = ps.NonConcurrentBuffer(name="EB", initial_level=5)
    return t


run("9a. wrong buffer type", p9a)
run("9b. missing quantity", p9b)
run("9c. task None", p9c)
run("9d. float quantity", p9d)
run("9e. no active problem", p9e)

run("9f. upper bound exceeded, debug mode (z3 verbose output goes to stderr)", p6, debug=True)

# 10 - direct use of the assertion store ---------------------------------------
print("=" * 70)
print("10. NamedUIDObject assertion store")
pb = ps.SchedulingProblem(name="P10")
b = ps.ConcurrentBuffer(name="AB", initial_level=0, final_level=0)
x, y = z3.Ints("x y")
print("  return value:", b.append_z3_assertion(x > y))
print("  return value list:", b.append_z3_list_of_assertions([x > 1, y > 2, x + y == 7]))
print("  empty list:", b.append_z3_list_of_assertions([]))
for label, arg in [
    ("duplicate", x > y),
    ("duplicate of the initial level", z3.Int("AB_initial_level") == 0),
    ("unhashable list", [x > 5]),
    ("python bool True", True),
    ("python bool True again", True),
    ("int 1 (same hash as True)", 1),
    ("None", None),
]:
    try:
        print("  %s ->" % label, b.append_z3_assertion(arg))
    except Exception as exc:  # noqa: BLE001
        print("  %s -> %s: %s" % (label, type(exc).__name__, exc))
try:
    b.append_z3_list_of_assertions([x > 10, x > 11, x > 10, x > 12])
except Exception as exc:  # noqa: BLE001
    print("  list with duplicate -> %s: %s" % (type(exc).__name__, exc))
try:
    b.append_z3_list_of_assertions(None)
except Exception as exc:  # noqa: BLE001
    print("  None as list -> %s: %s" % (type(exc).__name__, exc))
print("  assertions:", [str(a) for a in b.get_z3_assertions()])
print("  same object returned:", b.get_z3_assertions() is b._z3_assertions)
print("  hashes consistent:", b._z3_assertion_hashes == [hash(a) for a in b._z3_assertions])
print("  lengths:", len(b._z3_assertions), len(b._z3_assertion_hashes))
print("  repr works:", mask(repr(b)))
print("  json:", mask(b.to_json(compact=True)))

# 11 - json of a problem with buffer constraints ---------------------------------
print("=" * 70)
print("11. json export of buffer constraints")
pb = p2()
for c in pb.constraints.values():
    if isinstance(c, (ps.TaskLoadBuffer, ps.TaskUnloadBuffer)):
        print("  fields:", list(type(c).model_fields), "mro:", [k.__name__ for k in type(c).__mro__[:4]])
        print(" ", mask(c.to_json(compact=True)))
print(mask(pb.to_json(compact=True)))
