"""Equivalence script for the C17 refactoring twin.

Exercises Task.add_required_resource (Worker branch), Buffer.add_loading_task /
add_unloading_task and util.clean_buffer_levels, through small problems that are
solved and rendered as matplotlib Gantt charts. For every case a canonical
description is printed: sorted solver assertions, reported solution values, and
what was actually drawn (bars, texts, buffer step lines).
"""
import contextlib
import io
import os
import re
import sys
import warnings

sys.path.insert(0, os.getcwd())

import matplotlib

matplotlib.use("Agg")
import matplotlib.pyplot as plt
import numpy as np

import processscheduler as ps
from processscheduler.util import clean_buffer_levels

warnings.filterwarnings("ignore")

UUID_RE = re.compile(r"\d{20,}")


def mask(text):
    return UUID_RE.sub("<UID>", text)


def describe_assertions(solver):
    if not solver._initialized:
        solver.initialize()
    return sorted(mask(str(a)) for a in solver._solver.assertions())


def describe_object_assertions(obj):
    return [mask(str(a)) for a in obj.get_z3_assertions()]


def describe_solution(solution):
    out = [f"horizon={solution.horizon}"]
    for name, t in solution.tasks.items():
        out.append(
            f"task {name}: start={t.start} end={t.end} dur={t.duration} "
            f"sched={t.scheduled} res={t.assigned_resources}"
        )
    for name, r in solution.resources.items():
        out.append(f"resource {name}: {r.assignments}")
    for name, b in solution.buffers.items():
        out.append(f"buffer {name}: level={b.level} times={b.level_change_times}")
    for name, v in solution.indicators.items():
        out.append(f"indicator {name}: {v}")
    return out


def describe_drawing(solution, render_mode):
    plt.close("all")
    try:
        ps.render_gantt_matplotlib(solution, render_mode=render_mode, show_plot=False)
    except Exception as exc:  # pylint: disable=broad-except
        return [f"render error {type(exc).__name__}: {exc}"]
    fig = plt.gcf()
    out = []
    for ax_i, ax in enumerate(fig.axes):
        out.append(
            f"axes {ax_i}: title={ax.get_title()!r} ylabel={ax.get_ylabel()!r} "
            f"yticklabels={[t.get_text() for t in ax.get_yticklabels()]} "
            f"xlim={tuple(round(float(v), 6) for v in ax.get_xlim())}"
        )
        for coll in ax.collections:
            for path in coll.get_paths():
                ext = path.get_extents()
                out.append(
                    "  bar x0=%.4f x1=%.4f y0=%.4f y1=%.4f"
                    % (ext.x0, ext.x1, ext.y0, ext.y1)
                )
        for txt in ax.texts:
            x, y = txt.get_position()
            out.append("  text %r at (%.4f, %.4f)" % (txt.get_text(), x, y))
        for line in ax.get_lines():
            xs = ["nan" if np.isnan(v) else "%.4f" % v for v in line.get_xdata()]
            ys = ["nan" if np.isnan(v) else "%.4f" % v for v in line.get_ydata()]
            out.append(f"  line label={line.get_label()!r} x={xs} y={ys}")
    plt.close("all")
    return out


def report(title, problem_builder):
    print("=" * 70)
    print(title)
    try:
        problem, extra = problem_builder()
        for line in extra:
            print("  extra:", line)
        # the solver prints timings: keep its chatter out of the report
        with contextlib.redirect_stdout(io.StringIO()):
            solver = ps.SchedulingSolver(problem=problem)
            assertions = describe_assertions(solver)
            solution = solver.solve()
        for line in assertions:
            print("  asst:", line)
        if not solution:
            print("  no solution")
            return
        for line in describe_solution(solution):
            print("  sol:", line)
        for mode in ("Resource", "Task"):
            print(f"  drawing [{mode}]")
            for line in describe_drawing(solution, mode):
                print("   ", line)
    except Exception as exc:  # pylint: disable=broad-except
        print(f"  ERROR {type(exc).__name__}: {mask(str(exc))}")


#
# the cases
#
def case_plain_workers():
    pb = ps.SchedulingProblem(name="PlainWorkers", horizon=10)
    t1 = ps.FixedDurationTask(name="T1", duration=3)
    t2 = ps.FixedDurationTask(name="T2", duration=4)
    t3 = ps.ZeroDurationTask(name="Z3")
    w1 = ps.Worker(name="W1")
    w2 = ps.Worker(name="W2")
    t1.add_required_resources([w1, w2])
    t2.add_required_resource(w1)
    t3.add_required_resource(w2)
    ps.TaskStartAt(task=t1, value=0)
    ps.TaskStartAt(task=t2, value=5)
    ps.TaskStartAt(task=t3, value=7)
    return pb, describe_object_assertions(t1) + describe_object_assertions(t3)


def case_delay_in_early_out():
    pb = ps.SchedulingProblem(name="DelayEarly", horizon=12)
    t1 = ps.FixedDurationTask(name="T1", duration=6)
    t2 = ps.FixedDurationTask(name="T2", duration=5)
    t3 = ps.FixedDurationTask(name="T3", duration=4)
    t4 = ps.FixedDurationTask(name="T4", duration=2)
    w1 = ps.Worker(name="W1")
    w2 = ps.Worker(name="W2")
    w3 = ps.Worker(name="W3")
    w4 = ps.Worker(name="W4")
    t1.add_required_resource(w1, delay_in=2, early_out=1)
    t2.add_required_resource(w2, delay_in=0, early_out=3)
    t3.add_required_resource(w3, delay_in=1)
    # edge values: zero and negative are both "not > 0"
    t4.add_required_resource(w4, delay_in=-1, early_out=0)
    ps.TaskStartAt(task=t1, value=0)
    ps.TaskStartAt(task=t2, value=1)
    ps.TaskStartAt(task=t3, value=2)
    ps.TaskStartAt(task=t4, value=9)
    extra = []
    for t in (t1, t2, t3, t4):
        extra += describe_object_assertions(t)
    return pb, extra


def case_dynamic():
    pb = ps.SchedulingProblem(name="Dynamic", horizon=10)
    t1 = ps.FixedDurationTask(name="T1", duration=5)
    t2 = ps.VariableDurationTask(name="V2", min_duration=2, max_duration=4)
    w1 = ps.Worker(name="W1")
    w2 = ps.Worker(name="W2")
    t1.add_required_resource(w1, dynamic=True)
    # delay_in / early_out are ignored in dynamic mode
    t1.add_required_resource(w2, dynamic=True, delay_in=2, early_out=2)
    t2.add_required_resources([w1, w2], dynamic=True)
    ps.TaskStartAt(task=t1, value=0)
    ps.TaskStartAt(task=t2, value=5)
    ps.ObjectiveMinimizeMakespan()
    return pb, describe_object_assertions(t1) + describe_object_assertions(t2)


def case_select_and_cumulative_optional():
    pb = ps.SchedulingProblem(name="SelectCumulOptional", horizon=9)
    t1 = ps.FixedDurationTask(name="T1", duration=3)
    t2 = ps.FixedDurationTask(name="T2", duration=3)
    t3 = ps.FixedDurationTask(
        name="OptNo", duration=2, optional=True, release_date=8
    )
    t4 = ps.FixedDurationTask(name="OptYes", duration=2, optional=True)
    w1 = ps.Worker(name="W1")
    w2 = ps.Worker(name="W2")
    cw = ps.CumulativeWorker(name="CW", size=2)
    sel = ps.SelectWorkers(list_of_workers=[w1, w2], nb_workers_to_select=1)
    t1.add_required_resource(sel)
    t2.add_required_resource(cw)
    t1.add_required_resource(cw)
    t3.add_required_resource(w1)
    t4.add_required_resource(w2, delay_in=1)
    ps.TaskStartAt(task=t1, value=0)
    ps.TaskStartAt(task=t2, value=1)
    ps.TaskStartAt(task=t4, value=5)
    # OptNo cannot fit in the horizon (release date 8, duration 2, horizon 9)
    ps.ForceScheduleNOptionalTasks(
        list_of_optional_tasks=[t3, t4], nb_tasks_to_schedule=1
    )
    return pb, describe_object_assertions(t1) + describe_object_assertions(t4)


def case_buffers_concurrent():
    pb = ps.SchedulingProblem(name="BuffersConcurrent", horizon=14)
    t1 = ps.FixedDurationTask(name="T1", duration=3)
    t2 = ps.FixedDurationTask(name="T2", duration=4)
    t3 = ps.FixedDurationTask(name="T3", duration=5)
    w1 = ps.Worker(name="W1")
    t1.add_required_resource(w1)
    b1 = ps.ConcurrentBuffer(name="B1", initial_level=100)
    b2 = ps.ConcurrentBuffer(name="B2", initial_level=0)
    ps.TaskStartAt(task=t1, value=7)
    ps.TaskStartAt(task=t2, value=7)
    ps.TaskStartAt(task=t3, value=8)
    ps.TaskUnloadBuffer(task=t1, buffer=b1, quantity=23)
    ps.TaskUnloadBuffer(task=t2, buffer=b1, quantity=39)
    ps.TaskUnloadBuffer(task=t3, buffer=b1, quantity=17)
    ps.TaskLoadBuffer(task=t1, buffer=b2, quantity=5)
    ps.TaskLoadBuffer(task=t3, buffer=b2, quantity=0)
    extra = [
        f"B1 levels={b1._buffer_levels} times={b1._level_changes_time} "
        f"unl={[t.name for t in b1._unloading_tasks]}:{list(b1._unloading_tasks.values())} "
        f"load={list(b1._loading_tasks.values())}",
        f"B2 levels={b2._buffer_levels} times={b2._level_changes_time} "
        f"unl={list(b2._unloading_tasks.values())} "
        f"load={[t.name for t in b2._loading_tasks]}:{list(b2._loading_tasks.values())}",
    ]
    return pb, extra


def case_buffers_non_concurrent_no_resource():
    pb = ps.SchedulingProblem(name="BuffersNonConcurrent")
    t1 = ps.FixedDurationTask(name="T1", duration=2)
    t2 = ps.FixedDurationTask(name="T2", duration=3)
    t3 = ps.ZeroDurationTask(name="Z")
    b1 = ps.NonConcurrentBuffer(name="B1", initial_level=10, lower_bound=0)
    b2 = ps.NonConcurrentBuffer(name="B2", final_level=4)
    ps.TaskStartAt(task=t1, value=1)
    ps.TaskStartAt(task=t2, value=4)
    ps.TaskStartAt(task=t3, value=9)
    ps.TaskUnloadBuffer(task=t1, buffer=b1, quantity=3)
    ps.TaskLoadBuffer(task=t2, buffer=b1, quantity=6)
    ps.TaskUnloadBuffer(task=t3, buffer=b1, quantity=1)
    ps.TaskLoadBuffer(task=t1, buffer=b2, quantity=2)
    ps.ObjectiveMinimizeMakespan()
    extra = [
        f"B1 levels={b1._buffer_levels} times={b1._level_changes_time}",
        f"B2 levels={b2._buffer_levels} times={b2._level_changes_time}",
    ]
    return pb, extra


def case_date_time_axis():
    from datetime import datetime, timedelta

    pb = ps.SchedulingProblem(
        name="DateTime",
        horizon=6,
        delta_time=timedelta(minutes=15),
        start_time=datetime(2024, 1, 1, 8, 0),
    )
    t1 = ps.FixedDurationTask(name="T1", duration=2)
    t2 = ps.FixedDurationTask(name="T2", duration=1)
    w1 = ps.Worker(name="W1", productivity=0)
    t1.add_required_resource(w1, early_out=1)
    t2.add_required_resource(w1, dynamic=True)
    ps.TaskStartAt(task=t1, value=1)
    ps.TaskStartAt(task=t2, value=4)
    return pb, []


def errors_add_required_resource():
    print("=" * 70)
    print("errors / partial state of add_required_resource")
    ps.SchedulingProblem(name="Errors", horizon=5)
    t1 = ps.FixedDurationTask(name="T1", duration=2)
    w1 = ps.Worker(name="W1")
    w2 = ps.Worker(name="W2")
    w3 = ps.Worker(name="W3")
    w4 = ps.Worker(name="W4")
    attempts = [
        ("not a resource", lambda: t1.add_required_resource("W1")),
        ("first add", lambda: t1.add_required_resource(w1)),
        ("twice", lambda: t1.add_required_resource(w1)),
        ("delay_in None", lambda: t1.add_required_resource(w2, delay_in=None)),
        ("early_out None", lambda: t1.add_required_resource(w3, early_out=None)),
        (
            "dynamic with None",
            lambda: t1.add_required_resource(
                w4, dynamic=True, delay_in=None, early_out=None
            ),
        ),
        ("bare Resource", lambda: t1.add_required_resource(ps.resource.Resource(name="R"))),
    ]
    for label, fct in attempts:
        try:
            res = fct()
            print(f"  {label}: returned {res!r}")
        except Exception as exc:  # pylint: disable=broad-except
            print(f"  {label}: {type(exc).__name__}: {mask(str(exc))}")
        print("    required:", [r.name for r in t1._required_resources])
        print("    assertions:", describe_object_assertions(t1))
        for w in (w1, w2, w3, w4):
            print(
                f"    busy {w.name}:",
                [(t.name, str(iv)) for t, iv in w._busy_intervals.items()],
            )


def direct_clean_buffer_levels():
    print("=" * 70)
    print("direct calls of clean_buffer_levels")
    inputs = [
        ([10], []),
        ([10, 7], [5]),
        ([100, 77, 38, 21], [7, 7, 7]),
        ([100, 77, 38, 21], [7, 7, 8]),
        ([0, 1, 2, 3, 4, 5], [3, 1, 3, 1, 0]),
        ([0, 0, 0], [0, 0]),
        ([1.5, 2.5, float("nan")], [float("nan"), float("nan")]),
        ([1, 2], [1, 2]),
        ([], []),
        ([1, 2, 3], [4]),
        ((1, 2), [3]),
        (5, [3]),
        ([1, 2], None),
    ]
    for levels, times in inputs:
        before = repr((levels, times))
        try:
            result = clean_buffer_levels(levels, times)
            print(f"  {before} -> {result!r}; args after: {(levels, times)!r}")
        except Exception as exc:  # pylint: disable=broad-except
            print(
                f"  {before} -> {type(exc).__name__}: {exc}; args after: {(levels, times)!r}"
            )
    # identity shortcut (same nan object twice) and result types
    nan = float("nan")
    levels, times = [1, 2, 3], [nan, nan]
    result = clean_buffer_levels(levels, times)
    print("  same nan object:", result, type(result).__name__, levels)
    first = [9, 8]
    result = clean_buffer_levels(first, [1])
    print("  result is new list:", result[0] is not first, result)


if __name__ == "__main__":
    report("1. plain workers, zero duration task", case_plain_workers)
    report("2. delay_in / early_out (positive, 0, negative)", case_delay_in_early_out)
    report("3. dynamic resources", case_dynamic)
    report(
        "4. select workers, cumulative worker, optional tasks",
        case_select_and_cumulative_optional,
    )
    report("5. concurrent buffers", case_buffers_concurrent)
    report(
        "6. non concurrent buffers, no resource, no horizon",
        case_buffers_non_concurrent_no_resource,
    )
    report("7. date/time axis, productivity 0", case_date_time_axis)
    errors_add_required_resource()
    direct_clean_buffer_levels()
