"""Equivalence script for the refactoring of WorkLoad,
ResourcePeriodicallyUnavailable and the helper _elementary_workers
(processscheduler/resource_constraint.py).

For each small problem it prints a canonical description of the outcome:
the error raised at creation (if any), the assertions held by each constraint
registered in the problem (in creation order, also after a rejected creation),
the sorted assertions of the solver, and the solve outcome.

Random parts of names (uuid based) are replaced by their rank of first
appearance.
"""
import contextlib
import io
import os
import re
import sys

sys.path.insert(0, os.getcwd())

import z3  # noqa: E402

import processscheduler as ps  # noqa: E402
import processscheduler.base  # noqa: E402

assert os.path.dirname(ps.__file__).startswith(os.getcwd()), ps.__file__

_PATTERNS = [
    (re.compile(r"Overlap_(-?\d+)_(-?\d+)_([0-9a-f]{8})"), "Overlap_{0}_{1}_#{n}", 2),
    (re.compile(r"constraint_(\d+)_applied"), "constraint_#{n}_applied", 0),
    (re.compile(r"SelectWorkers_(\d{8})"), "SelectWorkers_#{n}", 0),
    # selection variables of a SelectWorkers: Selected_<worker name>_<uid>
    (re.compile(r"(Selected_\w+?)_(\d{20,})"), "{0}_#{n}", 1),
]


class Masker:
    def __init__(self):
        self.seen = [dict() for _ in _PATTERNS]

    def __call__(self, text):
        for idx, (rgx, template, grp) in enumerate(_PATTERNS):
            seen = self.seen[idx]

            def repl(match, seen=seen, template=template, grp=grp):
                key = match.group(grp + 1)
                n = seen.setdefault(key, len(seen))
                return template.format(*match.groups(), n=n)

            text = rgx.sub(repl, text)
        return text


def flat(text):
    return " ".join(str(text).split())


def describe_error(exc):
    text = flat(exc)
    if type(exc).__name__ == "ValidationError":
        # keep the pydantic locations and messages, drop the url lines
        text = flat(
            " | ".join(
                f"{'.'.join(str(p) for p in err['loc'])}: {err['type']}"
                for err in exc.errors()
            )
        )
    return f"{type(exc).__name__}: {text}"


def attempt(label, builder, mask):
    """run a creation, report acceptance or the error"""
    try:
        obj = builder()
    except Exception as exc:  # pylint: disable=broad-except
        print(f"  [{label}] REJECTED {mask(describe_error(exc))}")
        return None
    print(f"  [{label}] accepted type={obj.type} name={mask(obj.name)}")
    return obj


def report(problem, mask, solve=True, objective=True):
    for name, cstr in problem.constraints.items():
        print(f"  constraint {mask(name)} optional={cstr.optional}")
        for asst in cstr.get_z3_assertions():
            print(f"    {mask(flat(asst))}")
    if not solve:
        return
    if objective:
        ps.ObjectiveMinimizeMakespan()
    solver = ps.SchedulingSolver(problem=problem)
    try:
        # the solver is verbose (timings, search path): keep that out of the report
        with contextlib.redirect_stdout(io.StringIO()):
            solver.initialize()
    except Exception as exc:  # pylint: disable=broad-except
        print(f"  solver initialize error {mask(describe_error(exc))}")
        return
    lines = [mask(flat(a)) for a in solver._solver.assertions()]
    print(f"  solver assertions ({len(lines)}):")
    for line in sorted(lines):
        print(f"    {line}")
    with contextlib.redirect_stdout(io.StringIO()):
        solution = solver.solve()
    if not solution:
        print("  solve: no solution")
    else:
        # the optimal makespan is the only value of the solution that is
        # determined by the problem; without objective, only sat/unsat is
        makespan = max(
            [tsol.end for tsol in solution.tasks.values() if tsol.scheduled], default=0
        )
        print(
            f"  solve: solution found, horizon={solution.horizon}"
            f" makespan={makespan if objective else 'free'}"
        )


def scenario(title):
    def deco(func):
        print(f"=== {title}")
        mask = Masker()
        processscheduler.base.active_problem = None
        try:
            func(mask)
        except Exception as exc:  # pylint: disable=broad-except
            print(f"  SCENARIO ERROR {mask(describe_error(exc))}")
        return func

    return deco


# ---------------------------------------------------------------- WorkLoad
for KIND in ("exact", "max", "min"):

    @scenario(f"WL1 WorkLoad worker, two intervals, kind={KIND}")
    def _(mask, kind=KIND):
        pb = ps.SchedulingProblem(name="wl1", horizon=12)
        t1 = ps.FixedDurationTask(name="t1", duration=3)
        t2 = ps.FixedDurationTask(name="t2", duration=4, optional=True)
        w = ps.Worker(name="w")
        t1.add_required_resource(w)
        t2.add_required_resource(w)
        attempt(
            "wl",
            lambda: ps.WorkLoad(
                name="wl",
                resource=w,
                dict_time_intervals_and_bound={(0, 5): 2, (5, 12): 3},
                kind=kind,
            ),
            mask,
        )
        report(pb, mask)


@scenario("WL2 WorkLoad default kind, bound 0, optional constraint")
def _(mask):
    pb = ps.SchedulingProblem(name="wl2", horizon=8)
    t1 = ps.VariableDurationTask(name="t1", min_duration=0, max_duration=4)
    w = ps.Worker(name="w", productivity=0)
    t1.add_required_resource(w)
    attempt(
        "wl",
        lambda: ps.WorkLoad(
            name="wl",
            resource=w,
            dict_time_intervals_and_bound={(0, 4): 0},
            optional=True,
        ),
        mask,
    )
    report(pb, mask)


@scenario("WL3 WorkLoad on a cumulative worker, kind=max")
def _(mask):
    pb = ps.SchedulingProblem(name="wl3", horizon=10)
    t1 = ps.FixedDurationTask(name="t1", duration=4)
    t2 = ps.FixedDurationTask(name="t2", duration=4)
    t3 = ps.ZeroDurationTask(name="t3")
    cw = ps.CumulativeWorker(name="cw", size=2)
    for t in (t1, t2, t3):
        t.add_required_resource(cw)
    attempt(
        "wl",
        lambda: ps.WorkLoad(
            name="wl",
            resource=cw,
            dict_time_intervals_and_bound={(0, 4): 5, (-2, 0): 0},
            kind="max",
        ),
        mask,
    )
    report(pb, mask)


@scenario("WL4 WorkLoad rejected: worker / cumulative worker not assigned")
def _(mask):
    pb = ps.SchedulingProblem(name="wl4", horizon=10)
    t1 = ps.FixedDurationTask(name="t1", duration=2)
    w_busy = ps.Worker(name="w_busy")
    w_idle = ps.Worker(name="w_idle")
    cw_idle = ps.CumulativeWorker(name="cw_idle", size=3)
    t1.add_required_resource(w_busy)
    attempt(
        "idle worker",
        lambda: ps.WorkLoad(
            name="wl_idle", resource=w_idle, dict_time_intervals_and_bound={(0, 4): 1}
        ),
        mask,
    )
    attempt(
        "idle worker optional min",
        lambda: ps.WorkLoad(
            name="wl_idle_opt",
            resource=w_idle,
            dict_time_intervals_and_bound={(0, 4): 1, (4, 6): 0},
            kind="min",
            optional=True,
        ),
        mask,
    )
    attempt(
        "idle cumulative",
        lambda: ps.WorkLoad(
            name="wl_cw_idle",
            resource=cw_idle,
            dict_time_intervals_and_bound={(0, 4): 1},
        ),
        mask,
    )
    attempt(
        "idle worker, no interval at all",
        lambda: ps.WorkLoad(
            name="wl_idle_empty", resource=w_idle, dict_time_intervals_and_bound={}
        ),
        mask,
    )
    attempt(
        "busy worker, no interval at all",
        lambda: ps.WorkLoad(
            name="wl_busy_empty", resource=w_busy, dict_time_intervals_and_bound={}
        ),
        mask,
    )
    attempt(
        "same name again",
        lambda: ps.WorkLoad(
            name="wl_idle", resource=w_busy, dict_time_intervals_and_bound={(0, 4): 1}
        ),
        mask,
    )
    attempt(
        "assigned later",
        lambda: (
            t1.add_required_resource(w_idle),
            ps.WorkLoad(
                name="wl_later",
                resource=w_idle,
                dict_time_intervals_and_bound={(0, 4): 1},
                kind="exact",
            ),
        )[1],
        mask,
    )
    report(pb, mask)


@scenario("WL5 WorkLoad ill-formed parameters")
def _(mask):
    pb = ps.SchedulingProblem(name="wl5", horizon=10)
    t1 = ps.FixedDurationTask(name="t1", duration=2)
    w1 = ps.Worker(name="w1")
    w2 = ps.Worker(name="w2")
    t1.add_required_resource(w1)
    sw = ps.SelectWorkers(name="sw", list_of_workers=[w1, w2])
    attempt(
        "bad kind",
        lambda: ps.WorkLoad(
            name="a",
            resource=w1,
            dict_time_intervals_and_bound={(0, 4): 1},
            kind="atleast",
        ),
        mask,
    )
    attempt(
        "select workers as resource",
        lambda: ps.WorkLoad(
            name="b", resource=sw, dict_time_intervals_and_bound={(0, 4): 1}
        ),
        mask,
    )
    attempt(
        "task as resource",
        lambda: ps.WorkLoad(
            name="c", resource=t1, dict_time_intervals_and_bound={(0, 4): 1}
        ),
        mask,
    )
    attempt(
        "three values interval",
        lambda: ps.WorkLoad(
            name="d", resource=w1, dict_time_intervals_and_bound={(0, 4, 5): 1}
        ),
        mask,
    )
    attempt(
        "missing dict",
        lambda: ps.WorkLoad(name="e", resource=w1),
        mask,
    )
    report(pb, mask, solve=False)


@scenario("WL6 WorkLoad before any problem exists")
def _(mask):
    attempt("worker without problem", lambda: ps.Worker(name="w"), mask)
    attempt(
        "task without problem", lambda: ps.FixedDurationTask(name="t", duration=1), mask
    )


# ---------------------------------------- ResourcePeriodicallyUnavailable
PU_PARAMS = [
    dict(period=5),
    dict(period=5, start=3),
    dict(period=5, end=9),
    dict(period=4, start=2, end=10, offset=1),
    dict(period=5, start=0, offset=2),
    dict(period=6, start=-1, end=0),
    dict(period=3, offset=-2, optional=True),
]
for NUM, PARAMS in enumerate(PU_PARAMS):

    @scenario(f"PU1.{NUM} ResourcePeriodicallyUnavailable worker {PARAMS}")
    def _(mask, params=PARAMS):
        pb = ps.SchedulingProblem(name="pu1", horizon=14)
        t1 = ps.FixedDurationTask(name="t1", duration=2)
        t2 = ps.VariableDurationTask(name="t2", min_duration=1, max_duration=3)
        t3 = ps.FixedDurationTask(name="t3", duration=1, optional=True)
        w = ps.Worker(name="w")
        for t in (t1, t2, t3):
            t.add_required_resource(w)
        attempt(
            "pu",
            lambda: ps.ResourcePeriodicallyUnavailable(
                name="pu", resource=w, list_of_time_intervals=[(0, 1), (3, 4)], **params
            ),
            mask,
        )
        report(pb, mask)


@scenario("PU2 ResourcePeriodicallyUnavailable on a cumulative worker")
def _(mask):
    pb = ps.SchedulingProblem(name="pu2", horizon=12)
    t1 = ps.FixedDurationTask(name="t1", duration=2)
    t2 = ps.FixedDurationTask(name="t2", duration=2)
    cw = ps.CumulativeWorker(name="cw", size=2)
    t1.add_required_resource(cw)
    t2.add_required_resource(cw)
    attempt(
        "pu",
        lambda: ps.ResourcePeriodicallyUnavailable(
            name="pu",
            resource=cw,
            list_of_time_intervals=[(1, 3)],
            period=4,
            start=1,
            end=11,
        ),
        mask,
    )
    report(pb, mask)


@scenario("PU3 ResourcePeriodicallyUnavailable rejected / edge cases")
def _(mask):
    pb = ps.SchedulingProblem(name="pu3", horizon=12)
    t1 = ps.FixedDurationTask(name="t1", duration=2)
    w_busy = ps.Worker(name="w_busy")
    w_idle = ps.Worker(name="w_idle")
    cw_idle = ps.CumulativeWorker(name="cw_idle", size=2)
    t1.add_required_resource(w_busy)
    attempt(
        "idle worker",
        lambda: ps.ResourcePeriodicallyUnavailable(
            name="pu_idle", resource=w_idle, list_of_time_intervals=[(0, 1)], period=3
        ),
        mask,
    )
    attempt(
        "idle cumulative optional",
        lambda: ps.ResourcePeriodicallyUnavailable(
            name="pu_cw_idle",
            resource=cw_idle,
            list_of_time_intervals=[(0, 1), (1, 2)],
            period=3,
            optional=True,
        ),
        mask,
    )
    attempt(
        "busy worker but no interval",
        lambda: ps.ResourcePeriodicallyUnavailable(
            name="pu_busy_empty", resource=w_busy, list_of_time_intervals=[], period=3
        ),
        mask,
    )
    attempt(
        "idle worker and no interval",
        lambda: ps.ResourcePeriodicallyUnavailable(
            name="pu_idle_empty", resource=w_idle, list_of_time_intervals=[], period=3
        ),
        mask,
    )
    attempt(
        "same interval twice",
        lambda: ps.ResourcePeriodicallyUnavailable(
            name="pu_twice",
            resource=w_busy,
            list_of_time_intervals=[(0, 1), (0, 1)],
            period=3,
            start=2,
        ),
        mask,
    )
    attempt(
        "period 0",
        lambda: ps.ResourcePeriodicallyUnavailable(
            name="pu_p0", resource=w_busy, list_of_time_intervals=[(0, 1)], period=0
        ),
        mask,
    )
    attempt(
        "missing period",
        lambda: ps.ResourcePeriodicallyUnavailable(
            name="pu_nop", resource=w_busy, list_of_time_intervals=[(0, 1)]
        ),
        mask,
    )
    attempt(
        "same name again",
        lambda: ps.ResourcePeriodicallyUnavailable(
            name="pu_idle", resource=w_busy, list_of_time_intervals=[(0, 1)], period=3
        ),
        mask,
    )
    attempt(
        "well formed",
        lambda: ps.ResourcePeriodicallyUnavailable(
            name="pu_ok", resource=w_busy, list_of_time_intervals=[(0, 1)], period=3
        ),
        mask,
    )
    report(pb, mask, solve=False)


@scenario("PU4 infeasible periodic unavailability, no objective")
def _(mask):
    pb = ps.SchedulingProblem(name="pu4", horizon=6)
    t1 = ps.FixedDurationTask(name="t1", duration=3)
    w = ps.Worker(name="w")
    t1.add_required_resource(w)
    attempt(
        "pu",
        lambda: ps.ResourcePeriodicallyUnavailable(
            name="pu", resource=w, list_of_time_intervals=[(0, 1)], period=2
        ),
        mask,
    )
    report(pb, mask, objective=False)


@scenario("MIX WorkLoad + periodic unavailability + force apply")
def _(mask):
    pb = ps.SchedulingProblem(name="mix", horizon=12)
    t1 = ps.FixedDurationTask(name="t1", duration=3)
    t2 = ps.FixedDurationTask(name="t2", duration=2)
    w = ps.Worker(name="w")
    t1.add_required_resource(w)
    t2.add_required_resource(w)
    c1 = attempt(
        "wl",
        lambda: ps.WorkLoad(
            name="wl",
            resource=w,
            dict_time_intervals_and_bound={(0, 6): 2},
            kind="min",
            optional=True,
        ),
        mask,
    )
    c2 = attempt(
        "pu",
        lambda: ps.ResourcePeriodicallyUnavailable(
            name="pu",
            resource=w,
            list_of_time_intervals=[(0, 2)],
            period=6,
            optional=True,
        ),
        mask,
    )
    attempt(
        "force",
        lambda: ps.ForceApplyNOptionalConstraints(
            name="force", list_of_optional_constraints=[c1, c2], nb_constraints_to_apply=2
        ),
        mask,
    )
    report(pb, mask)
