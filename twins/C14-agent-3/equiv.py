"""Equivalence script for the C14 refactoring twin (problem.py: SchedulingProblem
registries / _store_unique helper / add_buffer / get_unique_negative_integer).

Prints a canonical description of each scenario: registry contents and order,
return values, errors raised with their messages, sorted solver assertions,
and solution values.  uuid-derived parts of names are masked.
"""
import contextlib
import io
import os
import re
import sys

sys.path.insert(0, os.getcwd())

import z3  # noqa: E402
import processscheduler as ps  # noqa: E402
import processscheduler.base  # noqa: E402


def mask(text):
    # uuid4().int is a ~38 digit integer; default names keep 8 digits of it
    text = re.sub(r"\d{20,}", "<UID>", str(text))
    text = re.sub(
        r"([A-Z][A-Za-z]+)_(\d{8})(?!\d)", lambda m: m.group(1) + "_<UID8>", text
    )
    return text


def registries(pb):
    out = []
    for reg_name in (
        "tasks",
        "workers",
        "select_workers",
        "cumulative_workers",
        "constraints",
        "indicators",
        "objectives",
    ):
        reg = getattr(pb, reg_name)
        out.append(
            f"  {reg_name}: "
            + mask([(k, type(v).__name__, v.name == k) for k, v in reg.items()])
        )
    out.append("  buffers: " + mask([(b.name, type(b).__name__) for b in pb.buffers]))
    out.append("  problem assertions: " + mask(sorted(map(str, pb.get_z3_assertions()))))
    out.append(f"  active is pb: {processscheduler.base.active_problem is pb}")
    return "\n".join(out)


def solve_and_describe(pb, **solver_kw):
    solver = ps.SchedulingSolver(problem=pb, **solver_kw)
    # the solver prints timings on stdout: swallow them
    with contextlib.redirect_stdout(io.StringIO()):
        solution = solver.solve()
    out = []
    assts = sorted(mask(str(a)) for a in solver._solver.assertions())
    out.append(f"  nb assertions: {len(assts)}")
    for a in assts:
        out.append("    " + a.replace("\n", " "))
    if not solution:
        out.append(f"  solution: {solution!r}")
        return "\n".join(out)
    out.append(f"  horizon: {solution.horizon}")
    for name in sorted(solution.tasks):
        t = solution.tasks[name]
        out.append(
            mask(
                f"  task {name}: scheduled={t.scheduled} start={t.start} end={t.end} "
                f"dur={t.duration} res={sorted(t.assigned_resources)}"
            )
        )
    for name in sorted(solution.resources):
        r = solution.resources[name]
        out.append(mask(f"  resource {name}: {sorted(r.assignments)}"))
    for name in sorted(solution.buffers):
        b = solution.buffers[name]
        out.append(
            mask(f"  buffer {name}: level={b.level} times={b.level_change_times}")
        )
    out.append(f"  indicators: {sorted(solution.indicators.items())}")
    return "\n".join(out)


def attempt(label, fn):
    try:
        res = fn()
        print(f"  {label}: returned {mask(repr(res)) if not hasattr(res, 'name') else 'obj ' + mask(res.name)}")
    except Exception as exc:  # pylint: disable=broad-except
        print(f"  {label}: raised {type(exc).__name__}: {mask(exc)}")


def scenario_1():
    """plain tasks, precedence, one worker, fixed horizon; duplicated names of
    every kind raise"""
    pb = ps.SchedulingProblem(name="S1", horizon=10)
    t1 = ps.FixedDurationTask(name="T1", duration=3)
    t2 = ps.FixedDurationTask(name="T2", duration=2)
    t0 = ps.ZeroDurationTask(name="T0")
    w = ps.Worker(name="W")
    t1.add_required_resource(w)
    t2.add_required_resource(w)
    ps.TaskPrecedence(task_before=t1, task_after=t2, name="prec")
    ps.TaskStartAt(task=t0, value=0, name="t0_at_0")
    attempt("dup task", lambda: ps.FixedDurationTask(name="T1", duration=1))
    attempt("dup zero task", lambda: ps.ZeroDurationTask(name="T2"))
    attempt("dup worker", lambda: ps.Worker(name="W"))
    attempt("dup constraint", lambda: ps.TaskStartAt(task=t1, value=4, name="prec"))
    attempt("add_task direct", lambda: pb.add_task(t1))
    attempt("add_resource_worker direct", lambda: pb.add_resource_worker(w))
    attempt("add_task no name attr", lambda: pb.add_task(12))
    print(registries(pb))
    print(solve_and_describe(pb))


def scenario_2():
    """no horizon, optional task and optional constraint, select workers,
    unique negative integers, makespan objective"""
    pb = ps.SchedulingProblem(name="S2")
    print("  unique ints:", [pb.get_unique_negative_integer() for _ in range(3)])
    t1 = ps.FixedDurationTask(name="A", duration=2)
    t2 = ps.FixedDurationTask(name="B", duration=2, optional=True)
    t3 = ps.VariableDurationTask(name="C", min_duration=0, max_duration=4)
    w1 = ps.Worker(name="W1", productivity=0)
    w2 = ps.Worker(name="W2", productivity=2)
    sw = ps.SelectWorkers(list_of_workers=[w1, w2], nb_workers_to_select=1, name="SW")
    t1.add_required_resource(sw)
    t3.add_required_resource(w2)
    ps.TaskStartAt(task=t2, value=1, optional=True, name="optc")
    ps.TasksDontOverlap(task_1=t1, task_2=t3, name="no")
    ps.ForceScheduleNOptionalTasks(list_of_optional_tasks=[t2], nb_tasks_to_schedule=1, name="force")
    attempt("dup select workers", lambda: ps.SelectWorkers(list_of_workers=[w1, w2], name="SW"))
    attempt("add_resource_select_workers direct", lambda: pb.add_resource_select_workers(sw))
    ps.ObjectiveMinimizeMakespan()
    attempt("dup objective", ps.ObjectiveMinimizeMakespan)
    print("  unique ints after:", pb.get_unique_negative_integer())
    print(registries(pb))
    print(solve_and_describe(pb))


def scenario_3():
    """cumulative workers, indicators with bounds, indicator objective"""
    pb = ps.SchedulingProblem(name="S3", horizon=8)
    ts = [ps.FixedDurationTask(name=f"t{i}", duration=2) for i in range(3)]
    cw = ps.CumulativeWorker(name="M", size=2, productivity=3)
    for t in ts:
        t.add_required_resource(cw)
    attempt("dup cumulative", lambda: ps.CumulativeWorker(name="M", size=3))
    attempt("cumulative clashing with sub worker", lambda: ps.CumulativeWorker(name="M", size=2))
    attempt("worker named like sub worker", lambda: ps.Worker(name="M_CumulativeWorker_1"))
    attempt("add_resource_cumulative_worker direct", lambda: pb.add_resource_cumulative_worker(cw))
    ind = ps.IndicatorFromMathExpression(
        name="sum_ends", expression=ts[0]._end + ts[1]._end + ts[2]._end, bounds=(0, 100)
    )
    attempt("dup indicator", lambda: ps.IndicatorFromMathExpression(name="sum_ends", expression=ts[0]._end))
    attempt("add_indicator direct (new object same name)", lambda: pb.add_indicator(ind))
    ps.IndicatorTarget(indicator=ind, value=12, name="target", optional=True)
    ps.ObjectiveMinimizeIndicator(target=ind, weight=2)
    attempt("dup objective", lambda: ps.ObjectiveMinimizeIndicator(target=ind))
    print(registries(pb))
    print(solve_and_describe(pb))


def scenario_4():
    """buffers: duplicated names, None/0 levels, load and unload"""
    pb = ps.SchedulingProblem(name="S4", horizon=12)
    t1 = ps.FixedDurationTask(name="t1", duration=3)
    t2 = ps.FixedDurationTask(name="t2", duration=3)
    b1 = ps.NonConcurrentBuffer(name="B1", initial_level=0)
    b2 = ps.ConcurrentBuffer(name="B2", final_level=0, lower_bound=0, upper_bound=9)
    attempt("dup buffer", lambda: ps.NonConcurrentBuffer(name="B1", initial_level=10))
    attempt("dup buffer other class", lambda: ps.ConcurrentBuffer(name="B2", initial_level=1))
    attempt("buffer no level", lambda: ps.NonConcurrentBuffer(name="B3"))
    attempt("add_buffer direct", lambda: pb.add_buffer(b1))
    attempt("default named buffer", lambda: ps.NonConcurrentBuffer(initial_level=2))
    ps.TaskStartAt(task=t1, value=2)
    ps.TaskLoadBuffer(task=t1, buffer=b1, quantity=4)
    ps.TaskUnloadBuffer(task=t2, buffer=b1, quantity=3)
    ps.TaskUnloadBuffer(task=t1, buffer=b2, quantity=5)
    print(registries(pb))
    print(solve_and_describe(pb))


def scenario_5():
    """earlier problems do not leak: same names reused in a second problem;
    default (uuid) names; symbolic horizon; infeasible problem"""
    pb_a = ps.SchedulingProblem(name="S5a", horizon=5)
    ps.FixedDurationTask(name="X", duration=6)
    ps.Worker(name="W")
    print(registries(pb_a))
    print(solve_and_describe(pb_a))
    pb_b = ps.SchedulingProblem(name="S5b", horizon=z3.Int("H") + 1)
    x = ps.FixedDurationTask(name="X", duration=1)
    anon = ps.FixedDurationTask(duration=1)
    w = ps.Worker(name="W")
    anon_w = ps.Worker()
    x.add_required_resource(w)
    anon.add_required_resource(anon_w)
    ps.ConstraintFromExpression(expression=z3.Int("H") == 3)
    ps.TaskEndBefore(task=x, value=2)
    print("  unique ints:", pb_a.get_unique_negative_integer(), pb_b.get_unique_negative_integer())
    print("  pb_a untouched:", list(pb_a.tasks), list(pb_a.workers), list(pb_a.constraints))
    print(registries(pb_b))
    print(solve_and_describe(pb_b))


def scenario_6():
    """declaration order and renaming: the same problem declared in two orders
    and under two namings; first order logic constraints; json round trip"""
    for names, order in (
        (("a", "b", "c", "w"), (0, 1, 2)),
        (("c", "a", "b", "z"), (2, 0, 1)),
    ):
        pb = ps.SchedulingProblem(name="S6", horizon=9)
        durations = (1, 2, 3)
        tasks = {}
        for i in order:
            tasks[i] = ps.FixedDurationTask(name=names[i], duration=durations[i], priority=i)
        w = ps.Worker(name=names[3])
        for i in sorted(tasks):
            tasks[i].add_required_resource(w)
        c1 = ps.TaskStartAt(task=tasks[0], value=0)
        c2 = ps.TaskStartAt(task=tasks[1], value=0)
        ps.Xor(constraint_1=c1, constraint_2=c2, name="xor")
        ps.Not(constraint=ps.TaskStartAt(task=tasks[2], value=1), name="not")
        attempt("dup fol", lambda: ps.Not(constraint=ps.TaskStartAt(task=tasks[2], value=2), name="xor"))
        ps.ObjectivePriorities()
        attempt("json worker", lambda: pb.add_from_json('{"name": "WJ", "type": "Worker", "productivity": 0}'))
        attempt("json dup worker", lambda: pb.add_from_json('{"name": "WJ", "type": "Worker"}'))
        attempt("json unknown", lambda: pb.add_from_json('{"name": "WJ", "type": "Nope"}'))
        print(registries(pb))
        print(solve_and_describe(pb))


def scenario_7():
    """no active problem; direct registration of foreign objects"""
    processscheduler.base.active_problem = None
    attempt("worker w/o problem", lambda: ps.Worker(name="W"))
    attempt("task w/o problem", lambda: ps.FixedDurationTask(name="T", duration=1))
    pb1 = ps.SchedulingProblem(name="S7a", horizon=4)
    t = ps.FixedDurationTask(name="T", duration=1)
    pb2 = ps.SchedulingProblem(name="S7b", horizon=4)
    attempt("foreign add_task", lambda: pb2.add_task(t))
    attempt("foreign add_task again", lambda: pb2.add_task(t))
    c = ps.TaskStartAt(task=t, value=0, name="c")
    attempt("add_constraint again", lambda: pb2.add_constraint(c))
    attempt("add_objective raw", lambda: pb2.add_objective(ps.ObjectiveMinimizeMakespan()))
    print(registries(pb1))
    print(registries(pb2))
    print(solve_and_describe(pb2))


if __name__ == "__main__":
    for scenario in (
        scenario_1,
        scenario_2,
        scenario_3,
        scenario_4,
        scenario_5,
        scenario_6,
        scenario_7,
    ):
        print(f"=== {scenario.__name__}: {' '.join(scenario.__doc__.split())}")
        try:
            scenario()
        except Exception as exc:  # pylint: disable=broad-except
            print(f"  SCENARIO RAISED {type(exc).__name__}: {mask(exc)}")
