"""Equivalence script for the refactoring of the buffer part of
SchedulingSolver.initialize (processscheduler/solver.py).

Each case builds a small problem around buffers, initializes the solver and
prints the sorted list of the solver assertions (also the unsorted sequence's
hash), then solves and prints the buffer solution - or the error raised."""
import contextlib
import hashlib
import io
import os
import re
import sys

sys.path.insert(0, os.getcwd())

import processscheduler as ps  # noqa: E402
from processscheduler.buffer import Buffer  # noqa: E402

assert ps.__file__.startswith(os.getcwd()), ps.__file__

UUID = re.compile(r"[0-9a-f]{8}(?:-?[0-9a-f]{4}){3}-?[0-9a-f]{12}|(?<=_)[0-9a-f]{8}\b")


def mask(text):
    return UUID.sub("<uid>", text)


def describe(label, build, debug=False):
    print("=" * 70)
    print(label)
    try:
        pb = build()
        solver = ps.SchedulingSolver(problem=pb, debug=debug, random_values=False)
        # the library prints timings; keep them out of the canonical output
        with contextlib.redirect_stdout(io.StringIO()):
            solver.initialize()
        in_order = [mask(str(a)) for a in solver._solver.assertions()]
        print("number of assertions:", len(in_order))
        print(
            "ordered digest:",
            hashlib.sha256("\n".join(in_order).encode()).hexdigest(),
        )
        for line in sorted(in_order):
            print("  A:", " ".join(line.split()))
        if debug:
            # assert_and_track names are random, the assertions are enough
            return
        with contextlib.redirect_stdout(io.StringIO()):
            solution = solver.solve()
        if not solution:
            print("solution:", solution)
        else:
            for name in sorted(solution.buffers):
                b = solution.buffers[name]
                print("  buffer", name, "levels", b.level, "times", b.level_change_times)
            for name in sorted(solution.tasks):
                t = solution.tasks[name]
                print("  task", name, t.start, t.end, t.scheduled)
    except Exception as exc:  # pylint: disable=broad-except
        print("ERROR:", type(exc).__name__, mask(str(exc)))


def case_nc_unload_load():
    pb = ps.SchedulingProblem(name="NCUnloadLoad", horizon=12)
    t1 = ps.FixedDurationTask(name="t1", duration=3)
    t2 = ps.FixedDurationTask(name="t2", duration=2)
    t3 = ps.FixedDurationTask(name="t3", duration=1)
    buf = ps.NonConcurrentBuffer(
        name="Buf", initial_level=10, final_level=9, lower_bound=0, upper_bound=20
    )
    ps.TaskStartAt(task=t1, value=5)
    ps.TaskStartAt(task=t2, value=0)
    ps.TaskStartAt(task=t3, value=9)
    ps.TaskUnloadBuffer(task=t1, buffer=buf, quantity=3)
    ps.TaskLoadBuffer(task=t2, buffer=buf, quantity=4)
    ps.TaskUnloadBuffer(task=t3, buffer=buf, quantity=2)
    return pb


def case_nc_same_instant_unsat():
    pb = ps.SchedulingProblem(name="NCSameInstant", horizon=10)
    t1 = ps.FixedDurationTask(name="t1", duration=3)
    t2 = ps.FixedDurationTask(name="t2", duration=3)
    buf = ps.NonConcurrentBuffer(name="Buf", initial_level=10)
    ps.TaskStartAt(task=t1, value=2)
    ps.TaskStartAt(task=t2, value=2)
    ps.TaskUnloadBuffer(task=t1, buffer=buf, quantity=3)
    ps.TaskUnloadBuffer(task=t2, buffer=buf, quantity=1)
    return pb


def case_c_same_instant():
    pb = ps.SchedulingProblem(name="CSameInstant", horizon=10)
    t1 = ps.FixedDurationTask(name="t1", duration=3)
    t2 = ps.FixedDurationTask(name="t2", duration=3)
    t3 = ps.FixedDurationTask(name="t3", duration=2)
    buf = ps.ConcurrentBuffer(name="Buf", initial_level=10, lower_bound=2)
    ps.TaskStartAt(task=t1, value=2)
    ps.TaskStartAt(task=t2, value=2)
    ps.TaskStartAt(task=t3, value=0)
    ps.TaskUnloadBuffer(task=t1, buffer=buf, quantity=3)
    ps.TaskUnloadBuffer(task=t2, buffer=buf, quantity=1)
    ps.TaskLoadBuffer(task=t3, buffer=buf, quantity=5)
    return pb


def case_c_load_and_unload_same_task():
    """one task both unloads (start) and loads (end) the same buffer, a second
    buffer is only fed; final level only; quantity 0"""
    pb = ps.SchedulingProblem(name="CSameTask", horizon=8)
    t1 = ps.FixedDurationTask(name="t1", duration=4)
    t2 = ps.FixedDurationTask(name="t2", duration=1)
    b1 = ps.ConcurrentBuffer(name="B1", initial_level=5, upper_bound=7)
    b2 = ps.ConcurrentBuffer(name="B2", final_level=6)
    ps.TaskStartAt(task=t1, value=1)
    ps.TaskStartAt(task=t2, value=5)
    ps.TaskUnloadBuffer(task=t1, buffer=b1, quantity=2)
    ps.TaskLoadBuffer(task=t1, buffer=b1, quantity=0)
    ps.TaskLoadBuffer(task=t2, buffer=b1, quantity=4)
    ps.TaskLoadBuffer(task=t1, buffer=b2, quantity=3)
    ps.TaskLoadBuffer(task=t2, buffer=b2, quantity=1)
    return pb


def case_c_quantity_zero():
    """a loading of quantity 0 at the instant of an unloading; final level only
    for the second buffer"""
    pb = ps.SchedulingProblem(name="CZero", horizon=8)
    t1 = ps.FixedDurationTask(name="t1", duration=4)
    t2 = ps.FixedDurationTask(name="t2", duration=1)
    t3 = ps.ZeroDurationTask(name="t3")
    b1 = ps.ConcurrentBuffer(name="B1", initial_level=5, upper_bound=7)
    b2 = ps.ConcurrentBuffer(name="B2", final_level=6)
    ps.TaskStartAt(task=t1, value=1)
    ps.TaskStartAt(task=t2, value=5)
    ps.TaskStartAt(task=t3, value=1)
    ps.TaskUnloadBuffer(task=t1, buffer=b1, quantity=2)
    ps.TaskLoadBuffer(task=t3, buffer=b1, quantity=0)
    ps.TaskLoadBuffer(task=t2, buffer=b1, quantity=4)
    ps.TaskLoadBuffer(task=t1, buffer=b2, quantity=3)
    ps.TaskUnloadBuffer(task=t2, buffer=b2, quantity=1)
    return pb


def case_nc_optional_and_bounds_unsat():
    pb = ps.SchedulingProblem(name="NCOptional", horizon=9)
    t1 = ps.FixedDurationTask(name="t1", duration=2, optional=True)
    t2 = ps.FixedDurationTask(name="t2", duration=2)
    t3 = ps.VariableDurationTask(name="t3", min_duration=1, max_duration=3)
    buf = ps.NonConcurrentBuffer(
        name="Buf", initial_level=0, final_level=4, lower_bound=0, upper_bound=6
    )
    ps.TaskLoadBuffer(task=t1, buffer=buf, quantity=3)
    ps.TaskLoadBuffer(task=t2, buffer=buf, quantity=3)
    ps.TaskUnloadBuffer(task=t3, buffer=buf, quantity=2)
    ps.TaskStartAt(task=t2, value=0)
    ps.TaskStartAt(task=t3, value=4)
    ps.ForceScheduleNOptionalTasks(list_of_optional_tasks=[t1], nb_tasks_to_schedule=1)
    ps.TaskEndAt(task=t1, value=8)
    return pb


def case_nc_lower_bound_violated():
    pb = ps.SchedulingProblem(name="NCLower", horizon=6)
    t1 = ps.FixedDurationTask(name="t1", duration=2)
    buf = ps.NonConcurrentBuffer(name="Buf", initial_level=1, lower_bound=0)
    ps.TaskUnloadBuffer(task=t1, buffer=buf, quantity=2)
    return pb


def case_empty_buffers():
    """buffers without any access, of the three classes"""
    pb = ps.SchedulingProblem(name="Empty", horizon=4)
    ps.FixedDurationTask(name="t1", duration=2)
    ps.NonConcurrentBuffer(name="B1", initial_level=3, final_level=3, lower_bound=3)
    ps.ConcurrentBuffer(name="B2", initial_level=0, upper_bound=0)
    Buffer(name="B3", final_level=1)
    return pb


def case_plain_buffer_with_accesses():
    """the base class used directly: sorted with duplicates, no level equations"""
    pb = ps.SchedulingProblem(name="Plain", horizon=7)
    t1 = ps.FixedDurationTask(name="t1", duration=2)
    t2 = ps.FixedDurationTask(name="t2", duration=3)
    buf = Buffer(name="Buf", initial_level=2, upper_bound=9)
    ps.TaskStartAt(task=t1, value=0)
    ps.TaskStartAt(task=t2, value=1)
    # the constraint classes only accept the two subclasses
    buf.add_unloading_task(t1, 1)
    buf.add_loading_task(t2, 2)
    # a quantity that cannot be negated is never looked at for the base class
    t3 = ps.FixedDurationTask(name="t3", duration=1)
    buf.add_unloading_task(t3, "three")
    return pb


def case_bad_quantity_concurrent():
    pb = ps.SchedulingProblem(name="BadQty", horizon=7)
    t1 = ps.FixedDurationTask(name="t1", duration=2)
    t2 = ps.FixedDurationTask(name="t2", duration=2)
    buf = ps.ConcurrentBuffer(name="Buf", initial_level=2)
    ps.TaskLoadBuffer(task=t1, buffer=buf, quantity=2)
    buf.add_unloading_task(t2, "three")
    return pb


def case_bad_quantity_non_concurrent():
    pb = ps.SchedulingProblem(name="BadQtyNC", horizon=7)
    t1 = ps.FixedDurationTask(name="t1", duration=2)
    t2 = ps.FixedDurationTask(name="t2", duration=2)
    buf = ps.NonConcurrentBuffer(name="Buf", initial_level=2)
    ps.TaskUnloadBuffer(task=t1, buffer=buf, quantity=2)
    buf.add_loading_task(t2, None)
    return pb


def case_two_buffers_transfer_with_objective():
    pb = ps.SchedulingProblem(name="Transfer", horizon=10)
    t1 = ps.FixedDurationTask(name="t1", duration=2)
    t2 = ps.FixedDurationTask(name="t2", duration=2)
    src = ps.NonConcurrentBuffer(name="Src", initial_level=6, lower_bound=0)
    dst = ps.ConcurrentBuffer(name="Dst", initial_level=0, final_level=6)
    for t in (t1, t2):
        ps.TaskUnloadBuffer(task=t, buffer=src, quantity=3)
        ps.TaskLoadBuffer(task=t, buffer=dst, quantity=3)
    ps.TaskPrecedence(task_before=t1, task_after=t2)
    ps.ObjectiveMinimizeMakespan()
    return pb


CASES = [
    ("nc unload/load, all bounds, final level", case_nc_unload_load, False),
    ("nc two accesses at the same instant (unsat)", case_nc_same_instant_unsat, False),
    ("concurrent, two accesses at the same instant", case_c_same_instant, False),
    ("concurrent, one task loads and unloads the same buffer, qty 0 (unsat)", case_c_load_and_unload_same_task, False),
    ("concurrent, quantity 0, zero duration task", case_c_quantity_zero, False),
    ("nc optional task, variable duration", case_nc_optional_and_bounds_unsat, False),
    ("nc lower bound violated (unsat)", case_nc_lower_bound_violated, False),
    ("buffers without access", case_empty_buffers, False),
    ("plain Buffer with accesses", case_plain_buffer_with_accesses, False),
    ("concurrent, quantity that cannot be negated", case_bad_quantity_concurrent, False),
    ("nc, quantity None for a loading", case_bad_quantity_non_concurrent, False),
    ("two buffers, transfer, makespan objective", case_two_buffers_transfer_with_objective, False),
    ("debug mode: nc unload/load", case_nc_unload_load, True),
    ("debug mode: concurrent same instant", case_c_same_instant, True),
]

if __name__ == "__main__":
    for label, build, debug in CASES:
        describe(label, build, debug)
