"""Equivalence script for the C14 refactoring (util.sort_no_duplicates,
indicator.Indicator.__init__ / _get_bound_assertions, IndicatorResourceIdle).

Run:  cd /tmp/t6_C14 && /venv/bin/python _twin/equiv.py > out.txt

Phase 1 declares every scenario and initialises a solver WITHOUT solving, and
prints the solver's assertions in the order they were added, with the raw names
of the z3 fresh variables (x!N, a process-wide counter: the number and the order
of the fresh variables created by the library is part of the output).
Phase 2 declares every scenario again, solves it and prints the assertions (the
fresh variables renumbered by first appearance, because z3 also draws from that
counter while it solves) and the determined part of the outcome: whether a
solution was found, and the values of the indicators that are optimised or
fixed by the constraints (the other values differ from one run to the next of
the very same code, the uuid based names change z3's search).  Errors are
printed in both phases.
The random parts of names (uuid digits in the z3 variable of an indicator
declared without a name, uuid of a SelectWorkers in its selection flags) are
masked.
"""
import contextlib
import io
import os
import re
import sys

sys.path.insert(0, os.getcwd())

import z3  # noqa: E402

import processscheduler as ps  # noqa: E402
from processscheduler.util import sort_no_duplicates  # noqa: E402


def mask(text):
    """an indicator without a given name is first called <Class>_<8 digits of its
    uuid>, and its z3 variable keeps that name: the digits are masked"""
    text = re.sub(r"(Indicator_Indicator[A-Za-z]+_)\d{1,8}", r"\1<uid>", text)
    return re.sub(r"(Selected_[A-Za-z0-9]+_)\d{20,}", r"\1<uid>", text)


def renumber_fresh(lines):
    """x!N -> f#k, k the rank of first appearance in the given lines"""
    ranks = {}

    def sub(match):
        return "f#%i" % ranks.setdefault(match.group(0), len(ranks))

    return [re.sub(r"x!\d+", sub, line) for line in lines]


SCENARIOS = []


def run(title, build, report=(), **solver_args):
    """register a scenario: build() declares a problem and returns it, report
    names the indicators whose value is determined"""
    SCENARIOS.append((title, build, tuple(report), solver_args))


def play(title, build, report, solver_args, solve):
    print(f"=== {title}")
    sink = io.StringIO()
    solution = None
    try:
        with contextlib.redirect_stdout(sink):
            problem = build(solve) if build is earlier_then_later else build()
            solver = ps.SchedulingSolver(problem=problem, **solver_args)
            solver.initialize()
            assertions = [
                mask(" ".join(str(a).split())) for a in solver._solver.assertions()
            ]
            if solve:
                solution = solver.solve()
    except Exception as exc:  # the error is part of the behaviour
        print(mask(f"ERROR {type(exc).__name__}: {exc}"))
        return
    print(f"{len(assertions)} assertions")
    for a in renumber_fresh(assertions) if solve else assertions:
        print("  " + a)
    if not solve:
        return
    print(f"  -> solution found: {bool(solution)}")
    if solution:
        print(f"  -> tasks: {sorted(solution.tasks)}")
        print(f"  -> resources: {sorted(solution.resources)}")
        print(f"  -> indicators: {sorted(solution.indicators)}")
        for name in report:
            print(f"  -> indicator {name} = {solution.indicators[name]}")


def attempt(title, thunk):
    print(f"=== {title}")
    try:
        result = thunk()
    except Exception as exc:
        print(f"ERROR {type(exc).__name__}: {exc}")
        return
    print(result)


# ---------------------------------------------------------------- scenarios
def sort_direct():
    """sort_no_duplicates called directly: 0, 1, 2, 3 values, constants, 0."""
    out = []
    x, y, zz = z3.Ints("x y z")
    for values in ([], [x], [x, y], [x, y, zz], [x, 0], [0], (y, x), [x, x]):
        sorted_vars, constraints = sort_no_duplicates(values)
        out.append(
            f"{values!r}: sorted={[str(v) for v in sorted_vars]} "
            f"constraints={[str(c) for c in constraints]}"
        )
    return "\n".join(out)


def sort_set_input():
    x, y = z3.Ints("x y")
    return sort_no_duplicates({x, y})


def sort_empty_set_input():
    return sort_no_duplicates(set())


def sort_string_value():
    x = z3.Int("x")
    return sort_no_duplicates([x, "a"])


def after_errors():
    """the fresh counter after the failing calls above"""
    return str(z3.FreshInt())


NO_BOUNDS = object()  # the bounds argument is left out


def bounds_problem(bounds, maximize=None, names=("t1", "t2"), horizon=10):
    def build():
        pb = ps.SchedulingProblem(name="Bounds", horizon=horizon)
        t_a = ps.FixedDurationTask(name=names[0], duration=2)
        t_b = ps.FixedDurationTask(name=names[1], duration=3)
        w = ps.Worker(name="w")
        t_a.add_required_resource(w)
        t_b.add_required_resource(w)
        extra = {} if bounds is NO_BOUNDS else {"bounds": bounds}
        ind = ps.IndicatorFromMathExpression(
            name="Ind", expression=t_a._start + t_b._start, **extra
        )
        if maximize is True:
            ps.ObjectiveMaximizeIndicator(name="obj", target=ind, weight=1)
        elif maximize is False:
            ps.ObjectiveMinimizeIndicator(name="obj", target=ind, weight=1)
        return pb

    return build


def idle_problem(
    n_tasks, optional=(), order=None, prefix="T", with_select=False, maximize=False
):
    """n_tasks tasks on one worker, IndicatorResourceIdle minimised/maximised."""

    def build():
        pb = ps.SchedulingProblem(name="Idle", horizon=12)
        w = ps.Worker(name="M")
        w2 = ps.Worker(name="N") if with_select else None
        indices = list(range(n_tasks)) if order is None else list(order)
        tasks = {}
        for i in indices:
            tasks[i] = ps.FixedDurationTask(
                name=f"{prefix}{i}", duration=i + 1, optional=i in optional
            )
        for i in indices:
            if with_select and i == 0:
                tasks[i].add_required_resource(
                    ps.SelectWorkers(
                        name="sel", list_of_workers=[w, w2], nb_workers_to_select=1
                    )
                )
            else:
                tasks[i].add_required_resource(w)
        for i in indices:
            if i > 0:
                ps.TaskStartAfter(
                    name=f"after{i}", task=tasks[i], value=3 * i
                )
        idle = ps.IndicatorResourceIdle(resource=w)
        if maximize:
            ps.ObjectiveMaximizeIndicator(name="maxidle", target=idle, weight=1)
        else:
            ps.ObjectiveMinimizeIndicator(name="minidle", target=idle, weight=1)
        return pb

    return build


def non_delay_and_contiguous(n_tasks, optional_last=False):
    def build():
        pb = ps.SchedulingProblem(name="NonDelay", horizon=15)
        w = ps.Worker(name="W")
        tasks = []
        for i in range(n_tasks):
            t = ps.FixedDurationTask(
                name=f"job{i}",
                duration=2,
                optional=optional_last and i == n_tasks - 1,
            )
            t.add_required_resource(w)
            tasks.append(t)
        ps.ResourceNonDelay(name="nd", resource=w)
        ps.TasksContiguous(name="contig", list_of_tasks=tasks)
        if n_tasks > 1:
            ps.ResourceTasksDistance(
                name="dist", resource=w, distance=0, mode="min"
            )
        ps.IndicatorResourceIdle(resource=w, bounds=(0, 0))
        return pb

    return build


def buffer_problem(reverse=False):
    def build():
        pb = ps.SchedulingProblem(name="Buf", horizon=10)
        b = ps.NonConcurrentBuffer(name="Tank", initial_level=5, lower_bound=0)
        names = ["load", "unload_a", "unload_b"]
        if reverse:
            names.reverse()
        tasks = {n: ps.FixedDurationTask(name=n, duration=2) for n in names}
        ps.TaskLoadBuffer(name="c_load", task=tasks["load"], buffer=b, quantity=3)
        ps.TaskUnloadBuffer(
            name="c_unload_a", task=tasks["unload_a"], buffer=b, quantity=4
        )
        ps.TaskUnloadBuffer(
            name="c_unload_b", task=tasks["unload_b"], buffer=b, quantity=4
        )
        ind = ps.IndicatorMaxBufferLevel(buffer=b, bounds=(0, 8))
        ps.ObjectiveMinimizeIndicator(name="o", target=ind, weight=1)
        return pb

    return build


def single_task_buffer():
    pb = ps.SchedulingProblem(name="Buf1", horizon=6)
    b = ps.NonConcurrentBuffer(name="B", initial_level=0, final_level=2)
    t = ps.ZeroDurationTask(name="feed")
    ps.TaskLoadBuffer(name="c", task=t, buffer=b, quantity=2)
    ps.IndicatorMinBufferLevel(buffer=b, bounds=(0, 2))
    return pb


def utilization_and_count():
    """indicators whose bounds attribute is set after construction (not asserted)
    next to bounded ones"""
    pb = ps.SchedulingProblem(name="Util", horizon=8)
    w = ps.Worker(name="R")
    t1 = ps.FixedDurationTask(
        name="a", duration=3, due_date=5, due_date_is_deadline=False
    )
    t2 = ps.FixedDurationTask(
        name="b", duration=1, optional=True, due_date=0, due_date_is_deadline=False
    )
    t1.add_required_resource(w)
    t2.add_required_resource(w)
    ps.IndicatorResourceUtilization(resource=w)
    nb = ps.IndicatorNumberTasksAssigned(resource=w, bounds=(2, 2))
    ps.IndicatorTardiness(bounds=(0, 7))
    ps.IndicatorEarliness(list_of_tasks=[t1], bounds=(1, 5))
    ps.ObjectiveMaximizeIndicator(name="o", target=nb, weight=1)
    return pb


def earlier_then_later(solve_first):
    """another problem built (and, in phase 2, solved) first must not change the
    later one, apart from the numbering of the fresh variables"""
    first = idle_problem(3)()
    first_solver = ps.SchedulingSolver(problem=first)
    if solve_first:
        first_solver.solve()
    else:
        first_solver.initialize()
    return idle_problem(2, optional=(1,))()


if __name__ == "__main__":
    attempt("sort_no_duplicates direct", sort_direct)
    attempt("sort_no_duplicates set input", sort_set_input)
    attempt("sort_no_duplicates empty set input", sort_empty_set_input)
    attempt("sort_no_duplicates string value", sort_string_value)
    attempt("fresh counter after errors", after_errors)

    ind = ["Ind"]
    run("bounds left out, minimize", bounds_problem(NO_BOUNDS, False), ind)
    run("bounds None given explicitly", bounds_problem(None))
    run("bounds (0, 10) maximize incremental", bounds_problem((0, 10), True), ind)
    run(
        "bounds (0, 10) maximize optimize",
        bounds_problem((0, 10), True),
        ind,
        optimizer="optimize",
    )
    run("bounds (0, 0) minimize", bounds_problem((0, 0), False), ind)
    run(
        "bounds (3, 3) renamed tasks",
        bounds_problem((3, 3), None, ("zz", "aa")),
        ind,
    )
    run("bounds (5, 3) infeasible", bounds_problem((5, 3)))
    run("bounds (-4, 2) minimize", bounds_problem((-4, 2), False), ind)
    run("bounds (4, 30) maximize", bounds_problem((4, 30), True), ind)
    run("bounds (None, 4)", bounds_problem((None, 4)))
    run("bounds (2, None)", bounds_problem((2, None)))
    run("bounds (1, 2, 3)", bounds_problem((1, 2, 3)))
    run("bounds 'ab'", bounds_problem("ab"))

    idle = ["ResourceIdleM"]
    run("idle 0 tasks", idle_problem(0), idle)
    run("idle 1 task", idle_problem(1), idle)
    run("idle 2 tasks", idle_problem(2), idle)
    run("idle 3 tasks", idle_problem(3), idle)
    run("idle 3 tasks permuted declaration", idle_problem(3, order=(2, 0, 1)), idle)
    run("idle 3 tasks renamed", idle_problem(3, prefix="Job_"), idle)
    run("idle 3 tasks, optional middle", idle_problem(3, optional=(1,)), idle)
    run("idle 3 tasks, select workers", idle_problem(3, with_select=True), idle)
    run(
        "idle 3 tasks optimize",
        idle_problem(3, optional=(0, 2)),
        idle,
        optimizer="optimize",
    )

    run("idle 3 tasks maximize", idle_problem(3, maximize=True), idle)
    run(
        "idle 3 tasks maximize, permuted and renamed",
        idle_problem(3, order=(1, 2, 0), prefix="Op", maximize=True),
        idle,
    )
    run(
        "idle 3 tasks maximize, optional middle, optimize",
        idle_problem(3, optional=(1,), maximize=True),
        idle,
        optimizer="optimize",
    )
    run(
        "idle 2 tasks maximize, select workers",
        idle_problem(2, with_select=True, maximize=True),
        idle,
    )

    idle_w = ["ResourceIdleW"]
    run("non delay / contiguous 1 task", non_delay_and_contiguous(1), idle_w)
    run("non delay / contiguous 2 tasks", non_delay_and_contiguous(2), idle_w)
    run(
        "non delay / contiguous 3 tasks opt", non_delay_and_contiguous(3, True), idle_w
    )

    tank = ["MaximizeBufferTankLevel"]
    run("buffer 3 tasks", buffer_problem(), tank)
    run("buffer 3 tasks reversed declaration", buffer_problem(reverse=True), tank)
    run("buffer single zero duration task", single_task_buffer, ["Mini B level"])
    run(
        "utilization and count",
        utilization_and_count,
        ["Nb Tasks Assigned (R)", "Utilization (R)"],
    )
    run("later problem after an earlier one", earlier_then_later, idle)
    run("same later problem again", idle_problem(2, optional=(1,)), idle)

    for phase, solve in (("PHASE 1: declare only", False), ("PHASE 2: solve", True)):
        print(f"##### {phase}")
        for scenario in SCENARIOS:
            play(*scenario, solve)
