"""Equivalence script for the C01 twin: exercises ZeroDurationTask / FixedDurationTask
construction and SchedulingProblem (__init__ horizon bound, add_task numbering,
get_unique_negative_integer) and prints a canonical description of every outcome.
Run from /tmp/t4_C01:  /venv/bin/python _twin/equiv.py
"""
import contextlib
import io
import os
import re
import sys

sys.path.insert(0, os.getcwd())

import z3  # noqa: E402

import processscheduler as ps  # noqa: E402
import processscheduler.base  # noqa: E402

assert os.path.dirname(os.path.dirname(ps.__file__)) == os.getcwd(), ps.__file__

UUID_RE = re.compile(r"(_)\d{8,}")


def mask(text):
    return UUID_RE.sub(r"\1########", text)


def task_assertions(task):
    """the assertions of a task, IN ORDER (the order is part of the description)"""
    return [mask(str(a)) for a in task.get_z3_assertions()]


def describe_problem(pb):
    out = []
    out.append("problem assertions: %s" % [mask(str(a)) for a in pb.get_z3_assertions()])
    out.append("unique integer counter: %r" % pb._unique_integer)
    out.append("horizon variable: %s / horizon field: %s" % (pb._horizon, pb.horizon))
    for nm, t in pb.tasks.items():
        out.append(
            "task %s (%s) number=%d scheduled=%s release_due=%s"
            % (
                mask(nm),
                type(t).__name__,
                t._task_number,
                mask(str(t._scheduled)),
                [mask(str(a)) for a in t._release_due_assertions],
            )
        )
        for a in task_assertions(t):
            out.append("    " + " ".join(a.split()))
    return out


def describe_solver(pb, **kw):
    out = []
    buf = io.StringIO()
    with contextlib.redirect_stdout(buf):
        solver = ps.SchedulingSolver(problem=pb, **kw)
        solution = solver.solve()
    out.append(
        "solver assertions (sorted): %s"
        % sorted(" ".join(mask(str(a)).split()) for a in solver._solver.assertions())
    )
    if not solution:
        out.append("solution: %r" % (solution,))
        return out
    out.append("solution horizon: %s" % (solution.horizon,))
    for nm in sorted(solution.tasks):
        ts = solution.tasks[nm]
        out.append(
            "  %s: start=%d end=%d duration=%d scheduled=%s optional=%s release=%s due=%s deadline=%s"
            % (
                mask(nm),
                ts.start,
                ts.end,
                ts.duration,
                ts.scheduled,
                ts.optional,
                ts.release_date,
                ts.due_date,
                ts.due_date_is_deadline,
            )
        )
    out.append("  indicators: %s" % sorted(solution.indicators.items()))
    return out


CASES = []


def case(fn):
    CASES.append(fn)
    return fn


@case
def c01_fixed_mandatory_plain_horizon():
    pb = ps.SchedulingProblem(name="c01", horizon=10)
    ps.FixedDurationTask(name="A", duration=3)
    ps.FixedDurationTask(name="B", duration=1, release_date=0, due_date=10)
    ps.FixedDurationTask(name="C", duration=4, release_date=2, due_date=9)
    return describe_problem(pb) + describe_solver(pb)


@case
def c02_zero_duration_mandatory_and_optional():
    pb = ps.SchedulingProblem(name="c02", horizon=5)
    ps.ZeroDurationTask(name="Z0")
    ps.ZeroDurationTask(name="Z1", optional=True)
    ps.ZeroDurationTask(name="Z2", release_date=3, due_date=4)
    ps.ZeroDurationTask(name="Z3", optional=True, release_date=5, due_date=5)
    ps.ZeroDurationTask(name="Z4", release_date=0, due_date=0)
    return describe_problem(pb) + describe_solver(pb)


@case
def c03_fixed_optional_forced_and_not():
    pb = ps.SchedulingProblem(name="c03", horizon=7)
    a = ps.FixedDurationTask(name="A", duration=2, optional=True)
    b = ps.FixedDurationTask(
        name="B", duration=3, optional=True, release_date=1, due_date=6
    )
    ps.FixedDurationTask(name="C", duration=7, optional=True, due_date=7)
    ps.FixedDurationTask(
        name="D", duration=2, due_date=1, due_date_is_deadline=False, release_date=4
    )
    ps.ForceScheduleNOptionalTasks(list_of_optional_tasks=[a, b], nb_tasks_to_schedule=2)
    return describe_problem(pb) + describe_solver(pb)


@case
def c04_no_horizon_with_makespan_objective():
    pb = ps.SchedulingProblem(name="c04")
    t1 = ps.FixedDurationTask(name="T1", duration=2, release_date=3)
    t2 = ps.FixedDurationTask(name="T2", duration=5)
    z = ps.ZeroDurationTask(name="Z", release_date=1)
    v = ps.VariableDurationTask(name="V", min_duration=1, max_duration=4)
    ps.TaskPrecedence(task_before=t1, task_after=t2)
    ps.TaskPrecedence(task_before=t2, task_after=z)
    ps.TaskPrecedence(task_before=z, task_after=v)
    ps.ObjectiveMinimizeMakespan()
    return describe_problem(pb) + describe_solver(pb)


@case
def c05_symbolic_horizon():
    h = z3.Int("my_horizon")
    pb = ps.SchedulingProblem(name="c05", horizon=h)
    ps.FixedDurationTask(name="A", duration=6)
    pb.append_z3_assertion(h <= 8)
    return describe_problem(pb) + describe_solver(pb)


@case
def c06_workers_select_and_unique_integers():
    pb = ps.SchedulingProblem(name="c06", horizon=12)
    w1 = ps.Worker(name="W1")
    w2 = ps.Worker(name="W2")
    w3 = ps.Worker(name="W3")
    first = [pb.get_unique_negative_integer() for _ in range(3)]
    a = ps.FixedDurationTask(name="A", duration=4, release_date=1)
    b = ps.FixedDurationTask(name="B", duration=4, optional=True, due_date=11)
    z = ps.ZeroDurationTask(name="Z", optional=True)
    a.add_required_resource(ps.SelectWorkers(list_of_workers=[w1, w2], nb_workers_to_select=1))
    b.add_required_resource(
        ps.SelectWorkers(list_of_workers=[w1, w2, w3], nb_workers_to_select=2, kind="min")
    )
    z.add_required_resource(w3)
    a.add_required_resource(w3, delay_in=1, early_out=1)
    out = ["first unique integers: %s" % first]
    out.append("next unique integer: %d" % pb.get_unique_negative_integer())
    return out + describe_problem(pb) + describe_solver(pb)


@case
def c07_infeasible_deadline():
    pb = ps.SchedulingProblem(name="c07", horizon=4)
    ps.FixedDurationTask(name="A", duration=3, release_date=2, due_date=4)
    ps.ZeroDurationTask(name="Z", release_date=5)
    return describe_problem(pb) + describe_solver(pb)


@case
def c08_errors():
    out = []
    # no active problem
    saved = processscheduler.base.active_problem
    processscheduler.base.active_problem = None
    for cls, kw in ((ps.FixedDurationTask, {"duration": 1}), (ps.ZeroDurationTask, {})):
        try:
            cls(name="orphan", **kw)
            out.append("no error")
        except BaseException as e:  # noqa: BLE001
            out.append("%s: %s" % (type(e).__name__, e))
    processscheduler.base.active_problem = saved
    pb = ps.SchedulingProblem(name="c08", horizon=3)
    ps.FixedDurationTask(name="A", duration=1)
    attempts = [
        (ps.FixedDurationTask, {"name": "A", "duration": 2}),  # duplicated name
        (ps.ZeroDurationTask, {"name": "A"}),  # duplicated name
        (ps.FixedDurationTask, {"name": "B", "duration": 0}),  # not positive
        (ps.FixedDurationTask, {"name": "B2", "duration": -1}),
        (ps.FixedDurationTask, {"name": "B3"}),  # missing
        (ps.FixedDurationTask, {"name": "B4", "duration": 1.5}),
        (ps.ZeroDurationTask, {"name": "C", "duration": 1}),  # literal 0 only
        (ps.ZeroDurationTask, {"name": "C2", "optional": 1}),  # strict bool
        (ps.FixedDurationTask, {"name": "C3", "duration": 1, "foo": 1}),  # extra
    ]
    for cls, kw in attempts:
        try:
            t = cls(**kw)
            out.append("created %s number %d" % (t.name, t._task_number))
        except BaseException as e:  # noqa: BLE001
            msg = re.sub(r"\s+For further information.*", "", str(e))
            out.append("%s: %s" % (type(e).__name__, " | ".join(msg.splitlines())))
    # what is registered after the failed attempts
    out.append("registered: %s" % list(pb.tasks))
    ok = ps.FixedDurationTask(name="D", duration=2, optional=True)
    out.append("D number %d" % ok._task_number)
    # problem creation errors
    for kw in ({"horizon": 0}, {"horizon": -3}, {"horizon": "x"}, {"horizon": 2.5}):
        try:
            p = ps.SchedulingProblem(name="bad", **kw)
            out.append("created horizon=%r %s" % (p.horizon, p.get_z3_assertions()))
        except BaseException as e:  # noqa: BLE001
            msg = re.sub(r"\s+For further information.*", "", str(e))
            out.append("%s: %s" % (type(e).__name__, " | ".join(msg.splitlines())))
    processscheduler.base.active_problem = pb
    # adding the same task object a second time through the problem API
    try:
        pb.add_task(ok)
    except BaseException as e:  # noqa: BLE001
        out.append("%s: %s" % (type(e).__name__, e))
    return out + describe_problem(pb) + describe_solver(pb)


@case
def c09_two_problems_and_unnamed_tasks():
    pb1 = ps.SchedulingProblem(name="c09a", horizon=6)
    ps.FixedDurationTask(duration=2)
    ps.ZeroDurationTask(optional=True)
    pb2 = ps.SchedulingProblem(name="c09b")
    ps.ZeroDurationTask(name="only", due_date=0)
    out = describe_problem(pb1) + describe_problem(pb2)
    out.append("tasks dicts are distinct: %s" % (pb1.tasks is not pb2.tasks))
    return out + describe_solver(pb2)


@case
def c10_json_round_trip_and_optimize_solver():
    pb = ps.SchedulingProblem(name="c10", horizon=9)
    t = pb.add_from_json(
        '{"name": "J1", "type": "FixedDurationTask", "duration": 3, "release_date": 2, "due_date": 8, "optional": true}'
    )
    z = pb.add_from_json('{"name": "J2", "type": "ZeroDurationTask", "release_date": 1}')
    out = ["json objects: %s %s" % (type(t).__name__, type(z).__name__)]
    out.append("json tasks registered: %s" % list(pb.tasks))
    ps.FixedDurationTask(name="P", duration=3, priority=5, due_date=9)
    ps.ObjectiveMinimizeMakespan()
    return out + describe_problem(pb) + describe_solver(pb, optimizer="optimize")


def main():
    for fn in CASES:
        print("=" * 8, fn.__name__)
        try:
            lines = fn()
        except BaseException as e:  # noqa: BLE001
            lines = ["CASE RAISED %s: %s" % (type(e).__name__, e)]
        for line in lines:
            print(line)


if __name__ == "__main__":
    main()
