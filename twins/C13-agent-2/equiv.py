"""Equivalence script for the C13 twin: exercises SchedulingSolver.create_objective,
check_sat and solve through repeated / mixed calls and prints canonical outcomes."""
import contextlib
import io
import os
import re
import sys
import tempfile
import warnings

sys.path.insert(0, os.getcwd())

import z3  # noqa: E402
import processscheduler as ps  # noqa: E402

assert os.path.dirname(os.path.dirname(os.path.abspath(ps.__file__))) == os.getcwd()


def mask(text):
    text = re.sub(r"asst_[0-9a-f]{8}", "asst_XXXXXXXX", text)
    # random uid parts of generated names
    text = re.sub(r"Selected_(\w+?)_[0-9]{6,}", r"Selected_\1_UID", text)
    text = re.sub(r"\b([A-Z][A-Za-z]+)_[0-9a-f]{8}\b", r"\1_UID", text)
    text = re.sub(r"\d+\.\d+s", "T.s", text)
    text = re.sub(r"[0-9a-f]{8}-[0-9a-f]{4}-[0-9a-f]{4}-[0-9a-f]{4}-[0-9a-f]{12}", "UUID", text)
    text = re.sub(r"[0-9a-f]{32}", "UUID", text)
    return text


def describe(sol):
    if sol is False or sol is None or sol is True:
        return repr(sol)
    parts = []
    for name in sorted(sol.tasks):
        t = sol.tasks[name]
        parts.append(
            f"{name}:{t.start}-{t.end}/d{t.duration}/s{t.scheduled}/{sorted(t.assigned_resources)}"
        )
    for name in sorted(sol.resources):
        parts.append(f"R {name}:{sorted(sol.resources[name].assignments)}")
    for name in sorted(sol.indicators):
        parts.append(f"I {name}={sol.indicators[name]}")
    parts.append(f"H {sol.horizon}")
    return " | ".join(parts)


def assertions_of(solver):
    if solver._solver is None:
        return "no z3 solver"
    return sorted(mask(str(a)) for a in solver._solver.assertions())


# lines that describe the path z3 happened to follow (not reproducible from one
# run to the next, even with the very same code): intermediate incumbents
NOISE = ("\tFound value:", "\tChecking better value", "\ttotal number of iterations")


def call(label, fn, *args, check=None, **kwargs):
    """call fn, capture stdout + warnings, print a canonical line.
    check: if the solution is not unique (z3 picks an arbitrary model), a predicate
    over the solution that is printed instead of the values."""
    buf = io.StringIO()
    with warnings.catch_warnings(record=True) as caught:
        warnings.simplefilter("always")
        with contextlib.redirect_stdout(buf):
            try:
                res = fn(*args, **kwargs)
                outcome = res
                err = None
            except Exception as exc:  # pylint: disable=broad-except
                outcome = None
                err = f"{type(exc).__name__}: {exc}"
    if err is not None:
        print(f"  [{label}] ERROR {mask(err)}")
    elif isinstance(outcome, tuple):
        print(f"  [{label}] tuple {outcome[0]!r}")
    elif check is not None and outcome:
        print(f"  [{label}] arbitrary model, valid schedule: {check(outcome)}")
    else:
        print(f"  [{label}] {describe(outcome)}")
    for w in caught:
        print(f"  [{label}] WARNING {' '.join(str(w.message).split())}")
    out = mask(buf.getvalue())
    for line in out.splitlines():
        if line.startswith(NOISE) or (check is not None and "Value : " in line):
            continue
        if line.strip():
            print(f"      > {line.rstrip()}")
    return outcome


def export(solver):
    with tempfile.TemporaryDirectory() as tmp:
        fn = os.path.join(tmp, "x.smt2")
        solver.export_to_smt2(fn)
        with open(fn, encoding="utf-8") as f:
            content = f.read()
    return "smt2:%d lines, %d asserts" % (
        len(content.splitlines()),
        content.count("(assert"),
    )


def export_call(label, solver):
    buf = io.StringIO()
    with contextlib.redirect_stdout(buf):
        try:
            r = export(solver)
        except Exception as exc:  # pylint: disable=broad-except
            r = f"ERROR {type(exc).__name__}: {exc}"
    print(f"  [{label}] {r}")
    for line in mask(buf.getvalue()).splitlines():
        if line.strip():
            print(f"      > {line.rstrip()}")


def dump_assertions(label, solver):
    a = assertions_of(solver)
    print(f"  [{label}] assertions ({len(a) if isinstance(a, list) else a}):")
    if isinstance(a, list):
        for x in a:
            print("      " + " ".join(x.split()))


def header(title):
    print("=" * 70)
    print(title)


#
# problem builders
#
def pb_two_tasks(name, horizon=20):
    pb = ps.SchedulingProblem(name=name, horizon=horizon)
    t1 = ps.FixedDurationTask(name="task1", duration=3)
    t2 = ps.FixedDurationTask(name="task2", duration=3)
    ps.ConstraintFromExpression(expression=t1._end == 20 - t2._start)
    return pb, t1, t2


def pb_workers(name, horizon=None, optional=True):
    if horizon is None:
        pb = ps.SchedulingProblem(name=name)
    else:
        pb = ps.SchedulingProblem(name=name, horizon=horizon)
    t1 = ps.FixedDurationTask(name="t1", duration=2)
    t2 = ps.FixedDurationTask(name="t2", duration=3, optional=optional)
    t3 = ps.VariableDurationTask(name="t3", min_duration=0, max_duration=4)
    t0 = ps.ZeroDurationTask(name="t0")
    w1 = ps.Worker(name="w1")
    w2 = ps.Worker(name="w2")
    t1.add_required_resource(w1)
    t2.add_required_resource(w1)
    t3.add_required_resource(ps.SelectWorkers(list_of_workers=[w1, w2], nb_workers_to_select=1))
    ps.TaskPrecedence(task_before=t1, task_after=t3)
    ps.TaskPrecedence(task_before=t0, task_after=t1)
    return pb, (t0, t1, t2, t3), (w1, w2)


#
# Case 1: plain satisfiability problem, mixed call order
#
header("CASE 1 - no objective, export/solve/solve/another/another/export")
pb, tasks, workers = pb_workers("c1", horizon=8, optional=True)
s = ps.SchedulingSolver(problem=pb)
call("another-before-solve", s.find_another_solution)
call("params-before-init", s.get_parameters_description)
export_call("export0", s)
dump_assertions("after-init", s)
call("solve1", s.solve)
call("solve2", s.solve)
call("another1", s.find_another_solution)
call("another2", s.find_another_solution)
call("another-var", s.find_another_solution_for_variable, tasks[1]._start)
call("solve3", s.solve)
export_call("export1", s)
call("check_sat", s.check_sat)
call("check_sat_better", s.check_sat, True)
print("  flags", s._is_not_optimization_problem, s._is_optimization_problem,
      s._is_multi_objective_optimization_problem, s._objective)

#
# Case 2: single objective, incremental, minimise makespan, optional task
#
for optional in (True, False):
    header(f"CASE 2 - single objective incremental minimize, optional={optional}")
    pb, tasks, workers = pb_workers(f"c2_{optional}", horizon=None, optional=optional)
    ps.ObjectiveMinimizeMakespan()
    s = ps.SchedulingSolver(problem=pb)
    call("init", s.initialize)
    print("  objective", s._objective.name, s._objective.kind, type(s._solver).__name__)
    dump_assertions("after-init", s)
    call("solve1", s.solve)
    n1 = len(s._solver.assertions())
    call("solve2", s.solve)
    print("  same number of assertions after resolve:", n1 == len(s._solver.assertions()))
    call("another1", s.find_another_solution)
    call("another2", s.find_another_solution)
    export_call("export", s)
    dump_assertions("end", s)

#
# Case 3: single objective, z3 Optimize, maximize and minimize
#
for kind in ("maximize", "minimize"):
    for prio in ("pareto", "lex", "box", "weight"):
        header(f"CASE 3 - single objective optimizer=optimize kind={kind} priority={prio}")
        pb, t1, t2 = pb_two_tasks(f"c3_{kind}_{prio}")
        ind = ps.IndicatorFromMathExpression(name="Task1End", expression=t1._end)
        ps.Objective(name="Obj", target=ind, kind=kind)
        s = ps.SchedulingSolver(problem=pb, optimizer="optimize", optimize_priority=prio)
        export_call("export0", s)
        print("  objective", s._objective.name, type(s._solver).__name__)
        print("  z3 objectives", [str(o) for o in s._solver.objectives()])
        call("solve1", s.solve)
        call("solve2", s.solve)
        call("another1", s.find_another_solution)
        dump_assertions("end", s)

#
# Case 4: single objective incremental, maximize, with max_iter and bounds
#
for max_iter in (None, 1, 0):
    header(f"CASE 4 - single objective incremental maximize max_iter={max_iter}")
    pb, t1, t2 = pb_two_tasks(f"c4_{max_iter}")
    ind = ps.IndicatorFromMathExpression(name="Task1End", expression=t1._end)
    ps.Objective(name="Obj", target=ind, kind="maximize")
    if max_iter is None:
        s = ps.SchedulingSolver(problem=pb)
    else:
        s = ps.SchedulingSolver(problem=pb, max_iter=max_iter)
    call("solve1", s.solve)
    call("solve2", s.solve)
    call("another1", s.find_another_solution)
    call("another-var", s.find_another_solution_for_variable, t2._start)
    dump_assertions("end", s)

header("CASE 4b - bounded indicator, raw z3 target, horizon 1")
pb = ps.SchedulingProblem(name="c4b", horizon=6)
ta = ps.FixedDurationTask(name="ta", duration=2)
tb = ps.ZeroDurationTask(name="tb")
ind = ps.IndicatorFromMathExpression(name="TaStart", expression=ta._start, bounds=(0, 4))
ps.ObjectiveMinimizeIndicator(name="MinTaStart", target=ind)
s = ps.SchedulingSolver(problem=pb)
call("solve1", s.solve)
call("solve2", s.solve)
call("another1", s.find_another_solution)
pb = ps.SchedulingProblem(name="c4c", horizon=1)
tb = ps.ZeroDurationTask(name="tb")
ps.Objective(name="RawTarget", target=tb._start, kind="maximize")
s = ps.SchedulingSolver(problem=pb)
call("solve1", s.solve)
call("another1", s.find_another_solution)
call("another2", s.find_another_solution)
dump_assertions("end", s)

#
# Case 5: multi objective, every optimizer/priority combination
#
for optimizer in ("incremental", "optimize"):
    for prio in ("pareto", "lex", "box", "weight"):
        for kinds, weights in ((("maximize", "maximize"), (1, 1)),
                               (("minimize", "maximize"), (2, 0)),
                               (("minimize", "minimize"), (0, 3))):
            header(f"CASE 5 - multi objective optimizer={optimizer} priority={prio} kinds={kinds} weights={weights}")
            pb, t1, t2 = pb_two_tasks(f"c5_{optimizer}_{prio}")
            i1 = ps.IndicatorFromMathExpression(name="Task1End", expression=t1._end)
            i2 = ps.IndicatorFromMathExpression(name="Task2End", expression=t2._end)
            ps.Objective(name="O1", target=i1, kind=kinds[0], weight=weights[0])
            ps.Objective(name="O2", target=i2, kind=kinds[1], weight=weights[1])
            s = ps.SchedulingSolver(problem=pb, optimizer=optimizer, optimize_priority=prio)
            call("init", s.initialize)
            print("  objective", None if s._objective is None else (s._objective.name, s._objective.kind),
                  type(s._solver).__name__, sorted(pb.objectives))
            if isinstance(s._solver, z3.Optimize):
                print("  z3 objectives", [str(o) for o in s._solver.objectives()])
            nb = 6 if (optimizer == "optimize" and prio == "pareto") else 2
            for i in range(nb):
                call(f"solve{i + 1}", s.solve)
            call("another1", s.find_another_solution)
            export_call("export", s)
            dump_assertions("end", s)

#
# Case 6: infeasible problems, with and without debug, with and without objective
#
for debug in (False, True):
    for with_obj in (False, True):
        for optimizer in ("incremental", "optimize"):
            header(f"CASE 6 - infeasible debug={debug} objective={with_obj} optimizer={optimizer}")
            pb = ps.SchedulingProblem(name=f"c6_{debug}_{with_obj}", horizon=4)
            ta = ps.FixedDurationTask(name="ta", duration=3)
            tb = ps.FixedDurationTask(name="tb", duration=3)
            w = ps.Worker(name="w")
            ta.add_required_resource(w)
            tb.add_required_resource(w)
            ps.TaskStartAt(task=ta, value=0)
            if with_obj:
                ps.ObjectiveMinimizeMakespan()
            s = ps.SchedulingSolver(problem=pb, debug=debug, optimizer=optimizer)
            call("solve1", s.solve)
            call("solve2", s.solve)
            call("another", s.find_another_solution)
            call("check_sat", s.check_sat)
            call("check_sat_better", s.check_sat, find_better_value=True)
            call("check_sat_none", s.check_sat, None)
            print("  nb assertions", len(s._solver.assertions()))
# reset the global z3 options changed by debug mode
ps.SchedulingSolver(problem=pb, debug=False)

header("CASE 6b - feasible in debug mode (assert_and_track), incremental")
pb, tasks, workers = pb_workers("c6b", horizon=9, optional=True)
ps.ObjectiveMinimizeMakespan()
s = ps.SchedulingSolver(problem=pb, debug=True)
buf = io.StringIO()
with contextlib.redirect_stdout(buf):
    r1 = s.solve()
    r2 = s.solve()
    r3 = s.find_another_solution()
print("  ", describe(r1))
print("  ", describe(r2))
print("  ", describe(r3))
kept = [l for l in mask(buf.getvalue()).splitlines()
        if l.startswith("\tFound") or l.startswith("\tChecking") or "optimum" in l or "better" in l
        or l.startswith("\tvalue") or l.startswith("\ttotal")]
for l in kept:
    print("      >", l)
ps.SchedulingSolver(problem=pb, debug=False)

#
# Case 7: odd direct calls on create_objective / attributes changed after construction
#
header("CASE 7 - direct calls and attributes modified after construction")
pb, t1, t2 = pb_two_tasks("c7a")
s = ps.SchedulingSolver(problem=pb)
call("create_objective no objective, no init", s.create_objective)
s = ps.SchedulingSolver(problem=pb, optimizer="optimize")
call("create_objective no objective, optimize", s.create_objective)

for kind in ("minimize", "maximize"):
    pb, t1, t2 = pb_two_tasks("c7b")
    ps.Objective(name="O1", target=t1._end, kind=kind)
    s = ps.SchedulingSolver(problem=pb, optimizer="optimize")
    call(f"create_objective uninitialised optimize {kind}", s.create_objective)
    print("  objective", s._objective.name)
    s = ps.SchedulingSolver(problem=pb)
    call(f"create_objective uninitialised incremental {kind}", s.create_objective)
    print("  objective", s._objective.name)
    call("solve", s.solve)
    # bogus kind set after construction: nothing is handed to z3
    pb.objectives["O1"].kind = "neither"
    s = ps.SchedulingSolver(problem=pb, optimizer="optimize")
    call(
        "solve bogus kind optimize",
        s.solve,
        check=lambda sol: sol.tasks["task1"].end == 20 - sol.tasks["task2"].start
        and sol.tasks["task1"].end - sol.tasks["task1"].start == 3
        and 0 <= sol.tasks["task1"].start
        and sol.tasks["task2"].end <= 20,
    )
    print("  z3 objectives", [str(o) for o in s._solver.objectives()])
    s = ps.SchedulingSolver(problem=pb)
    call("solve bogus kind incremental", s.solve)
    call("solve again", s.solve)

for bogus_optimizer, prio in (("neither", "pareto"), ("neither", "weight"), ("incremental", "lex")):
    pb, t1, t2 = pb_two_tasks("c7c")
    ps.Objective(name="O1", target=t1._end, kind="maximize")
    ps.Objective(name="O2", target=t2._end, kind="minimize")
    s = ps.SchedulingSolver(problem=pb, optimizer="optimize", optimize_priority=prio)
    call("init", s.initialize)
    s.optimizer = bogus_optimizer
    call(f"create_objective again optimizer={bogus_optimizer} prio={prio}", s.create_objective)
    print("  z3 objectives", [str(o) for o in s._solver.objectives()])
    print("  objective", None if s._objective is None else s._objective.name, sorted(pb.objectives))
    call("solve", s.solve)
    dump_assertions("end", s)

    pb, t1, t2 = pb_two_tasks("c7d")
    ps.Objective(name="O1", target=t1._end, kind="maximize")
    ps.Objective(name="O2", target=t2._end, kind="minimize")
    s = ps.SchedulingSolver(problem=pb, optimize_priority=prio)
    s.optimizer = bogus_optimizer
    call(f"solve with optimizer={bogus_optimizer} from the start prio={prio}", s.solve)
    call("solve again", s.solve)
    print("  solver", type(s._solver).__name__, None if s._objective is None else s._objective.name)

# multi objective, switch to incremental after an optimize initialisation
pb, t1, t2 = pb_two_tasks("c7e")
ps.Objective(name="O1", target=t1._end, kind="maximize")
ps.Objective(name="O2", target=t2._end, kind="minimize")
s = ps.SchedulingSolver(problem=pb, optimizer="optimize", optimize_priority="lex")
call("init", s.initialize)
s.optimizer = "incremental"
call("solve after switching to incremental", s.solve)

#
# Case 8: buffers and resource constraints, optimisation then other solutions
#
header("CASE 8 - buffer problem, incremental, repeated calls")
pb = ps.SchedulingProblem(name="c8", horizon=12)
tl = ps.FixedDurationTask(name="load", duration=2)
tu = ps.FixedDurationTask(name="unload", duration=2, optional=True)
buff = ps.NonConcurrentBuffer(name="Buff", initial_level=0, lower_bound=0)
ps.TaskLoadBuffer(task=tl, buffer=buff, quantity=3)
ps.TaskUnloadBuffer(task=tu, buffer=buff, quantity=2)
ps.ObjectiveMinimizeMakespan()
s = ps.SchedulingSolver(problem=pb)
r = call("solve1", s.solve)
if r:
    print("  buffer", {k: (v.level, v.level_change_times) for k, v in r.buffers.items()})
call("solve2", s.solve)
call("another1", s.find_another_solution)
call("another2", s.find_another_solution)
call("solve3", s.solve)
dump_assertions("end", s)
