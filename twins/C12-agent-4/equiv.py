"""Equivalence script for the C12 twin: exercises Task.__init__ / Task.set_assertions
(release / due dates, optional tasks moved to the past) through solve(),
find_another_solution() and find_another_solution_for_variable()."""
import contextlib
import io
import os
import re
import sys

sys.path.insert(0, os.getcwd())

import processscheduler as ps  # noqa: E402

assert os.path.dirname(ps.__file__).startswith(os.getcwd()), ps.__file__


def mask(s):
    # mask the random parts of names, and normalise the white spaces of the
    # z3 pretty printer (line breaks depend on the random names)
    return re.sub(r"\s+", " ", re.sub(r"[0-9a-f]{8,}", "<ID>", s))


def task_assertions(pb):
    out = []
    for t in pb.tasks.values():
        out.append((t.name, [str(a) for a in t.get_z3_assertions()], str(t._scheduled)))
    return out


def sol_key(sol):
    return tuple(
        (n, t.start, t.end, t.duration, t.scheduled, tuple(t.assigned_resources))
        for n, t in sorted(sol.tasks.items())
    )


def quiet(f, *a, **k):
    buf = io.StringIO()
    with contextlib.redirect_stdout(buf):
        return f(*a, **k)


def enumerate_all(solver, limit=200):
    visited = []
    sol = quiet(solver.solve)
    while sol and len(visited) < limit:
        visited.append(sol_key(sol))
        sol = quiet(solver.find_another_solution)
    return visited, sol


def report(title, build, limit=200, **solver_kw):
    print("=" * 70)
    print(title)
    try:
        pb = build()
        for name, assts, sched in task_assertions(pb):
            print("  task", name, "scheduled-var:", sched)
            for a in assts:
                print("     ", mask(a).replace("\n", " "))
        solver = ps.SchedulingSolver(problem=pb, **solver_kw)
        visited, last = enumerate_all(solver, limit)
        print("  nb visited:", len(visited), "distinct:", len(set(visited)), "last:", last)
        for v in visited:
            print("   ", v)
        print("  sorted:", sorted(set(visited)) == sorted(visited))
        print("  solver assertions:")
        for a in sorted(mask(str(x)).replace("\n", " ") for x in solver._solver.assertions()):
            print("     ", a)
    except Exception as e:  # noqa
        print("  ERROR", type(e).__name__, mask(str(e).splitlines()[0]))


def p1():
    pb = ps.SchedulingProblem(name="P1", horizon=4)
    ps.FixedDurationTask(name="A", duration=2)
    ps.FixedDurationTask(name="B", duration=1)
    return pb


def p2():
    pb = ps.SchedulingProblem(name="P2", horizon=3)
    ps.FixedDurationTask(name="A", duration=2, optional=True)
    ps.FixedDurationTask(name="B", duration=1, release_date=1)
    return pb


def p3():
    pb = ps.SchedulingProblem(name="P3", horizon=4)
    ps.VariableDurationTask(
        name="V", optional=True, allowed_durations=[1, 3], max_duration=3, due_date=3
    )
    ps.ZeroDurationTask(name="Z", optional=True, release_date=0, due_date=2)
    return pb


def p4():
    pb = ps.SchedulingProblem(name="P4", horizon=5)
    ps.FixedDurationTask(name="A", duration=2, release_date=0, due_date=4)
    ps.FixedDurationTask(
        name="B", duration=2, release_date=2, due_date=3, due_date_is_deadline=False
    )
    ps.VariableDurationTask(name="V", min_duration=0, max_duration=1, release_date=4)
    return pb


def p5():
    pb = ps.SchedulingProblem(name="P5", horizon=4)
    a = ps.FixedDurationTask(name="A", duration=2, optional=True, due_date=3)
    b = ps.FixedDurationTask(name="B", duration=2, release_date=1, optional=True)
    w = ps.Worker(name="W")
    a.add_required_resource(w)
    b.add_required_resource(w)
    ps.OptionalTasksDependency(task_1=a, task_2=b)
    return pb


def p6():
    pb = ps.SchedulingProblem(name="P6", horizon=3)
    a = ps.VariableDurationTask(name="A", min_duration=1, optional=True, release_date=1)
    b = ps.ZeroDurationTask(name="B", due_date=0)
    w1 = ps.Worker(name="W1")
    w2 = ps.Worker(name="W2")
    a.add_required_resource(ps.SelectWorkers(list_of_workers=[w1, w2], nb_workers_to_select=1))
    ps.TaskPrecedence(task_before=b, task_after=a)
    return pb


def p7():
    # infeasible: release after due
    pb = ps.SchedulingProblem(name="P7", horizon=5)
    ps.FixedDurationTask(name="A", duration=2, release_date=3, due_date=4)
    return pb


def p8():
    # infeasible when scheduled: only the unscheduled timing is left
    pb = ps.SchedulingProblem(name="P8", horizon=5)
    ps.FixedDurationTask(name="A", duration=2, release_date=3, due_date=4, optional=True)
    ps.FixedDurationTask(name="B", duration=5, optional=True)
    return pb


def p9():
    pb = ps.SchedulingProblem(name="P9", horizon=6)
    a = ps.FixedDurationTask(name="A", duration=2, release_date=1)
    b = ps.FixedDurationTask(name="B", duration=2, optional=True, due_date=5)
    ps.ObjectiveMinimizeMakespan()
    return pb


def p10():
    pb = ps.SchedulingProblem(name="P10", horizon=4)
    ps.FixedDurationTask(name="A", duration=1)
    ps.FixedDurationTask(name="A", duration=2)
    return pb


def p11():
    pb = ps.SchedulingProblem(name="P11", horizon=4)
    ps.FixedDurationTask(name="A", duration=1, optional=1)
    return pb


def p12():
    pb = ps.SchedulingProblem(name="P12", horizon=4)
    ps.FixedDurationTask(name="A", duration=1, release_date=-2, due_date=-1)
    return pb


def p13():
    pb = ps.SchedulingProblem(name="P13")  # no horizon: cap the enumeration
    ps.FixedDurationTask(name="A", duration=1, due_date=3, optional=True)
    return pb


for title, build, kw in [
    ("P1 two mandatory fixed tasks", p1, {}),
    ("P2 optional + release_date", p2, {}),
    ("P3 optional variable (allowed/max/due) + optional zero (release 0, due 2)", p3, {}),
    ("P4 release 0, due no deadline, variable with release", p4, {}),
    ("P5 two optional tasks sharing a worker + dependency", p5, {}),
    ("P6 optional variable with SelectWorkers + zero duration due 0", p6, {}),
    ("P7 infeasible release/due", p7, {}),
    ("P8 optional infeasible when scheduled", p8, {}),
    ("P9 optimization incremental", p9, {}),
    ("P9b optimization optimize", p9, {"optimizer": "optimize"}),
    ("P10 duplicate name", p10, {}),
    ("P11 optional not a bool", p11, {}),
    ("P12 negative release/due", p12, {}),
    ("P1 debug mode", p1, {"debug": True}),
]:
    report(title, build, **kw)
report("P13 no horizon capped", p13, limit=8)

# --- no task outside a problem
print("=" * 70)
print("no active problem")
ps.base.active_problem = None
try:
    ps.FixedDurationTask(name="X", duration=1)
except Exception as e:
    print("  ERROR", type(e).__name__, e)

# --- find_another_solution before solve
print("=" * 70)
print("another solution before solve")
pb = p2()
s = ps.SchedulingSolver(problem=pb)
for f in (s.find_another_solution, lambda: s.find_another_solution_for_variable(pb.tasks["A"]._start)):
    try:
        quiet(f)
    except Exception as e:
        print("  ERROR", type(e).__name__, e)

# --- find_another_solution_for_variable
print("=" * 70)
print("another solution for variable")
for build, tname, attr in [(p2, "B", "_start"), (p2, "A", "_end"), (p3, "V", "_duration"), (p4, "V", "_end")]:
    pb = build()
    s = ps.SchedulingSolver(problem=pb)
    sol = quiet(s.solve)
    var = getattr(pb.tasks[tname], attr)
    seen = []
    while sol and len(seen) < 30:
        seen.append((s._model[var].as_long(), sol_key(sol)))
        sol = quiet(s.find_another_solution_for_variable, var)
    print(" ", pb.name, tname, attr, "last:", sol)
    for v in seen:
        print("    ", v)

# --- direct calls of set_assertions / duplicated assertion
print("=" * 70)
print("duplicate assertion")
pb = ps.SchedulingProblem(name="dup", horizon=3)
t = ps.FixedDurationTask(name="A", duration=1, release_date=2)
for lst in ([t._start >= 0], [t._start >= 5, t._start >= 2], []):
    try:
        t.set_assertions(lst)
        print("  ok")
    except Exception as e:
        print("  ERROR", type(e).__name__, e)
    print("  ", [str(a) for a in t.get_z3_assertions()])
to = ps.FixedDurationTask(name="O", duration=1, optional=True)
try:
    to.set_assertions([to._start >= 1])
    print("  ok")
except Exception as e:
    print("  ERROR", type(e).__name__, e)
print("  ", [str(a).replace("\n", " ") for a in to.get_z3_assertions()], to._scheduled)
print("  json:", mask(t.to_json(compact=True)), mask(to.to_json(compact=True)))
