"""Equivalence check for the refactoring of OrderedTaskGroup, TaskPrecedence and
ScheduleNTasksInTimeIntervals.  Run from the worktree root:

    cd /tmp/t3_C03 && /venv/bin/python _twin/equiv.py

For every scenario it prints the assertions held by each constraint object (in
creation order), the sorted assertions of the z3 solver, and the solution (or
the error raised).  Random uuid parts of names are masked.
"""
import contextlib
import io
import os
import re
import sys

sys.path.insert(0, os.getcwd())

import z3  # noqa: E402
import processscheduler as ps  # noqa: E402

assert os.path.dirname(os.path.dirname(ps.__file__)) == os.getcwd(), ps.__file__

MASK = re.compile(r"\d{6,}")


def mask(text):
    return MASK.sub("#", str(text)).replace("\n", " ")


def mask_ws(text):
    return re.sub(r"\s+", " ", mask(text))


def report(title, build, solve=True):
    print("=" * 70)
    print(title)
    try:
        with contextlib.redirect_stdout(io.StringIO()):
            pb, constraints = build()
    except Exception as exc:  # the error is part of the behaviour
        print("  ERROR", type(exc).__name__, mask_ws(exc)[:400])
        return
    for i, cstr in enumerate(constraints):
        print(f"  constraint[{i}] {type(cstr).__name__} optional={cstr.optional}")
        for asst in cstr._z3_assertions:
            print("     ", mask_ws(asst))
        if hasattr(cstr, "_scheduled_assertion"):
            print("      _scheduled_assertion:",
                  [mask_ws(a) for a in cstr._scheduled_assertion])
    if not solve:
        return
    solver = ps.SchedulingSolver(problem=pb, random_values=False)
    try:
        with contextlib.redirect_stdout(io.StringIO()):
            solution = solver.solve()
    except Exception as exc:
        print("  SOLVE ERROR", type(exc).__name__, mask_ws(exc)[:400])
        return
    print("  solver assertions (sorted):")
    for line in sorted(mask_ws(a) for a in solver._solver.assertions()):
        print("     ", line)
    if not solution:
        print("  solution: NONE")
        return
    # the particular model z3 returns is not deterministic when the problem
    # has several solutions (variable names contain random uuids), so the
    # solution is described canonically: it is checked against the solver's
    # assertions, and the feasible range of every task variable is printed.
    print("  solution: found; horizon", solution.horizon if pb.objectives else "(free)")
    check = z3.Solver()
    check.add(solver._solver.assertions())
    for t in pb.tasks.values():
        sol_t = solution.tasks[t.name]
        if sol_t.scheduled:
            check.add(t._start == sol_t.start, t._end == sol_t.end)
        if t.optional:
            check.add(t._scheduled == sol_t.scheduled)
    print("  returned solution satisfies the assertions:", check.check())
    for t in sorted(pb.tasks.values(), key=lambda t: t.name):
        variables = [("start", t._start), ("end", t._end)]
        if t.optional:
            variables.append(("scheduled", z3.If(t._scheduled, 1, 0)))
        ranges = []
        for label, var in variables:
            bounds = []
            for direction in ("minimize", "maximize"):
                opt = z3.Optimize()
                opt.add(solver._solver.assertions())
                if t.optional and label != "scheduled":
                    opt.add(t._scheduled)
                getattr(opt, direction)(var)
                if opt.check() == z3.sat:
                    bounds.append(str(opt.model().eval(var, model_completion=True)))
                else:
                    bounds.append("-")
            ranges.append(f"{label} in [{bounds[0]}, {bounds[1]}]")
        print(f"     {t.name}: " + ", ".join(ranges))


def tasks(n, durations=None, optional=()):
    durations = durations or [2] * n
    out = []
    for i in range(n):
        out.append(
            ps.FixedDurationTask(
                name=f"t{i}", duration=durations[i], optional=(i in optional)
            )
        )
    return out


# --- TaskPrecedence ----------------------------------------------------
def precedence(kind, offset, optional=(), cstr_optional=False, horizon=20):
    def build():
        pb = ps.SchedulingProblem(name=f"prec_{kind}_{offset}", horizon=horizon)
        t = tasks(2, [3, 4], optional)
        kw = {}
        if kind is not None:
            kw["kind"] = kind
        if offset is not None:
            kw["offset"] = offset
        c = ps.TaskPrecedence(
            task_before=t[0], task_after=t[1], optional=cstr_optional, **kw
        )
        # pin things so that the schedule is unique
        c2 = ps.TaskStartAt(task=t[0], value=1)
        ps.ObjectiveMinimizeMakespan()
        return pb, [c, c2]

    return build


for kind in (None, "lax", "strict", "tight"):
    for offset in (None, 0, 1, 5):
        report(f"TaskPrecedence kind={kind} offset={offset}", precedence(kind, offset))
report("TaskPrecedence lax offset=2 before optional", precedence("lax", 2, optional=(0,)))
report("TaskPrecedence strict offset=0 after optional", precedence("strict", 0, optional=(1,)))
report("TaskPrecedence tight offset=3 both optional", precedence("tight", 3, optional=(0, 1)))
report("TaskPrecedence tight offset=1 optional constraint", precedence("tight", 1, cstr_optional=True))
report("TaskPrecedence bad kind", precedence("loose", 1))
report("TaskPrecedence negative offset", precedence("lax", -1))
report("TaskPrecedence infeasible (horizon too small)", precedence("strict", 5, horizon=9))


def precedence_vars():
    pb = ps.SchedulingProblem(name="prec_var", horizon=30)
    a = ps.VariableDurationTask(name="va", min_duration=2, max_duration=5)
    z = ps.ZeroDurationTask(name="zb")
    c = ps.TaskPrecedence(task_before=a, task_after=z, kind="tight", offset=4)
    c2 = ps.TaskEndAt(task=z, value=12)
    c3 = ps.TaskStartAt(task=a, value=3)
    return pb, [c, c2, c3]


report("TaskPrecedence variable/zero duration tasks", precedence_vars)


def precedence_groups(kind):
    def build():
        pb = ps.SchedulingProblem(name="prec_groups", horizon=40)
        t = tasks(4, [2, 3, 4, 5])
        g1 = ps.UnorderedTaskGroup(list_of_tasks=t[:2], time_interval_length=6)
        g2 = ps.OrderedTaskGroup(list_of_tasks=t[2:], kind=kind, time_interval=[10, 30])
        c = ps.TaskPrecedence(task_before=g1, task_after=g2, kind=kind, offset=2)
        ps.ObjectiveMinimizeMakespan()
        return pb, [g1, g2, c]

    return build


for kind in ("lax", "strict", "tight"):
    report(f"TaskPrecedence between groups kind={kind}", precedence_groups(kind))


# --- OrderedTaskGroup --------------------------------------------------
def ordered(n, kind, optional=(), cstr_optional=False, **window):
    def build():
        pb = ps.SchedulingProblem(name=f"ordered_{n}_{kind}", horizon=40)
        t = tasks(n, [1 + (i % 3) for i in range(n)], optional)
        kw = dict(window)
        if kind is not None:
            kw["kind"] = kind
        g = ps.OrderedTaskGroup(list_of_tasks=t, optional=cstr_optional, **kw)
        ps.ObjectiveMinimizeMakespan()
        return pb, [g]

    return build


for n in (0, 1, 2, 4):
    for kind in (None, "lax", "strict", "tight"):
        report(f"OrderedTaskGroup n={n} kind={kind} no window", ordered(n, kind), solve=n > 0)
report("OrderedTaskGroup n=3 tight window [0,6]", ordered(3, "tight", time_interval=[0, 6]))
report("OrderedTaskGroup n=3 strict window [5,20]", ordered(3, "strict", time_interval=[5, 20]))
report("OrderedTaskGroup n=3 lax length 0 (infeasible)", ordered(3, "lax", time_interval_length=0))
report("OrderedTaskGroup n=3 lax length 6", ordered(3, "lax", time_interval_length=6))
report("OrderedTaskGroup n=3 strict optional task", ordered(3, "strict", optional=(1,), time_interval=[2, 12]))
report("OrderedTaskGroup n=3 tight optional constraint", ordered(3, "tight", cstr_optional=True, time_interval=[2, 12]))
report("OrderedTaskGroup bad kind", ordered(3, "loose"))


def ordered_repeated():
    pb = ps.SchedulingProblem(name="ordered_rep", horizon=20)
    t = tasks(2, [2, 3])
    g = ps.OrderedTaskGroup(list_of_tasks=[t[0], t[1], t[0]], kind="lax")
    return pb, [g]


report("OrderedTaskGroup same task twice (infeasible cycle)", ordered_repeated)


# --- ScheduleNTasksInTimeIntervals --------------------------------------
def intervals(n_tasks, nb, ivs, kind=None, optional=(), cstr_optional=False, horizon=20):
    def build():
        pb = ps.SchedulingProblem(name="ntasks", horizon=horizon)
        t = tasks(n_tasks, [3] * n_tasks, optional)
        kw = {}
        if kind is not None:
            kw["kind"] = kind
        c = ps.ScheduleNTasksInTimeIntervals(
            list_of_tasks=t,
            nb_tasks_to_schedule=nb,
            list_of_time_intervals=ivs,
            optional=cstr_optional,
            **kw,
        )
        return pb, [c]

    return build


report("ScheduleN 2 tasks exact 2 in [10,13]", intervals(2, 2, [[10, 13]]))
report("ScheduleN 2 tasks exact 0 in [10,20]", intervals(2, 0, [[10, 20]]))
report("ScheduleN 3 tasks min 2 in [0,3],[8,11]", intervals(3, 2, [[0, 3], [8, 11]], kind="min"))
report("ScheduleN 3 tasks max 1 in [0,10],[12,20]", intervals(3, 1, [[0, 10], [12, 20]], kind="max"))
report("ScheduleN 3 tasks exact 1, three intervals, tuples", intervals(3, 1, [(0, 4), (6, 10), (15, 20)], kind="exact"))
report("ScheduleN 2 tasks (one optional) exact 2", intervals(2, 2, [[4, 8]], optional=(1,)))
report("ScheduleN optional constraint min 1", intervals(2, 1, [[4, 8]], kind="min", cstr_optional=True))
report("ScheduleN no interval, exact 0", intervals(2, 0, []))
report("ScheduleN no interval, exact 1 (infeasible)", intervals(2, 1, []))
report("ScheduleN no task, min 0", intervals(0, 0, [[1, 5]], kind="min"), solve=False)
report("ScheduleN exact 3 of 2 tasks (infeasible)", intervals(2, 3, [[0, 20]]))
report("ScheduleN interval too short (infeasible)", intervals(1, 1, [[5, 6]]))
report("ScheduleN empty interval [0,0] max 0", intervals(2, 0, [[0, 0]], kind="max"))
report("ScheduleN malformed interval (1 value)", intervals(2, 1, [[5]]))
report("ScheduleN malformed interval (3 values)", intervals(2, 1, [[5, 6, 7]]))
report("ScheduleN bad kind", intervals(2, 1, [[5, 9]], kind="most"))
report("ScheduleN negative count", intervals(2, -1, [[5, 9]], kind="min"))
