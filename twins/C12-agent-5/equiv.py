"""Equivalence script for the C12 refactoring (solver.py: append_z3_assertion and
the task part of build_solution).

Each case builds a small problem, solves it, then enumerates the other solutions
with find_another_solution / find_another_solution_for_variable and prints a
canonical description: the complete json of every solution returned (in the order
returned), the number of solutions, and the sorted str() of the solver's
assertions at the end (tracking labels and uids masked).
"""
import contextlib
import io
import os
import re
import sys
from datetime import datetime, timedelta

sys.path.insert(0, os.getcwd())

import z3  # noqa: E402
import processscheduler as ps  # noqa: E402

assert os.path.dirname(os.path.dirname(ps.__file__)) == os.getcwd(), ps.__file__

MASKS = [
    (re.compile(r"asst_[0-9a-f]{8}"), "asst_X"),
    (re.compile(r"\d{20,}"), "UID"),
    (re.compile(r"_[0-9a-f]{8}\b"), "_H"),
    (re.compile(r"\d+\.\d+s"), "Ts"),
]


def mask(text):
    for rx, repl in MASKS:
        text = rx.sub(repl, text)
    return text


def quiet(fn, *args, **kwargs):
    """run fn, return (result or the error raised, masked library output)"""
    buf = io.StringIO()
    with contextlib.redirect_stdout(buf):
        try:
            res = fn(*args, **kwargs)
        except Exception as exc:  # pylint: disable=broad-except
            res = f"RAISED {type(exc).__name__}: {exc}"
    return res, mask(buf.getvalue())


def describe(solution):
    if isinstance(solution, str):
        return solution
    if not solution:
        return repr(solution)
    return mask(solution.to_json(compact=True))


def dump_solver(solver):
    if solver._solver is None:
        print("  solver not initialized")
        return
    assts = sorted(mask(str(a)) for a in solver._solver.assertions())
    print(f"  {len(assts)} assertions at the end:")
    for a in assts:
        print("    " + a.replace("\n", " "))
    print(
        "  tracked constraints:",
        sorted(mask(str(v)) for v in solver._map_boolrefs_to_constraints.values()),
        len(solver._map_boolrefs_to_constraints),
    )


def enumerate_all(title, solver, next_solution, limit=200, show_output=False):
    print("=" * 70)
    print(title)
    solution, out = quiet(solver.solve)
    seen = []
    count = 0
    while solution and not isinstance(solution, str) and count < limit:
        count += 1
        desc = describe(solution)
        print(f"  #{count}: {desc}")
        key = tuple(
            (n, t.start, t.end, t.scheduled) for n, t in sorted(solution.tasks.items())
        )
        print("   distinct from all previous:", key not in seen)
        seen.append(key)
        solution, out = quiet(next_solution)
    print("  last answer:", describe(solution))
    if show_output:
        print("  last library output:")
        for line in out.splitlines():
            print("    | " + line)
    print("  number of solutions:", count, "distinct:", len(set(seen)))
    dump_solver(solver)


def case_1():
    pb = ps.SchedulingProblem(name="c1_precedence", horizon=5)
    t1 = ps.FixedDurationTask(name="A", duration=2)
    t2 = ps.FixedDurationTask(name="B", duration=1, priority=3, work_amount=0)
    ps.TaskPrecedence(task_before=t1, task_after=t2, kind="lax")
    s = ps.SchedulingSolver(problem=pb)
    enumerate_all("case 1: two mandatory tasks, precedence", s, s.find_another_solution)


def case_2():
    pb = ps.SchedulingProblem(
        name="c2_optional_calendar",
        horizon=3,
        delta_time=timedelta(minutes=15),
        start_time=datetime(2024, 2, 28, 23, 30),
    )
    ps.FixedDurationTask(name="Opt", duration=2, optional=True)
    ps.FixedDurationTask(name="Man", duration=1, release_date=1)
    ps.ZeroDurationTask(name="Zero", optional=True)
    s = ps.SchedulingSolver(problem=pb)
    enumerate_all(
        "case 2: optional + mandatory + zero, delta_time and start_time",
        s,
        s.find_another_solution,
    )


def case_3():
    pb = ps.SchedulingProblem(
        name="c3_delta_only", horizon=4, delta_time=timedelta(hours=1, seconds=7)
    )
    v = ps.VariableDurationTask(name="Var", min_duration=0, max_duration=2)
    ps.FixedDurationTask(name="Fix", duration=3, optional=True, due_date=4)
    s = ps.SchedulingSolver(problem=pb)
    enumerate_all(
        "case 3: delta_time without start_time, variable duration from 0",
        s,
        s.find_another_solution,
    )
    # and another value for one variable
    pb2 = ps.SchedulingProblem(
        name="c3b", horizon=4, delta_time=timedelta(hours=1, seconds=7)
    )
    v2 = ps.VariableDurationTask(name="Var", min_duration=0, max_duration=2)
    s2 = ps.SchedulingSolver(problem=pb2)
    enumerate_all(
        "case 3b: another value for the duration variable",
        s2,
        lambda: s2.find_another_solution_for_variable(v2._duration),
        show_output=True,
    )
    del v


def case_4():
    pb = ps.SchedulingProblem(name="c4_workers", horizon=3)
    t1 = ps.FixedDurationTask(name="T1", duration=2)
    t2 = ps.FixedDurationTask(name="T2", duration=1, optional=True)
    w1 = ps.Worker(name="W1")
    w2 = ps.Worker(name="W2")
    cw = ps.CumulativeWorker(name="CW", size=2)
    t1.add_required_resource(
        ps.SelectWorkers(name="sel", list_of_workers=[w1, w2], nb_workers_to_select=1)
    )
    t1.add_required_resource(cw)
    t2.add_required_resource(cw)
    t2.add_required_resource(w1)
    s = ps.SchedulingSolver(problem=pb)
    enumerate_all(
        "case 4: alternative workers, cumulative worker, optional task",
        s,
        s.find_another_solution,
    )


def case_5():
    pb = ps.SchedulingProblem(name="c5_variable", horizon=6)
    t1 = ps.FixedDurationTask(name="task1", duration=2)
    t2 = ps.FixedDurationTask(name="task2", duration=6, optional=True)
    s = ps.SchedulingSolver(problem=pb)
    print("=" * 70)
    print("case 5: requests before solve")
    print("  ", quiet(s.find_another_solution)[0])
    print("  ", quiet(s.find_another_solution_for_variable, t1._start)[0])
    enumerate_all(
        "case 5: another value for task1 start",
        s,
        lambda: s.find_another_solution_for_variable(t1._start),
    )
    del t2


def case_6():
    print("=" * 70)
    print("case 6: horizon 0 is refused")
    print("  ", mask(str(quiet(ps.SchedulingProblem, name="c6_h0", horizon=0)[0]))[:120])
    pb = ps.SchedulingProblem(name="c6_horizon_one", horizon=1)
    ps.ZeroDurationTask(name="Z")
    ps.FixedDurationTask(name="O", duration=1, optional=True)
    s = ps.SchedulingSolver(problem=pb)
    enumerate_all("case 6: horizon 1", s, s.find_another_solution, show_output=True)


def case_7():
    pb = ps.SchedulingProblem(name="c7_objective")
    t1 = ps.FixedDurationTask(name="P", duration=2)
    t2 = ps.FixedDurationTask(name="Q", duration=2)
    w = ps.Worker(name="M")
    t1.add_required_resource(w)
    t2.add_required_resource(w)
    ps.ObjectiveMinimizeMakespan()
    s = ps.SchedulingSolver(problem=pb)
    enumerate_all(
        "case 7: no horizon, makespan objective, incremental; first 6 solutions",
        s,
        s.find_another_solution,
        limit=6,
    )
    pb2 = ps.SchedulingProblem(name="c7b_objective", horizon=5)
    u1 = ps.FixedDurationTask(name="P", duration=2)
    u2 = ps.FixedDurationTask(name="Q", duration=2, optional=True)
    ps.TasksDontOverlap(task_1=u1, task_2=u2)
    w2 = ps.Worker(name="Idle")
    u1.add_required_resource(w2)
    u2.add_required_resource(w2)
    ps.ObjectiveMaximizeResourceUtilization(resource=w2)
    s2 = ps.SchedulingSolver(problem=pb2, optimizer="optimize")
    enumerate_all(
        "case 7b: z3 Optimize, indicator; first 8 solutions",
        s2,
        s2.find_another_solution,
        limit=8,
    )


def case_8():
    pb = ps.SchedulingProblem(name="c8_buffer", horizon=4)
    t1 = ps.FixedDurationTask(name="Load", duration=1)
    t2 = ps.FixedDurationTask(name="Unload", duration=1)
    b = ps.NonConcurrentBuffer(name="Buf", initial_level=0, lower_bound=0)
    ps.TaskLoadBuffer(task=t1, buffer=b, quantity=2)
    ps.TaskUnloadBuffer(task=t2, buffer=b, quantity=1)
    s = ps.SchedulingSolver(problem=pb)
    enumerate_all("case 8: buffer", s, s.find_another_solution)


def case_9_debug():
    pb = ps.SchedulingProblem(
        name="c9_debug",
        horizon=3,
        delta_time=timedelta(days=1),
        start_time=datetime(2023, 12, 30),
    )
    t1 = ps.FixedDurationTask(name="D1", duration=1)
    t2 = ps.FixedDurationTask(name="D2", duration=1, optional=True)
    w = ps.Worker(name="DW")
    t1.add_required_resource(w)
    t2.add_required_resource(w)
    ps.TaskStartAfter(name="after1", task=t1, value=1)
    s = ps.SchedulingSolver(problem=pb, debug=True)
    enumerate_all(
        "case 9: debug mode (tracked assertions)",
        s,
        s.find_another_solution,
        show_output=True,
    )
    # an unsatisfiable problem in debug mode: the conflict report uses the map
    pb2 = ps.SchedulingProblem(name="c9b_debug_unsat", horizon=2)
    u = ps.FixedDurationTask(name="U", duration=2)
    ps.TaskStartAt(name="start_at_1", task=u, value=1)
    s2 = ps.SchedulingSolver(problem=pb2, debug=True)
    enumerate_all(
        "case 9b: debug mode, unsatisfiable",
        s2,
        s2.find_another_solution,
        show_output=False,
    )
    print(
        "  map values:",
        sorted(set(mask(str(v)) for v in s2._map_boolrefs_to_constraints.values())),
    )
    # direct calls of append_z3_assertion: single assertion, list, empty list
    x = z3.Int("x_free")
    for assts, name in (
        (x > 0, None),
        ([x < 5, x != 3], "start_at_1"),
        ([], "start_at_1"),
        ([x == 2], None),
    ):
        r, _ = quiet(s2.append_z3_assertion, assts, name)
        print("  append ->", r, len(s2._map_boolrefs_to_constraints))
    r, _ = quiet(s2.append_z3_assertion, x > 0)
    print("  append same again ->", r)
    dump_solver(s2)
    pb3 = ps.SchedulingProblem(name="c9c_plain", horizon=2)
    ps.FixedDurationTask(name="U", duration=2)
    s3 = ps.SchedulingSolver(problem=pb3)
    s3.initialize()
    for assts, name in ((x > 0, None), ([x < 5, x != 3], "some"), ([], "some")):
        r, _ = quiet(s3.append_z3_assertion, assts, name)
        print("  plain append ->", r, len(s3._map_boolrefs_to_constraints))
    r, _ = quiet(s3.append_z3_assertion, "not an assertion")
    print("  plain append of a str ->", r)
    dump_solver(s3)


if __name__ == "__main__":
    for case in (
        case_1,
        case_2,
        case_3,
        case_4,
        case_5,
        case_6,
        case_7,
        case_8,
        case_9_debug,
    ):
        try:
            case()
        except Exception as exc:  # pylint: disable=broad-except
            print(f"CASE {case.__name__} RAISED {type(exc).__name__}: {mask(str(exc))}")
