"""Equivalence script for the refactoring of OrderedTaskGroup / TaskPrecedence
(processscheduler/task_constraint.py).

Run from the worktree root:  cd /tmp/t5_C05 && /venv/bin/python _twin/equiv.py
Prints a canonical description of each case: constraint assertions, sorted
solver assertions (random integers of names masked), solution values,
pinned-schedule verdicts, or the error raised.
"""
import contextlib
import io
import os
import re
import sys

sys.path.insert(0, os.getcwd())

import z3  # noqa: E402

import processscheduler as ps  # noqa: E402

assert os.path.realpath(ps.__file__).startswith(os.path.realpath(os.getcwd()))

_LONG_INT = re.compile(r"\d{8,}")
_TIMING = re.compile(r"\d+\.\d+s\b")


def quiet_solve(solver):
    """solve, the messages printed by the library are kept with timings masked."""
    buf = io.StringIO()
    with contextlib.redirect_stdout(buf):
        solution = solver.solve()
    for line in buf.getvalue().splitlines():
        if line.strip():
            print("    | " + _TIMING.sub("<T>s", line))
    return solution


def mask(text):
    return _LONG_INT.sub("<ID>", str(text))


def show_constraint(label, constraint):
    for i, asst in enumerate(constraint.get_z3_assertions()):
        print(f"  [{label}] own assertion {i}: {mask(asst)}")


_CMP = {"lax": lambda e, s: e <= s, "strict": lambda e, s: e < s, "tight": lambda e, s: e == s}


def chain_ok(solution, names, kind):
    """the documented order holds between consecutive (scheduled) tasks of the chain."""
    tasks = [solution.tasks[n] for n in names]
    return all(
        _CMP[kind](a.end, b.start)
        for a, b in zip(tasks, tasks[1:])
        if a.scheduled and b.scheduled
    )


def solve_and_show(pb, values=True, chain=None, **solver_args):
    """values=False: the problem holds z3 variables whose names contain random
    ids (task groups, optional constraints) and is not fully determined, the
    model z3 picks then changes from run to run with the SAME code; the verdict
    and a check of the documented order are printed instead of the values."""
    solver = ps.SchedulingSolver(problem=pb, **solver_args)
    solution = quiet_solve(solver)
    assertions = sorted(mask(a) for a in solver._solver.assertions())
    print(f"  {len(assertions)} solver assertions:")
    for a in assertions:
        print("    " + a.replace("\n", " "))
    if not solution:
        print("  verdict: NO SOLUTION")
        return None
    print("  verdict: solution found, horizon", solution.horizon)
    if chain is not None:
        names, kind = chain
        print(f"  documented order {kind} over {names}:", chain_ok(solution, names, kind))
    if not values:
        return solution
    for name in sorted(solution.tasks):
        t = solution.tasks[name]
        print(
            f"    {name}: start={t.start} end={t.end} duration={t.duration} "
            f"optional={t.optional} scheduled={t.scheduled}"
        )
    return solution


def case(title, func):
    print("=" * 72)
    print(title)
    try:
        func()
    except Exception as exc:  # canonical description of the error
        msg = mask(str(exc)).splitlines()
        print(f"  ERROR {type(exc).__name__}: {' | '.join(msg[:6])}")


# ---------------------------------------------------------------------------
# TaskPrecedence, all kinds x offsets, mandatory tasks
# ---------------------------------------------------------------------------
def precedence_mandatory():
    for kind in ("lax", "strict", "tight"):
        for offset in (0, 1, 4):
            print(f" -- kind={kind} offset={offset}")
            pb = ps.SchedulingProblem(name=f"prec_{kind}_{offset}", horizon=12)
            t1 = ps.FixedDurationTask(name="t1", duration=3)
            t2 = ps.FixedDurationTask(name="t2", duration=2)
            c = ps.TaskPrecedence(task_before=t1, task_after=t2, kind=kind, offset=offset)
            show_constraint("prec", c)
            solve_and_show(pb)


def precedence_default_kind_and_offset():
    pb = ps.SchedulingProblem(name="prec_default", horizon=6)
    t1 = ps.FixedDurationTask(name="t1", duration=3)
    t2 = ps.VariableDurationTask(name="t2", min_duration=1, max_duration=3)
    z = ps.ZeroDurationTask(name="z")
    c1 = ps.TaskPrecedence(task_before=t1, task_after=t2)
    c2 = ps.TaskPrecedence(task_before=z, task_after=t1, kind="tight")
    show_constraint("c1", c1)
    show_constraint("c2", c2)
    solve_and_show(pb)


# ---------------------------------------------------------------------------
# TaskPrecedence with optional tasks: the implication form
# ---------------------------------------------------------------------------
def precedence_optional_tasks():
    for opt1, opt2 in ((True, False), (False, True), (True, True)):
        for kind in ("lax", "strict", "tight"):
            print(f" -- optional=({opt1},{opt2}) kind={kind}")
            pb = ps.SchedulingProblem(name=f"prec_opt_{opt1}_{opt2}_{kind}", horizon=10)
            t1 = ps.FixedDurationTask(name="t1", duration=4, optional=opt1)
            t2 = ps.FixedDurationTask(name="t2", duration=4, optional=opt2)
            c = ps.TaskPrecedence(task_before=t1, task_after=t2, kind=kind, offset=2)
            show_constraint("prec", c)
            # force both so that the precedence really applies
            if opt1:
                ps.OptionalTaskForceSchedule(task=t1, to_be_scheduled=True)
            if opt2:
                ps.OptionalTaskForceSchedule(task=t2, to_be_scheduled=True)
            solve_and_show(pb)


def precedence_optional_infeasible_unless_dropped():
    """horizon too small for both tasks in sequence: the optional one is dropped."""
    pb = ps.SchedulingProblem(name="prec_opt_drop", horizon=5)
    t1 = ps.FixedDurationTask(name="t1", duration=4)
    t2 = ps.FixedDurationTask(name="t2", duration=4, optional=True)
    c = ps.TaskPrecedence(task_before=t1, task_after=t2, kind="strict")
    show_constraint("prec", c)
    solve_and_show(pb)


# ---------------------------------------------------------------------------
# TaskPrecedence being itself an optional constraint
# ---------------------------------------------------------------------------
def precedence_optional_constraint():
    pb = ps.SchedulingProblem(name="prec_optional_cstr", horizon=5)
    t1 = ps.FixedDurationTask(name="t1", duration=3)
    t2 = ps.FixedDurationTask(name="t2", duration=3)
    c = ps.TaskPrecedence(
        task_before=t1, task_after=t2, kind="tight", offset=1, optional=True
    )
    show_constraint("prec", c)
    solve_and_show(pb, values=False)
    print(" -- same, forced to apply: infeasible")
    pb = ps.SchedulingProblem(name="prec_optional_cstr2", horizon=5)
    t1 = ps.FixedDurationTask(name="t1", duration=3)
    t2 = ps.FixedDurationTask(name="t2", duration=3)
    c = ps.TaskPrecedence(
        task_before=t1, task_after=t2, kind="tight", offset=1, optional=True
    )
    ps.ForceApplyNOptionalConstraints(
        list_of_optional_constraints=[c], nb_constraints_to_apply=1
    )
    show_constraint("prec", c)
    solve_and_show(pb)


# ---------------------------------------------------------------------------
# infeasible / just feasible precedence chains (truthful verdicts)
# ---------------------------------------------------------------------------
def precedence_verdicts():
    for kind, horizon in (
        ("lax", 5),
        ("lax", 6),
        ("strict", 6),
        ("strict", 7),
        ("tight", 6),
        ("tight", 5),
    ):
        print(f" -- kind={kind} horizon={horizon}")
        pb = ps.SchedulingProblem(name=f"verdict_{kind}_{horizon}", horizon=horizon)
        t1 = ps.FixedDurationTask(name="t1", duration=3)
        t2 = ps.FixedDurationTask(name="t2", duration=3)
        ps.TaskPrecedence(task_before=t1, task_after=t2, kind=kind)
        solve_and_show(pb)


def pinned_schedules_accepted():
    """every valid choice is accepted when pinned, every invalid one rejected."""
    for kind, offset in (("lax", 0), ("strict", 0), ("tight", 2), ("lax", 2)):
        verdicts = []
        for s1 in range(0, 4):
            for s2 in range(0, 7):
                pb = ps.SchedulingProblem(name=f"pin_{kind}_{offset}_{s1}_{s2}", horizon=8)
                t1 = ps.FixedDurationTask(name="t1", duration=2)
                t2 = ps.FixedDurationTask(name="t2", duration=2)
                ps.TaskPrecedence(task_before=t1, task_after=t2, kind=kind, offset=offset)
                ps.TaskStartAt(task=t1, value=s1)
                ps.TaskStartAt(task=t2, value=s2)
                with contextlib.redirect_stdout(io.StringIO()):
                    sol = ps.SchedulingSolver(problem=pb).solve()
                verdicts.append("1" if sol else "0")
        print(f"  kind={kind} offset={offset} pinned verdicts: {''.join(verdicts)}")


# ---------------------------------------------------------------------------
# OrderedTaskGroup
# ---------------------------------------------------------------------------
def ordered_group_kinds():
    for kind in ("lax", "strict", "tight"):
        for n in (0, 1, 2, 4):
            print(f" -- kind={kind} nb tasks={n}")
            pb = ps.SchedulingProblem(name=f"otg_{kind}_{n}", horizon=20)
            tasks = [
                ps.FixedDurationTask(name=f"t{i}", duration=i + 1) for i in range(n)
            ]
            # one more free task so that the problem is never empty
            ps.FixedDurationTask(name="free", duration=1)
            g = ps.OrderedTaskGroup(list_of_tasks=tasks, kind=kind)
            show_constraint("otg", g)
            print("  len(_scheduled_assertion) =", len(g._scheduled_assertion))
            solve_and_show(pb, values=False, chain=([t.name for t in tasks], kind))


def ordered_group_bounds():
    print(" -- default kind, time_interval")
    pb = ps.SchedulingProblem(name="otg_interval", horizon=30)
    tasks = [ps.FixedDurationTask(name=f"t{i}", duration=2) for i in range(3)]
    g = ps.OrderedTaskGroup(list_of_tasks=tasks, time_interval=(5, 12))
    show_constraint("otg", g)
    solve_and_show(pb, values=False, chain=(["t0", "t1", "t2"], "lax"))

    print(" -- tight, time_interval_length exactly the total duration")
    pb = ps.SchedulingProblem(name="otg_length", horizon=30)
    tasks = [ps.FixedDurationTask(name=f"t{i}", duration=2) for i in range(3)]
    g = ps.OrderedTaskGroup(list_of_tasks=tasks, kind="tight", time_interval_length=6)
    show_constraint("otg", g)
    solve_and_show(pb, values=False, chain=(["t0", "t1", "t2"], "tight"))

    print(" -- strict, time_interval_length too short: infeasible")
    pb = ps.SchedulingProblem(name="otg_length_short", horizon=30)
    tasks = [ps.FixedDurationTask(name=f"t{i}", duration=2) for i in range(3)]
    g = ps.OrderedTaskGroup(list_of_tasks=tasks, kind="strict", time_interval_length=7)
    show_constraint("otg", g)
    solve_and_show(pb, values=False)

    print(" -- strict, time_interval_length 8: feasible")
    pb = ps.SchedulingProblem(name="otg_length_ok", horizon=30)
    tasks = [ps.FixedDurationTask(name=f"t{i}", duration=2) for i in range(3)]
    g = ps.OrderedTaskGroup(list_of_tasks=tasks, kind="strict", time_interval_length=8)
    solve_and_show(pb, values=False, chain=(["t0", "t1", "t2"], "strict"))

    print(" -- mixed task types, a task repeated in the list, optional group")
    pb = ps.SchedulingProblem(name="otg_mixed", horizon=15)
    a = ps.ZeroDurationTask(name="a")
    b = ps.VariableDurationTask(name="b", min_duration=0, max_duration=4)
    c = ps.FixedDurationTask(name="c", duration=3, optional=True)
    g = ps.OrderedTaskGroup(list_of_tasks=[a, b, c, a], kind="lax", optional=True)
    show_constraint("otg", g)
    solve_and_show(pb, values=False)


def groups_in_precedence():
    """TaskPrecedence between task groups (groups have _start/_end, no _scheduled)."""
    for kind in ("lax", "strict", "tight"):
        print(f" -- kind={kind}")
        pb = ps.SchedulingProblem(name=f"grp_prec_{kind}", horizon=20)
        t = [ps.FixedDurationTask(name=f"t{i}", duration=2) for i in range(4)]
        g1 = ps.OrderedTaskGroup(list_of_tasks=t[:2], kind="tight")
        g2 = ps.UnorderedTaskGroup(list_of_tasks=t[2:], time_interval_length=5)
        c = ps.TaskPrecedence(task_before=g1, task_after=g2, kind=kind, offset=3)
        show_constraint("prec", c)
        solve_and_show(pb, values=False, chain=(["t0", "t1"], "tight"))


def optional_group_in_precedence():
    """an optional group has no _scheduled attribute: same error as before."""
    pb = ps.SchedulingProblem(name="grp_prec_opt", horizon=20)
    t = [ps.FixedDurationTask(name=f"t{i}", duration=2) for i in range(3)]
    g1 = ps.OrderedTaskGroup(list_of_tasks=t[:2], optional=True)
    ps.TaskPrecedence(task_before=g1, task_after=t[2])


# ---------------------------------------------------------------------------
# first order logic over the refactored constraints
# ---------------------------------------------------------------------------
def logic_over_precedence():
    pb = ps.SchedulingProblem(name="fol", horizon=8)
    t1 = ps.FixedDurationTask(name="t1", duration=3)
    t2 = ps.FixedDurationTask(name="t2", duration=3)
    t3 = ps.FixedDurationTask(name="t3", duration=2, optional=True)
    n = ps.Not(constraint=ps.TaskPrecedence(task_before=t1, task_after=t2, kind="lax"))
    x = ps.Xor(
        constraint_1=ps.TaskPrecedence(task_before=t2, task_after=t3, kind="tight"),
        constraint_2=ps.TaskPrecedence(
            task_before=t3, task_after=t1, kind="strict", offset=1
        ),
    )
    i = ps.Implies(
        condition=t3._scheduled,
        list_of_constraints=[
            ps.OrderedTaskGroup(list_of_tasks=[t2, t3, t1], kind="strict")
        ],
    )
    show_constraint("not", n)
    show_constraint("xor", x)
    show_constraint("implies", i)
    solve_and_show(pb, values=False)


# ---------------------------------------------------------------------------
# errors
# ---------------------------------------------------------------------------
def err_bad_kind_precedence():
    ps.SchedulingProblem(name="e1", horizon=8)
    t1 = ps.FixedDurationTask(name="t1", duration=3)
    t2 = ps.FixedDurationTask(name="t2", duration=3)
    ps.TaskPrecedence(task_before=t1, task_after=t2, kind="foo")


def err_negative_offset():
    ps.SchedulingProblem(name="e2", horizon=8)
    t1 = ps.FixedDurationTask(name="t1", duration=3)
    t2 = ps.FixedDurationTask(name="t2", duration=3)
    ps.TaskPrecedence(task_before=t1, task_after=t2, offset=-1)


def err_bad_kind_group():
    ps.SchedulingProblem(name="e3", horizon=8)
    t1 = ps.FixedDurationTask(name="t1", duration=3)
    ps.OrderedTaskGroup(list_of_tasks=[t1], kind="TIGHT")


def err_missing_task():
    ps.SchedulingProblem(name="e4", horizon=8)
    t1 = ps.FixedDurationTask(name="t1", duration=3)
    ps.TaskPrecedence(task_before=t1)


def err_same_task_tight():
    """degenerate but accepted: a task before itself."""
    pb = ps.SchedulingProblem(name="e5", horizon=8)
    t1 = ps.FixedDurationTask(name="t1", duration=3)
    z = ps.ZeroDurationTask(name="z")
    c1 = ps.TaskPrecedence(task_before=z, task_after=z, kind="tight")
    show_constraint("c1", c1)
    c2 = ps.TaskPrecedence(task_before=t1, task_after=t1, kind="lax")
    show_constraint("c2", c2)
    solve_and_show(pb)


def kind_changed_after_validation():
    """the else branch: any kind other than lax/strict behaves as tight.
    model_construct bypasses validation only for the field values check, here we
    simply go through the same __init__ with validation disabled via a subclass."""

    class LooseGroup(ps.OrderedTaskGroup):
        kind: str = "lax"

    class LoosePrecedence(ps.TaskPrecedence):
        kind: str = "lax"

    pb = ps.SchedulingProblem(name="loose", horizon=10)
    t1 = ps.FixedDurationTask(name="t1", duration=3)
    t2 = ps.FixedDurationTask(name="t2", duration=3)
    g = LooseGroup(list_of_tasks=[t1, t2], kind="whatever")
    p = LoosePrecedence(task_before=t1, task_after=t2, kind="", offset=0)
    show_constraint("loose group", g)
    show_constraint("loose prec", p)


def json_round_trip():
    pb = ps.SchedulingProblem(name="json", horizon=10)
    t1 = ps.FixedDurationTask(name="t1", duration=3)
    t2 = ps.FixedDurationTask(name="t2", duration=3)
    p = ps.TaskPrecedence(name="p", task_before=t1, task_after=t2, kind="strict", offset=2)
    g = ps.OrderedTaskGroup(name="g", list_of_tasks=[t1, t2], kind="tight")
    print("  " + mask(p.to_json(compact=True)))
    print("  " + mask(g.to_json(compact=True)))


if __name__ == "__main__":
    case("1. TaskPrecedence, mandatory tasks, kinds x offsets", precedence_mandatory)
    case("2. TaskPrecedence default kind/offset, zero/variable duration", precedence_default_kind_and_offset)
    case("3. TaskPrecedence with optional tasks", precedence_optional_tasks)
    case("4. TaskPrecedence: optional task dropped", precedence_optional_infeasible_unless_dropped)
    case("5. TaskPrecedence as optional constraint", precedence_optional_constraint)
    case("6. TaskPrecedence feasibility verdicts at the limit", precedence_verdicts)
    case("7. pinned schedules accepted / rejected", pinned_schedules_accepted)
    case("8. OrderedTaskGroup kinds x number of tasks", ordered_group_kinds)
    case("9. OrderedTaskGroup with bounds, mixed tasks, optional", ordered_group_bounds)
    case("10. TaskPrecedence between groups", groups_in_precedence)
    case("11. optional group in precedence (error)", optional_group_in_precedence)
    case("12. first order logic over the constraints", logic_over_precedence)
    case("13. error: bad kind for precedence", err_bad_kind_precedence)
    case("14. error: negative offset", err_negative_offset)
    case("15. error: bad kind for group", err_bad_kind_group)
    case("16. error: missing task_after", err_missing_task)
    case("17. degenerate: task before itself", err_same_task_tight)
    case("18. kind outside lax/strict/tight falls to the tight branch", kind_changed_after_validation)
    case("19. json dump of the constraints", json_round_trip)
