"""Equivalence harness for the C08 twin (IndicatorResourceCost / IndicatorResourceIdle).

Run from the worktree root:  cd /tmp/t3_C08 && /venv/bin/python _twin/equiv.py
Prints, for each scenario, the (ordered) z3 assertions carried by each
indicator, the warnings raised while building it, and the solved values.
"""
import contextlib
import io
import os
import re
import sys
import warnings

sys.path.insert(0, os.getcwd())

import processscheduler as ps  # noqa: E402

assert os.path.abspath(ps.__file__).startswith(os.getcwd()), ps.__file__

UUID_RE = re.compile(r"[0-9a-f]{8}(-?[0-9a-f]{4}){3}-?[0-9a-f]{12}|\b[0-9a-f]{8}\b")


def mask(text):
    # auto-generated names end with a random 8 digits uid
    return re.sub(r"_\d{8}\b", "_<uid>", UUID_RE.sub("<uid>", str(text)))


def mk(inds, cls, **kw):
    """build an indicator; an error is reported and the build goes on"""
    try:
        inds.append(cls(**kw))
    except Exception as exc:  # noqa: BLE001
        print("  BUILD-ERROR", cls.__name__, type(exc).__name__, mask(exc).splitlines()[0])


def describe(title, build, solve=True, show_tasks=True, **solver_kw):
    print("=" * 72)
    print("CASE", title)
    try:
        with warnings.catch_warnings(record=True) as caught:
            warnings.simplefilter("always")
            problem, indicators = build()
        for w in caught:
            print("  warning:", w.category.__name__, mask(w.message))
        for ind in indicators:
            print("  indicator", mask(ind.name), "bounds", ind.bounds)
            for a in ind.get_z3_assertions():
                print("    assert", mask(a).replace("\n", " "))
        if not solve:
            return
        with warnings.catch_warnings(), contextlib.redirect_stdout(io.StringIO()):
            warnings.simplefilter("ignore")
            solver = ps.SchedulingSolver(problem=problem, **solver_kw)
            solution = solver.solve()
        if not solution:
            print("  solution: None")
            return
        for name in sorted(solution.indicators):
            print("  value", mask(name), "=", solution.indicators[name])
        for name in sorted(solution.tasks) if show_tasks else []:
            t = solution.tasks[name]
            print(
                "  task", mask(name), t.scheduled, t.start, t.end,
                sorted(mask(r) for r in t.assigned_resources),
            )
        asserts = sorted(mask(a).replace("\n", " ") for a in solver._solver.assertions())
        print("  nb solver assertions", len(asserts))
        for a in asserts:
            if "Indicator_" in a or "x!" in a:
                print("    S", a)
    except Exception as exc:  # noqa: BLE001
        print("  ERROR", type(exc).__name__, mask(exc).splitlines()[0])


# 1. constant cost != 0,1 single worker, single task
def case_const_7():
    pb = ps.SchedulingProblem(name="c1")
    t1 = ps.FixedDurationTask(name="t1", duration=11)
    w1 = ps.Worker(name="W1", cost=ps.ConstantFunction(value=7))
    t1.add_required_resource(w1)
    return pb, [ps.IndicatorResourceCost(list_of_resources=[w1])]


# 2. costs 0 (default), 0 explicit, 1, 1.0, 0.0, 2.5 ; optional task ; zero duration
def case_const_edge_values():
    pb = ps.SchedulingProblem(name="c2", horizon=20)
    tasks = [
        ps.FixedDurationTask(name="t1", duration=3),
        ps.FixedDurationTask(name="t2", duration=4, optional=True),
        ps.ZeroDurationTask(name="t3"),
        ps.VariableDurationTask(name="t4", min_duration=2, max_duration=5),
    ]
    ws = [
        ps.Worker(name="Wdef"),
        ps.Worker(name="W0", cost=ps.ConstantFunction(value=0)),
        ps.Worker(name="W1", cost=ps.ConstantFunction(value=1)),
        ps.Worker(name="W1f", cost=ps.ConstantFunction(value=1.0)),
        ps.Worker(name="W0f", cost=ps.ConstantFunction(value=0.0)),
        ps.Worker(name="W3", cost=ps.ConstantFunction(value=3)),
    ]
    for i, t in enumerate(tasks):
        for w in ws[i % 2:: 2] + [ws[5]]:
            if w not in t._required_resources:
                t.add_required_resource(w)
    ps.TaskStartAt(task=tasks[0], value=1)
    ps.OptionalTaskForceSchedule(task=tasks[1], to_be_scheduled=True)
    ps.TaskStartAt(task=tasks[1], value=6)
    ps.TaskStartAt(task=tasks[2], value=12)
    ps.TaskStartAt(task=tasks[3], value=13)
    ps.TaskEndAt(task=tasks[3], value=17)
    inds = [
        ps.IndicatorResourceCost(list_of_resources=ws),
        ps.IndicatorResourceCost(list_of_resources=[ws[5], ws[2]]),
        ps.IndicatorResourceCost(list_of_resources=[ws[0]]),
        ps.IndicatorResourceCost(list_of_resources=[]),
    ]
    inds += [ps.IndicatorResourceIdle(resource=w) for w in (ws[5], ws[0])]
    return pb, inds


# 3. linear + polynomial costs mixed with constant ones, fixed starts
def case_linear_poly():
    pb = ps.SchedulingProblem(name="c3")
    t1 = ps.FixedDurationTask(name="t1", duration=17)
    t2 = ps.FixedDurationTask(name="t2", duration=5)
    wl = ps.Worker(name="WL", cost=ps.LinearFunction(slope=23, intercept=3))
    wp = ps.Worker(name="WP", cost=ps.PolynomialFunction(coefficients=[2, 0, -3, 40]))
    wc = ps.Worker(name="WC", cost=ps.ConstantFunction(value=4))
    for t in (t1, t2):
        t.add_required_resources([wl, wp, wc])
    ps.TaskStartAt(task=t1, value=13)
    ps.TaskStartAt(task=t2, value=2)
    return pb, [
        ps.IndicatorResourceCost(list_of_resources=[wl, wp, wc]),
        ps.IndicatorResourceCost(list_of_resources=[wc, wp]),
        ps.IndicatorResourceCost(list_of_resources=[wl]),
        ps.IndicatorResourceIdle(resource=wl),
    ]


# 4. float linear cost -> ToReal warnings (count and order must be the same)
def case_float_linear_warns():
    pb = ps.SchedulingProblem(name="c4")
    t1 = ps.FixedDurationTask(name="t1", duration=17)
    t2 = ps.FixedDurationTask(name="t2", duration=2)
    w = ps.Worker(name="WF", cost=ps.LinearFunction(slope=23.12, intercept=3.4))
    t1.add_required_resource(w)
    t2.add_required_resource(w)
    return pb, [ps.IndicatorResourceCost(list_of_resources=[w])]


# 5. cumulative workers (cost distributed 3,1,1 and 0,0) mixed with single workers
def case_cumulative(with_idle=False):
    pb = ps.SchedulingProblem(name="c5", horizon=12)
    cw5 = ps.CumulativeWorker(name="CW5", size=3, cost=ps.ConstantFunction(value=5))
    cw0 = ps.CumulativeWorker(name="CW0", size=2)
    w = ps.Worker(name="WL", cost=ps.LinearFunction(slope=1, intercept=2))
    # same duration: the value of the cost does not depend on which elementary
    # worker processes which task
    ts = [ps.FixedDurationTask(name=f"t{i}", duration=4) for i in range(3)]
    for t in ts:
        t.add_required_resource(cw5)
    ts[0].add_required_resource(cw0)
    ts[1].add_required_resource(w)
    ps.TaskStartAt(task=ts[0], value=0)
    ps.TaskStartAt(task=ts[1], value=0)
    ps.TaskStartAt(task=ts[2], value=1)
    inds = []
    mk(inds, ps.IndicatorResourceCost, list_of_resources=[cw5, w, cw0])
    mk(inds, ps.IndicatorResourceCost, list_of_resources=[cw0])
    if with_idle:
        # no solve for this variant: a failed indicator stays in the problem
        mk(inds, ps.IndicatorResourceIdle, resource=cw5)
        for sub in cw5._cumulative_workers:
            mk(inds, ps.IndicatorResourceIdle, resource=sub)
    return pb, inds


# 6. idle: three tasks, one optional not scheduled; second resource with one task;
#    third resource with no task at all
def case_idle(with_degenerate=False):
    pb = ps.SchedulingProblem(name="c6")
    t1 = ps.FixedDurationTask(name="t1", duration=2)
    t2 = ps.FixedDurationTask(name="t2", duration=5)
    t3 = ps.FixedDurationTask(name="t3", duration=8, optional=True)
    t4 = ps.FixedDurationTask(name="t4", duration=1)
    ps.TaskStartAt(task=t1, value=3)
    ps.TaskStartAt(task=t2, value=11)
    ps.TaskStartAt(task=t4, value=30)
    ps.OptionalTaskForceSchedule(task=t3, to_be_scheduled=False)
    w1 = ps.Worker(name="M1", cost=ps.ConstantFunction(value=2))
    w2 = ps.Worker(name="M2")
    w3 = ps.Worker(name="M3", cost=ps.LinearFunction(slope=1, intercept=0))
    for t in (t1, t2, t3, t4):
        t.add_required_resource(w1)
    t2.add_required_resource(w2)
    inds = []
    mk(inds, ps.IndicatorResourceIdle, resource=w1)
    if with_degenerate:
        # one task only / no task at all: no solve for this variant
        mk(inds, ps.IndicatorResourceIdle, resource=w2)
        mk(inds, ps.IndicatorResourceIdle, resource=w3)
    mk(inds, ps.IndicatorResourceCost, list_of_resources=[w1, w2, w3])
    return pb, inds


# 7. select workers + minimize cost objective + indicator bounds
def case_select_and_optimize():
    pb = ps.SchedulingProblem(name="c7", horizon=30)
    t1 = ps.FixedDurationTask(name="t1", duration=4)
    t2 = ps.FixedDurationTask(name="t2", duration=6)
    wa = ps.Worker(name="A", cost=ps.ConstantFunction(value=10))
    wb = ps.Worker(name="B", cost=ps.LinearFunction(slope=-1, intercept=40))
    wc = ps.Worker(name="C", cost=ps.ConstantFunction(value=1))
    t1.add_required_resource(ps.SelectWorkers(list_of_workers=[wa, wb], nb_workers_to_select=1))
    t2.add_required_resource(ps.SelectWorkers(list_of_workers=[wa, wb, wc], nb_workers_to_select=2))
    ind = ps.IndicatorResourceCost(list_of_resources=[wa, wb, wc])
    idle = ps.IndicatorResourceIdle(resource=wa)
    ps.IndicatorTarget(indicator=idle, value=0)
    ps.ObjectiveMinimizeResourceCost(list_of_resources=[wa, wb, wc])
    return pb, [ind, idle]


# 8. idle time minimisation over several movable tasks, bounded cost
def case_idle_objective():
    pb = ps.SchedulingProblem(name="c8", horizon=20)
    w = ps.Worker(name="W", cost=ps.ConstantFunction(value=2))
    ts = [ps.FixedDurationTask(name=f"t{i}", duration=i + 1) for i in range(4)]
    for t in ts:
        t.add_required_resource(w)
    ps.TaskStartAt(task=ts[0], value=0)
    ps.TaskEndAt(task=ts[3], value=20)
    idle = ps.IndicatorResourceIdle(resource=w)
    cost = ps.IndicatorResourceCost(list_of_resources=[w])
    ps.IndicatorBounds(indicator=idle, lower_bound=3)
    ps.Objective(name="minidle", target=idle, kind="minimize")
    return pb, [idle, cost]


# 9. errors
def case_err_not_a_resource():
    pb = ps.SchedulingProblem(name="c9")
    t1 = ps.FixedDurationTask(name="t1", duration=2)
    return pb, [ps.IndicatorResourceCost(list_of_resources=[t1])]


def case_err_missing_arg():
    pb = ps.SchedulingProblem(name="c10")
    return pb, [ps.IndicatorResourceIdle()]


def case_err_none_cost():
    pb = ps.SchedulingProblem(name="c11")
    t1 = ps.FixedDurationTask(name="t1", duration=2)
    w = ps.Worker(name="W")
    t1.add_required_resource(w)
    w.cost = None
    return pb, [ps.IndicatorResourceCost(list_of_resources=[w])]


def case_none_cost_no_task():
    pb = ps.SchedulingProblem(name="c12", horizon=3)
    w = ps.Worker(name="W")
    w.cost = None
    return pb, [ps.IndicatorResourceCost(list_of_resources=[w])]


CASES = [
    ("const_7", case_const_7, {}),
    ("const_edge_values", case_const_edge_values, {}),
    ("linear_poly", case_linear_poly, {}),
    ("float_linear_warns", case_float_linear_warns, {"solve": False}),
    ("cumulative", case_cumulative, {"show_tasks": False}),
    ("cumulative_idle", lambda: case_cumulative(True), {"solve": False}),
    ("idle", case_idle, {}),
    ("idle_degenerate", lambda: case_idle(True), {"solve": False}),
    ("select_and_optimize", case_select_and_optimize, {"show_tasks": False}),
    ("idle_objective", case_idle_objective, {"show_tasks": False}),
    ("err_not_a_resource", case_err_not_a_resource, {}),
    ("err_missing_arg", case_err_missing_arg, {}),
    ("err_none_cost", case_err_none_cost, {}),
    ("none_cost_no_task", case_none_cost_no_task, {}),
]

if __name__ == "__main__":
    for title, build, kw in CASES:
        describe(title, build, **kw)
