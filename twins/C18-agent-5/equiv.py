"""Equivalence witness for the C18 refactoring (util.sort_no_duplicates,
Indicator.__init__, Buffer.__init__ + base.get_active_problem_or_raise).

Prints, for a set of small problems, a canonical description of the outcome:
errors raised at creation, the element's own assertions, the sorted list of the
solver's assertions and the solution values. Random parts of names (uids) are
masked. Run with the change applied and reversed: the outputs must be identical.
"""
import contextlib
import io
import os
import re
import sys

sys.path.insert(0, os.getcwd())

import z3

import processscheduler as ps
import processscheduler.base
from processscheduler.util import sort_no_duplicates

assert os.path.dirname(ps.__file__).startswith(os.getcwd()), ps.__file__


def mask(text):
    text = re.sub(r"\d{8,}", "#", str(text))
    return re.sub(r"_[0-9a-f]{8}\b", "_#", text)


def attempt(label, fn):
    """run fn, print what it returns or the error it raises"""
    try:
        res = fn()
    except Exception as exc:  # pylint: disable=broad-except
        first = mask(str(exc)).strip().splitlines()
        print(f"  {label}: ERROR {type(exc).__name__}: {' | '.join(l.strip() for l in first)}")
        return None
    print(f"  {label}: ok {mask(res) if res is not None else ''}")
    return res


def own_assertions(elem):
    return [mask(a) for a in elem.get_z3_assertions()]


def describe(problem, **solver_args):
    """sorted solver assertions and the solution"""
    out = io.StringIO()
    try:
        with contextlib.redirect_stdout(out):
            solver = ps.SchedulingSolver(problem=problem, **solver_args)
            solution = solver.solve()
    except Exception as exc:  # pylint: disable=broad-except
        print(f"  solver ERROR {type(exc).__name__}: {mask(exc)}")
        return
    for line in sorted(mask(a).replace("\n", " ") for a in solver._solver.assertions()):
        print("   A", re.sub(r"\s+", " ", line))
    if not solution:
        print("  solution: none")
        return
    print("  horizon", solution.horizon)
    for name in sorted(solution.tasks):
        t = solution.tasks[name]
        print("  task", name, t.start, t.end, t.duration, t.scheduled, sorted(t.assigned_resources))
    for name in sorted(solution.resources):
        print("  resource", name, sorted(solution.resources[name].assignments))
    for name in sorted(solution.buffers):
        b = solution.buffers[name]
        print("  buffer", name, b.level_change_times, b.level)
    for name in sorted(solution.indicators):
        print("  indicator", mask(name), solution.indicators[name])


def section(title):
    print("=" * 10, title)


# ---------------------------------------------------------------- 1
section("1 elements created before a problem exists")
processscheduler.base.active_problem = None
attempt("buffer initial", lambda: ps.NonConcurrentBuffer(name="b", initial_level=3).name)
attempt("buffer no level", lambda: ps.ConcurrentBuffer(name="b").name)
attempt("buffer final", lambda: ps.ConcurrentBuffer(name="b", final_level=0).name)
attempt("task", lambda: ps.FixedDurationTask(name="t", duration=1).name)
attempt("worker", lambda: ps.Worker(name="w").name)
attempt("cumulative", lambda: ps.CumulativeWorker(name="cw", size=2).name)
attempt("indicator", lambda: ps.IndicatorFromMathExpression(name="i", expression=z3.Int("x")).name)
attempt("indicator bounds", lambda: ps.IndicatorFromMathExpression(name="i", expression=z3.Int("x"), bounds=(0, 3)).name)
attempt("objective", lambda: ps.ObjectiveMinimizeMakespan().name)
attempt(
    "helper absent or raising",
    lambda: getattr(processscheduler.base, "active_problem"),
)

# ---------------------------------------------------------------- 2
section("2 buffer creation: levels, edge values, names")
pb = ps.SchedulingProblem(name="buffers", horizon=12)
for label, kwargs in [
    ("initial 0", dict(name="B0", initial_level=0)),
    ("initial 5", dict(name="B5", initial_level=5)),
    ("initial -2", dict(name="Bm2", initial_level=-2)),
    ("final only 0", dict(name="Bf0", final_level=0)),
    ("final only 7", dict(name="Bf7", final_level=7)),
    ("both", dict(name="Bboth", initial_level=1, final_level=4, lower_bound=0, upper_bound=9)),
    ("neither", dict(name="Bnone")),
    ("neither with bounds", dict(name="Bnone2", lower_bound=0, upper_bound=3)),
    ("duplicate name", dict(name="B5", initial_level=1)),
    ("wrong type", dict(name="Bstr", initial_level="abc")),
    ("extra field", dict(name="Bextra", initial_level=1, foo=2)),
    ("unnamed", dict(initial_level=2)),
]:
    for cls in (ps.NonConcurrentBuffer, ps.ConcurrentBuffer):
        kw = dict(kwargs)
        if "name" in kw and cls is ps.ConcurrentBuffer and label != "duplicate name":
            kw["name"] = kw["name"] + "c"

        def make(cls=cls, kw=kw):
            b = cls(**kw)
            return (
                b.name,
                b.type,
                own_assertions(b),
                [str(l) for l in b._buffer_levels],
                b._level_changes_time,
                b._unloading_tasks,
                b._loading_tasks,
            )

        attempt(f"{cls.__name__} {label}", make)
print("  registered buffers:", [mask(n) for n in pb.buffers])
describe(pb)

# ---------------------------------------------------------------- 3
section("3 buffers with loading / unloading tasks (sort_no_duplicates in the solver)")
for nb_tasks in (0, 1, 2, 3):
    for cls in (ps.NonConcurrentBuffer, ps.ConcurrentBuffer):
        print(f" -- {cls.__name__} with {nb_tasks} task(s)")
        pb = ps.SchedulingProblem(name=f"buf{nb_tasks}{cls.__name__}", horizon=10)
        buf = cls(name="Buf", initial_level=10, lower_bound=0)
        buf2 = cls(name="BufF", final_level=3 * nb_tasks)
        for i in range(nb_tasks):
            t = ps.FixedDurationTask(name=f"T{i}", duration=i + 1, optional=(i == 2))
            ps.TaskStartAt(task=t, value=2 * i)
            ps.TaskUnloadBuffer(task=t, buffer=buf, quantity=2)
            ps.TaskLoadBuffer(task=t, buffer=buf2, quantity=3)
        attempt("max level", lambda: own_assertions(ps.IndicatorMaxBufferLevel(buffer=buf, bounds=(0, 10))))
        attempt("min level", lambda: own_assertions(ps.IndicatorMinBufferLevel(buffer=buf2)))
        if nb_tasks == 3:
            ps.ForceScheduleNOptionalTasks(
                list_of_optional_tasks=[pb.tasks["T2"]], nb_tasks_to_schedule=1
            )
        describe(pb)

# ---------------------------------------------------------------- 4
section("4 indicator bounds")
pb = ps.SchedulingProblem(name="indicators", horizon=20)
t1 = ps.FixedDurationTask(name="t1", duration=3, due_date=2, due_date_is_deadline=False)
t2 = ps.VariableDurationTask(name="t2", min_duration=0, max_duration=9, due_date=15)
w = ps.Worker(name="W", cost=ps.ConstantFunction(value=2))
t1.add_required_resource(w)
t2.add_required_resource(w)
for label, kwargs in [
    ("no bounds", dict(name="i_none", expression=t1._start)),
    ("bounds 0 10", dict(name="i_0_10", expression=t1._end, bounds=(0, 10))),
    ("bounds equal", dict(name="i_5_5", expression=t2._duration, bounds=(5, 5))),
    ("bounds 0 0", dict(name="i_0_0", expression=t2._start - t2._start, bounds=(0, 0))),
    ("bounds negative", dict(name="i_neg", expression=-t2._end, bounds=(-15, -1))),
    ("bounds none lower", dict(name="i_nl", expression=t1._start, bounds=(None, 4))),
    ("bounds none upper", dict(name="i_nu", expression=t1._start, bounds=(1, None))),
    ("bounds 3 items", dict(name="i_3", expression=t1._start, bounds=(1, 2, 3))),
    ("bounds 1 item", dict(name="i_1", expression=t1._start, bounds=(1,))),
    ("bounds str", dict(name="i_s", expression=t1._start, bounds=("a", "b"))),
    ("duplicate name", dict(name="i_0_10", expression=t1._start, bounds=(0, 1))),
    ("int expression", dict(name="i_int", expression=7, bounds=(7, 8))),
    ("unnamed", dict(expression=t1._start + 1, bounds=(1, 30))),
]:

    def make(kwargs=kwargs):
        ind = ps.IndicatorFromMathExpression(**kwargs)
        return ind.name, ind.type, ind.bounds, str(ind._indicator_variable), own_assertions(ind)

    attempt(label, make)


for label, make_ind in [
    ("utilization", lambda: ps.IndicatorResourceUtilization(resource=w)),
    ("nb tasks assigned", lambda: ps.IndicatorNumberTasksAssigned(resource=w)),
    ("resource cost", lambda: ps.IndicatorResourceCost(list_of_resources=[w])),
    ("tardiness", lambda: ps.IndicatorTardiness()),
    ("nb tardy", lambda: ps.IndicatorNumberOfTardyTasks()),
    ("resource idle", lambda: ps.IndicatorResourceIdle(resource=w)),
]:

    def make(make_ind=make_ind):
        ind = make_ind()
        return ind.name, ind.bounds, str(ind._indicator_variable), own_assertions(ind)

    attempt(label, make)
print("  registered indicators:", [mask(n) for n in pb.indicators])
# a unique solution (some indicator variables have random names)
ps.TaskStartAt(name="fix_t1", task=t1, value=0)
ps.TaskStartAt(name="fix_t2", task=t2, value=4)
ps.ObjectiveMinimizeMakespan()
describe(pb)

print(" -- maximised bounded indicator, both optimisers")
for optimizer in ("incremental", "optimize"):
    pb = ps.SchedulingProblem(name="maxbounded" + optimizer, horizon=30)
    t = ps.FixedDurationTask(name="t", duration=2)
    ind = ps.IndicatorFromMathExpression(name="start", expression=t._start, bounds=(0, 10))
    ps.Objective(name="maxstart", target=ind, kind="maximize")
    describe(pb, optimizer=optimizer)

print(" -- contradictory bounds")
pb = ps.SchedulingProblem(name="contradict", horizon=30)
t = ps.FixedDurationTask(name="t", duration=2)
attempt(
    "lower above upper",
    lambda: own_assertions(
        ps.IndicatorFromMathExpression(name="c", expression=t._start, bounds=(8, 3))
    ),
)
describe(pb)

# ---------------------------------------------------------------- 5
section("5 sort_no_duplicates called directly")
for n in (0, 1, 2, 3, 4):
    values = [z3.Int(f"v{n}_{i}") for i in range(n)]
    sorted_vars, constraints = sort_no_duplicates(values)
    print("  n =", n, "sorted:", sorted_vars)
    print("     constraints:", [re.sub(r"\s+", " ", str(c)) for c in constraints])
    print("     input untouched:", values, "fresh distinct:", len({str(v) for v in sorted_vars}) == n)
    s = z3.Solver()
    s.add(constraints)
    for i, v in enumerate(values):
        s.add(v == (7 * (i + 2)) % 5 + 10 * (i % 2))
    print("     check:", s.check(), [s.model()[v] for v in sorted_vars] if n else [])
    # two equal values cannot be strictly sorted
    if n >= 2:
        s2 = z3.Solver()
        s2.add(constraints)
        s2.add(values[0] == values[1])
        print("     with a duplicate:", s2.check())
mixed, cs = sort_no_duplicates([z3.Int("a") + 1, z3.IntVal(4)])
print("  expressions:", mixed, [re.sub(r"\s+", " ", str(c)) for c in cs])

# ---------------------------------------------------------------- 6
section("6 constraints that sort twice: worker with 1, 2, 3 tasks, optional ones")
for nb_tasks in (1, 2, 3):
    for optional in (False, True):
        print(f" -- {nb_tasks} task(s), optional={optional}")
        pb = ps.SchedulingProblem(name=f"sort{nb_tasks}{optional}", horizon=12)
        w1 = ps.Worker(name="W1")
        w2 = ps.Worker(name="W2")
        tasks = []
        for i in range(nb_tasks):
            t = ps.FixedDurationTask(
                name=f"T{i}", duration=i + 1, optional=optional and i > 0, release_date=i
            )
            t.add_required_resource(w1)
            if i == 1:
                sel = ps.SelectWorkers(name="sel", list_of_workers=[w2, ps.Worker(name="W3")])
                t.add_required_resource(sel)
                # a unique solution: the selection flags have random names
                ps.ConstraintFromExpression(name="pick_w2", expression=sel._selection_dict[w2])
            tasks.append(t)
        attempt("ResourceNonDelay", lambda: own_assertions(ps.ResourceNonDelay(name="nd", resource=w1)))
        attempt("ResourceNonDelay W2", lambda: own_assertions(ps.ResourceNonDelay(name="nd2", resource=w2)))
        attempt(
            "ResourceTasksDistance",
            lambda: own_assertions(
                ps.ResourceTasksDistance(name="dist", resource=w1, distance=2, mode="max")
            ),
        )
        attempt(
            "TasksContiguous",
            lambda: own_assertions(ps.TasksContiguous(name="contig", list_of_tasks=tasks, optional=optional)),
        )
        attempt(
            "IndicatorResourceIdle",
            lambda: own_assertions(ps.IndicatorResourceIdle(resource=w1)),
        )
        ps.ObjectiveMinimizeMakespan()
        describe(pb)

# ---------------------------------------------------------------- 7
section("7 ill-formed and well-formed elements of the property")
pb = ps.SchedulingProblem(name="illformed", horizon=10)
wa = ps.Worker(name="WA")
wb = ps.Worker(name="WB")
wc = ps.Worker(name="WC", productivity=0)
ta = ps.FixedDurationTask(name="TA", duration=1, work_amount=0, priority=0)
to = ps.FixedDurationTask(name="TO", duration=2, optional=True)
ta.add_required_resource(wa)
cases = [
    ("dup task", lambda: ps.FixedDurationTask(name="TA", duration=3).name),
    ("dup worker", lambda: ps.Worker(name="WA").name),
    ("duration 0", lambda: ps.FixedDurationTask(name="d0", duration=0).name),
    ("duration -1", lambda: ps.FixedDurationTask(name="dm1", duration=-1).name),
    ("work_amount -1", lambda: ps.FixedDurationTask(name="wa", duration=1, work_amount=-1).name),
    ("priority -1", lambda: ps.FixedDurationTask(name="pr", duration=1, priority=-1).name),
    ("min_duration -1", lambda: ps.VariableDurationTask(name="md", min_duration=-1).name),
    ("min_duration 0", lambda: own_assertions(ps.VariableDurationTask(name="md0", min_duration=0))),
    ("zero duration task", lambda: own_assertions(ps.ZeroDurationTask(name="z"))),
    ("select 3 of 2", lambda: ps.SelectWorkers(list_of_workers=[wa, wb], nb_workers_to_select=3).name),
    ("select of 1", lambda: ps.SelectWorkers(list_of_workers=[wa]).name),
    ("select 2 of 2", lambda: mask(ps.SelectWorkers(name="s22", list_of_workers=[wa, wb], nb_workers_to_select=2)._selection_assertion)),
    ("cumulative 1", lambda: ps.CumulativeWorker(name="c1", size=1).name),
    ("cumulative 2", lambda: [x.name for x in ps.CumulativeWorker(name="c2", size=2, productivity=3)._cumulative_workers]),
    ("optional rule on mandatory", lambda: ps.OptionalTaskConditionSchedule(task=ta, condition=ta._start > 1).name),
    ("optional rule on optional", lambda: own_assertions(ps.OptionalTaskConditionSchedule(name="ocs", task=to, condition=ta._start > 1))),
    ("force schedule mandatory", lambda: ps.ForceScheduleNOptionalTasks(list_of_optional_tasks=[ta, to]).name),
    ("force apply mandatory", lambda: ps.ForceApplyNOptionalConstraints(list_of_optional_constraints=[ps.TaskStartAt(name="sa", task=ta, value=2)]).name),
    ("force apply optional", lambda: own_assertions(ps.ForceApplyNOptionalConstraints(name="fa", list_of_optional_constraints=[ps.TaskStartAt(name="sao", task=to, value=1, optional=True)]))),
    ("workload unassigned", lambda: own_assertions(ps.WorkLoad(name="wl_b", resource=wb, dict_time_intervals_and_bound={(0, 4): 1}))),
    ("workload assigned", lambda: own_assertions(ps.WorkLoad(name="wl_a", resource=wa, dict_time_intervals_and_bound={(0, 4): 1}))),
    ("unavailable unassigned", lambda: own_assertions(ps.ResourceUnavailable(name="ru_b", resource=wb, list_of_time_intervals=[(0, 2)]))),
    ("unavailable assigned", lambda: own_assertions(ps.ResourceUnavailable(name="ru_a", resource=wa, list_of_time_intervals=[(0, 2)]))),
    ("non delay unassigned", lambda: own_assertions(ps.ResourceNonDelay(name="nd_b", resource=wb))),
    ("buffer in problem", lambda: own_assertions(ps.NonConcurrentBuffer(name="BB", initial_level=0, final_level=0))),
    ("dup buffer", lambda: ps.ConcurrentBuffer(name="BB", final_level=1).name),
    ("dup indicator", lambda: [ps.IndicatorFromMathExpression(name="II", expression=ta._end, bounds=(0, 9)).name, ps.IndicatorFromMathExpression(name="II", expression=ta._end).name]),
]
for label, fn in cases:
    attempt(label, fn)
print("  tasks:", list(pb.tasks), "workers:", list(pb.workers), "buffers:", list(pb.buffers), "indicators:", list(pb.indicators))
print("  constraints:", sorted(mask(c) for c in pb.constraints))
describe(pb)
