"""Equivalence script for the refactoring of SameWorkers / DistinctWorkers
(processscheduler/resource_constraint.py).

Run with:  cd /tmp/t6_C02 && /venv/bin/python _twin/equiv.py

For every case it prints the assertions of the constraint IN ORDER, the sorted
assertions of the solver, and the outcome of the resolution (or the error raised).
The uuids are made deterministic (seeded generator in place of uuid4 in
processscheduler.base) so that two runs print exactly the same names.
"""
import contextlib
import io
import os
import random
import sys
import uuid

sys.path.insert(0, os.getcwd())

import processscheduler as ps  # noqa: E402
import processscheduler.base  # noqa: E402

assert os.path.dirname(os.path.dirname(os.path.abspath(ps.__file__))) == os.getcwd()

_rng = random.Random(0)


def _det_uuid4():
    return uuid.UUID(int=_rng.getrandbits(128), version=4)


processscheduler.base.uuid4 = _det_uuid4


def describe(case_name, build):
    """build() creates a problem and returns (problem, list of constraints to dump)"""
    _rng.seed(hash_name(case_name))
    print("=" * 70)
    print("CASE", case_name)
    try:
        problem, constraints = build()
    except Exception as exc:  # the error is the outcome
        print("  BUILD ERROR:", type(exc).__name__, "|", str(exc).splitlines()[0])
        return
    for cstr in constraints:
        print(f"  constraint {cstr.name} ({cstr.type}) optional={cstr.optional}")
        assts = cstr.get_z3_assertions()
        print(f"    {len(assts)} assertion(s), in order:")
        for asst in assts:
            print("     ", " ".join(str(asst).split()))
    try:
        # the solver prints its type and the computation time: not part of the outcome
        with contextlib.redirect_stdout(io.StringIO()):
            solver = ps.SchedulingSolver(problem=problem)
            solution = solver.solve()
    except Exception as exc:
        print("  SOLVE ERROR:", type(exc).__name__, "|", str(exc).splitlines()[0])
        return
    print("  solver assertions (sorted):")
    for line in sorted(" ".join(str(a).split()) for a in solver._solver.assertions()):
        print("     ", line)
    if not solution:
        print("  OUTCOME: no solution", repr(solution))
        return
    print("  OUTCOME: horizon", solution.horizon)
    for tname in sorted(solution.tasks):
        t = solution.tasks[tname]
        print(
            f"    task {tname}: scheduled={t.scheduled} start={t.start} end={t.end} "
            f"duration={t.duration} resources={sorted(t.assigned_resources)}"
        )
    for rname in sorted(solution.resources):
        print(f"    resource {rname}: {sorted(solution.resources[rname].assignments)}")
    # the flags of the optional constraints
    model = solver._solver.model()
    for cstr in constraints:
        if cstr.optional:
            print(f"    {cstr.name} applied:", model.eval(cstr._applied))


def hash_name(name):
    return sum((i + 1) * ord(c) for i, c in enumerate(name))


def workers(*names):
    return [ps.Worker(name=n) for n in names]


# ---------------------------------------------------------------- cases
def same_identical_lists():
    pb = ps.SchedulingProblem(name="same_identical", horizon=4)
    t1 = ps.FixedDurationTask(name="t1", duration=2)
    t2 = ps.FixedDurationTask(name="t2", duration=2)
    w1, w2, w3 = workers("w1", "w2", "w3")
    s1 = ps.SelectWorkers(name="s1", list_of_workers=[w1, w2, w3])
    s2 = ps.SelectWorkers(name="s2", list_of_workers=[w1, w2, w3])
    t1.add_required_resource(s1)
    t2.add_required_resource(s2)
    c = ps.SameWorkers(name="same", select_workers_1=s1, select_workers_2=s2)
    return pb, [c]


def same_partial_overlap():
    # only w1 is offered by both: both tasks get w1 and cannot overlap
    pb = ps.SchedulingProblem(name="same_partial", horizon=5)
    t1 = ps.FixedDurationTask(name="t1", duration=2)
    t2 = ps.FixedDurationTask(name="t2", duration=3)
    w1, w2, w3 = workers("w1", "w2", "w3")
    s1 = ps.SelectWorkers(name="s1", list_of_workers=[w2, w1])
    s2 = ps.SelectWorkers(name="s2", list_of_workers=[w1, w3])
    t1.add_required_resource(s1)
    t2.add_required_resource(s2)
    ps.TaskStartAt(task=t1, value=0)
    c = ps.SameWorkers(name="same", select_workers_1=s1, select_workers_2=s2)
    return pb, [c]


def same_partial_overlap_reversed_roles():
    pb = ps.SchedulingProblem(name="same_partial_rev", horizon=5)
    t1 = ps.FixedDurationTask(name="t1", duration=2)
    t2 = ps.FixedDurationTask(name="t2", duration=3)
    w1, w2, w3, w4 = workers("w1", "w2", "w3", "w4")
    s1 = ps.SelectWorkers(
        name="s1", list_of_workers=[w4, w2, w1, w3], nb_workers_to_select=2, kind="max"
    )
    s2 = ps.SelectWorkers(name="s2", list_of_workers=[w3, w1], kind="min")
    t1.add_required_resource(s1)
    t2.add_required_resource(s2)
    ps.TaskStartAt(task=t2, value=0)
    c = ps.SameWorkers(name="same", select_workers_1=s2, select_workers_2=s1)
    return pb, [c]


def same_disjoint_lists():
    # no common worker: every flag is refused, exactly 1 cannot hold -> no solution
    pb = ps.SchedulingProblem(name="same_disjoint", horizon=4)
    t1 = ps.FixedDurationTask(name="t1", duration=1)
    t2 = ps.FixedDurationTask(name="t2", duration=1)
    w1, w2, w3, w4 = workers("w1", "w2", "w3", "w4")
    s1 = ps.SelectWorkers(name="s1", list_of_workers=[w1, w2])
    s2 = ps.SelectWorkers(name="s2", list_of_workers=[w3, w4])
    t1.add_required_resource(s1)
    t2.add_required_resource(s2)
    c = ps.SameWorkers(name="same", select_workers_1=s1, select_workers_2=s2)
    return pb, [c]


def same_disjoint_optional():
    # the same, but the constraint is optional: it is simply not applied
    pb = ps.SchedulingProblem(name="same_disjoint_opt", horizon=1)
    t1 = ps.FixedDurationTask(name="t1", duration=1)
    t2 = ps.FixedDurationTask(name="t2", duration=1)
    w1, w2, w3, w4 = workers("w1", "w2", "w3", "w4")
    s1 = ps.SelectWorkers(name="s1", list_of_workers=[w1, w2], nb_workers_to_select=2)
    s2 = ps.SelectWorkers(name="s2", list_of_workers=[w3, w4], nb_workers_to_select=2)
    t1.add_required_resource(s1)
    t2.add_required_resource(s2)
    c = ps.SameWorkers(
        name="same", select_workers_1=s1, select_workers_2=s2, optional=True
    )
    return pb, [c]


def same_optional_forced_with_work_amount():
    pb = ps.SchedulingProblem(name="same_opt_forced", horizon=6)
    t1 = ps.VariableDurationTask(name="t1", work_amount=6)
    t2 = ps.FixedDurationTask(name="t2", duration=2, optional=True)
    w1 = ps.Worker(name="w1", productivity=3)
    w2 = ps.Worker(name="w2", productivity=0)
    w3 = ps.Worker(name="w3", productivity=1)
    s1 = ps.SelectWorkers(name="s1", list_of_workers=[w1, w2, w3], kind="min")
    s2 = ps.SelectWorkers(name="s2", list_of_workers=[w3, w1])
    t1.add_required_resource(s1)
    t2.add_required_resource(s2)
    c = ps.SameWorkers(
        name="same", select_workers_1=s1, select_workers_2=s2, optional=True
    )
    f = ps.ForceApplyNOptionalConstraints(
        name="force", list_of_optional_constraints=[c], nb_constraints_to_apply=1
    )
    ps.ForceScheduleNOptionalTasks(list_of_optional_tasks=[t2], nb_tasks_to_schedule=1)
    ps.TaskStartAt(task=t1, value=0)
    ps.TaskEndAt(task=t1, value=2)
    return pb, [c, f]


def same_selection_with_itself():
    pb = ps.SchedulingProblem(name="same_self", horizon=2)
    t1 = ps.FixedDurationTask(name="t1", duration=2)
    w1, w2 = workers("w1", "w2")
    s1 = ps.SelectWorkers(name="s1", list_of_workers=[w1, w2], nb_workers_to_select=2)
    t1.add_required_resource(s1)
    c = ps.SameWorkers(name="same", select_workers_1=s1, select_workers_2=s1)
    return pb, [c]


def same_with_cumulative_and_duplicate():
    pb = ps.SchedulingProblem(name="same_cumul", horizon=3)
    t1 = ps.FixedDurationTask(name="t1", duration=3)
    t2 = ps.FixedDurationTask(name="t2", duration=3)
    t3 = ps.FixedDurationTask(name="t3", duration=3)
    w1 = ps.Worker(name="w1")
    cw = ps.CumulativeWorker(name="cw", size=2)
    s1 = ps.SelectWorkers(name="s1", list_of_workers=[cw, w1, cw])
    s2 = ps.SelectWorkers(name="s2", list_of_workers=[w1, cw])
    t1.add_required_resource(s1)
    t2.add_required_resource(s2)
    t3.add_required_resource(w1)
    c = ps.SameWorkers(name="same", select_workers_1=s1, select_workers_2=s2)
    return pb, [c]


def same_twice_the_same_pair():
    # two constraints over the same couple, and the couple in both directions
    pb = ps.SchedulingProblem(name="same_twice", horizon=4)
    t1 = ps.FixedDurationTask(name="t1", duration=2)
    t2 = ps.FixedDurationTask(name="t2", duration=2)
    w1, w2, w3 = workers("w1", "w2", "w3")
    s1 = ps.SelectWorkers(name="s1", list_of_workers=[w1, w2])
    s2 = ps.SelectWorkers(name="s2", list_of_workers=[w2, w3])
    t1.add_required_resource(s1)
    t2.add_required_resource(s2)
    c1 = ps.SameWorkers(name="same_a", select_workers_1=s1, select_workers_2=s2)
    c2 = ps.SameWorkers(name="same_b", select_workers_1=s2, select_workers_2=s1)
    return pb, [c1, c2]


def distinct_identical_lists():
    pb = ps.SchedulingProblem(name="distinct_identical", horizon=3)
    t1 = ps.FixedDurationTask(name="t1", duration=2)
    t2 = ps.FixedDurationTask(name="t2", duration=2)
    w1, w2 = workers("w1", "w2")
    s1 = ps.SelectWorkers(name="s1", list_of_workers=[w1, w2])
    s2 = ps.SelectWorkers(name="s2", list_of_workers=[w2, w1])
    t1.add_required_resource(s1)
    t2.add_required_resource(s2)
    ps.ResourceUnavailable(resource=w1, list_of_time_intervals=[(0, 1)])
    c = ps.DistinctWorkers(name="distinct", select_workers_1=s1, select_workers_2=s2)
    return pb, [c]


def distinct_partial_overlap_optional():
    pb = ps.SchedulingProblem(name="distinct_partial_opt", horizon=4)
    t1 = ps.FixedDurationTask(name="t1", duration=2)
    t2 = ps.FixedDurationTask(name="t2", duration=2)
    w1, w2, w3 = workers("w1", "w2", "w3")
    s1 = ps.SelectWorkers(
        name="s1", list_of_workers=[w1, w2, w3], nb_workers_to_select=2, kind="min"
    )
    s2 = ps.SelectWorkers(
        name="s2", list_of_workers=[w3, w2], nb_workers_to_select=1, kind="max"
    )
    t1.add_required_resource(s1)
    t2.add_required_resource(s2)
    c = ps.DistinctWorkers(
        name="distinct", select_workers_1=s1, select_workers_2=s2, optional=True
    )
    f = ps.ForceApplyNOptionalConstraints(
        name="force", list_of_optional_constraints=[c], kind="min"
    )
    return pb, [c, f]


def distinct_disjoint_lists():
    # nothing in common: the constraint has no assertion at all
    pb = ps.SchedulingProblem(name="distinct_disjoint", horizon=2)
    t1 = ps.FixedDurationTask(name="t1", duration=2)
    t2 = ps.FixedDurationTask(name="t2", duration=1)
    w1, w2, w3, w4 = workers("w1", "w2", "w3", "w4")
    s1 = ps.SelectWorkers(name="s1", list_of_workers=[w1, w2], nb_workers_to_select=2)
    s2 = ps.SelectWorkers(name="s2", list_of_workers=[w3, w4], nb_workers_to_select=2)
    t1.add_required_resource(s1)
    t2.add_required_resource(s2)
    ps.TaskStartAt(task=t2, value=1)
    c = ps.DistinctWorkers(name="distinct", select_workers_1=s1, select_workers_2=s2)
    return pb, [c]


def distinct_selection_with_itself():
    # Not(And(f, f)) for every worker: nothing can be selected -> no solution
    pb = ps.SchedulingProblem(name="distinct_self", horizon=2)
    t1 = ps.FixedDurationTask(name="t1", duration=2)
    w1, w2 = workers("w1", "w2")
    s1 = ps.SelectWorkers(name="s1", list_of_workers=[w1, w2])
    t1.add_required_resource(s1)
    c = ps.DistinctWorkers(name="distinct", select_workers_1=s1, select_workers_2=s1)
    return pb, [c]


def distinct_and_same_chain():
    # s1 == s2, s2 != s3 over two workers: t3's worker is the other one
    pb = ps.SchedulingProblem(name="chain", horizon=4)
    t1 = ps.FixedDurationTask(name="t1", duration=2)
    t2 = ps.FixedDurationTask(name="t2", duration=2)
    t3 = ps.ZeroDurationTask(name="t3")
    w1, w2 = workers("w1", "w2")
    s1 = ps.SelectWorkers(name="s1", list_of_workers=[w1, w2])
    s2 = ps.SelectWorkers(name="s2", list_of_workers=[w1, w2])
    s3 = ps.SelectWorkers(name="s3", list_of_workers=[w1, w2])
    t1.add_required_resource(s1)
    t2.add_required_resource(s2)
    t3.add_required_resource(s3)
    ps.ResourceUnavailable(resource=w2, list_of_time_intervals=[(1, 2)])
    ps.TaskStartAt(task=t1, value=0)
    ps.TaskStartAt(task=t3, value=0)
    c1 = ps.SameWorkers(name="same", select_workers_1=s1, select_workers_2=s2)
    c2 = ps.DistinctWorkers(name="distinct", select_workers_1=s2, select_workers_2=s3)
    return pb, [c1, c2]


def error_wrong_type_same():
    ps.SchedulingProblem(name="err_same", horizon=2)
    w1, w2 = workers("w1", "w2")
    s1 = ps.SelectWorkers(name="s1", list_of_workers=[w1, w2])
    ps.SameWorkers(select_workers_1=s1, select_workers_2=w1)


def error_wrong_type_distinct():
    ps.SchedulingProblem(name="err_distinct", horizon=2)
    w1, w2 = workers("w1", "w2")
    s1 = ps.SelectWorkers(name="s1", list_of_workers=[w1, w2])
    ps.DistinctWorkers(select_workers_1=None, select_workers_2=s1)


def error_missing_field():
    ps.SchedulingProblem(name="err_missing", horizon=2)
    w1, w2 = workers("w1", "w2")
    s1 = ps.SelectWorkers(name="s1", list_of_workers=[w1, w2])
    ps.SameWorkers(select_workers_1=s1)


CASES = [
    same_identical_lists,
    same_partial_overlap,
    same_partial_overlap_reversed_roles,
    same_disjoint_lists,
    same_disjoint_optional,
    same_optional_forced_with_work_amount,
    same_selection_with_itself,
    same_with_cumulative_and_duplicate,
    same_twice_the_same_pair,
    distinct_identical_lists,
    distinct_partial_overlap_optional,
    distinct_disjoint_lists,
    distinct_selection_with_itself,
    distinct_and_same_chain,
    error_wrong_type_same,
    error_wrong_type_distinct,
    error_missing_field,
]

if __name__ == "__main__":
    for case in CASES:
        describe(case.__name__, case)
