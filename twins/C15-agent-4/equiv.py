"""Equivalence harness for the C15 twin refactoring.

Exercises util.get_maximum / util.get_minimum (now thin wrappers around
util._extremum_assertions) and ObjectiveMinimizeFlowtimeSingleResource.__init__
on varied small problems, under several solver configurations, and prints a
canonical description of every outcome. The output must be byte-identical with
and without the patch. uuid.uuid4 is replaced, before the library is imported, by
a seeded generator that is reset before each problem is built: the random parts of
the names are then the same from one run to the other and need no masking, so that
the names of the z3 variables are compared exactly (and the z3 search, which
depends on the names, is reproducible).
"""
import contextlib
import io
import os
import random
import sys
import uuid
import warnings

sys.path.insert(0, os.getcwd())

_UUID_RNG = random.Random(2024)


def _deterministic_uuid4():
    return uuid.UUID(int=_UUID_RNG.getrandbits(128), version=4)


def reset_randomness():
    _UUID_RNG.seed(2024)
    random.seed(4202)  # the solver draws its z3 seeds from random when random_values


uuid.uuid4 = _deterministic_uuid4

import z3  # noqa: E402

import processscheduler as ps  # noqa: E402
from processscheduler.util import get_maximum, get_minimum  # noqa: E402


CONFIGS = [
    dict(),
    dict(optimizer="optimize"),
    dict(optimizer="optimize", optimize_priority="lex"),
    dict(optimizer="optimize", optimize_priority="box"),
    dict(optimizer="optimize", optimize_priority="weight"),
    dict(parallel=True),
    dict(random_values=True),
    dict(logics="QF_LIA"),
    dict(logics="QF_UFLIA", verbosity=0),
    dict(debug=True),
]


def mask(text):
    """nothing to mask: uuids are deterministic (see the module docstring)"""
    return text


def quiet(fun, *args, **kwargs):
    """run fun with stdout silenced (the solver is chatty, and times vary)"""
    with contextlib.redirect_stdout(io.StringIO()):
        with warnings.catch_warnings():
            warnings.simplefilter("ignore")
            return fun(*args, **kwargs)


def describe_objects(problem):
    print("  indicators:")
    for name, indic in problem.indicators.items():
        print("   ", mask(name), "bounds", indic.bounds)
        # order matters here: this is the order in which they were appended
        for asst in indic.get_z3_assertions():
            print("      ", mask(str(asst).replace("\n", " ")))
    print("  objectives:")
    for name, obj in problem.objectives.items():
        print("   ", mask(name), obj.kind, obj.weight, mask(str(obj._target)), obj._bounds)


def describe_solver(build, config):
    """sorted solver assertions and the outcome, for one configuration; the problem
    is rebuilt for each configuration (a multi-objective problem can only be
    initialized once)"""
    problem = None

    def run():
        nonlocal problem
        reset_randomness()
        problem = build()
        solver = ps.SchedulingSolver(problem=problem, max_time=60, **config)
        solver.initialize()
        assertions = sorted(
            mask(str(a).replace("\n", " ")) for a in solver._solver.assertions()
        )
        solution = solver.solve()
        return solver, assertions, solution

    try:
        solver, assertions, solution = quiet(run)
    except Exception as exc:  # pylint: disable=broad-except
        print("   ", config, "ERROR", type(exc).__name__, mask(str(exc)))
        return
    print("   ", config, "nb assertions", len(assertions))
    if not config:
        for a in assertions:
            print("       A:", a)
    if not solution:
        print("      -> no solution")
        return
    indicators = {mask(k): v for k, v in solution.indicators.items()}
    # only the quantities the optimisation decides are stable across configurations
    print("      -> indicators", sorted(indicators.items()))
    if not (config.get("random_values") or config.get("parallel")):
        tasks = {
            n: (t.start, t.end, t.scheduled) for n, t in solution.tasks.items()
        }
        print("      -> tasks", sorted(tasks.items()))
    check_valid(problem, solution)


def check_valid(problem, solution):
    """a light validity check: horizon, durations, no overlap on a worker"""
    ok = True
    for name, task in problem.tasks.items():
        sol = solution.tasks[name]
        if sol.scheduled:
            ok &= 0 <= sol.start <= sol.end <= solution.horizon
            if isinstance(task, (ps.FixedDurationTask, ps.ZeroDurationTask)):
                ok &= sol.end - sol.start == sol.duration
    for res in solution.resources.values():
        spans = sorted((s, e) for _, s, e in res.assignments)
        for (s1, e1), (s2, e2) in zip(spans, spans[1:]):
            if "Cumul" not in res.type:
                ok &= e1 <= s2
    print("      -> valid", bool(ok))


def case(title, build, configs=CONFIGS):
    print("=" * 70)
    print(title)
    reset_randomness()
    try:
        problem = quiet(build)
    except Exception as exc:  # pylint: disable=broad-except
        print("  BUILD ERROR", type(exc).__name__, mask(str(exc)))
        if ps.base.active_problem is not None:
            describe_objects(ps.base.active_problem)
        return
    describe_objects(problem)
    print("  solver:")
    for config in configs:
        describe_solver(build, config)


#
# direct calls of the util functions
#
def util_cases():
    print("=" * 70)
    print("util.get_maximum / util.get_minimum, direct calls")
    m = z3.Int("m")
    a, b, c = z3.Ints("a b c")
    inputs = {
        "three vars": [a, b, c],
        "one var": [a],
        "ints and vars": [0, a, -3],
        "expressions": [a + 1, b * 2, c - a],
        "tuple": (a, b),
        "dict values": {"x": a, "y": b}.values(),
        "repeated": [a, a],
        "empty list": [],
        "empty tuple": (),
        "None": None,
        "zero (falsy)": 0,
        "generator": "GEN",
        "not iterable": 5,
    }
    for fun in (get_maximum, get_minimum):
        for label, values in inputs.items():
            if isinstance(values, str) and values == "GEN":
                values = (v for v in [a, b, c])
            try:
                res = fun(m, values)
                print(f"  {fun.__name__}({label}) ->", type(res).__name__, [str(r) for r in res])
            except Exception as exc:  # pylint: disable=broad-except
                print(f"  {fun.__name__}({label}) -> ERROR", type(exc).__name__, exc)
    # python int as the extremum: comparisons are reflected on the z3 side
    for fun in (get_maximum, get_minimum):
        res = fun(7, [a, b])
        print(f"  {fun.__name__}(7, [a, b]) ->", [str(r) for r in res])
    # the assertions do define the extremum
    for fun, expected in ((get_maximum, 9), (get_minimum, -4)):
        s = z3.Solver()
        s.add(fun(m, [a, b, c]))
        s.add(a == 2, b == 9, c == -4)
        print(f"  {fun.__name__} model:", s.check(), s.model()[m], "expected", expected)
        s.add(m != expected)
        print(f"  {fun.__name__} unique:", s.check())


#
# scheduling problems
#
def pb_flowtime_interval(lower, upper, optional=False, horizon=20):
    def build():
        pb = ps.SchedulingProblem(name=f"Flow_{lower}_{upper}_{optional}", horizon=horizon)
        w = ps.Worker(name="W1")
        t1 = ps.FixedDurationTask(name="t1", duration=2)
        t2 = ps.FixedDurationTask(name="t2", duration=3, optional=optional)
        t3 = ps.VariableDurationTask(name="t3", min_duration=1, max_duration=4)
        for t in (t1, t2, t3):
            t.add_required_resource(w)
        ps.TaskStartAfter(task=t1, value=4)
        ps.TaskEndBefore(task=t3, value=15)
        ps.ObjectiveMinimizeFlowtimeSingleResource(
            resource=w, time_interval=[lower, upper]
        )
        return pb

    return build


def pb_flowtime_no_interval(horizon):
    def build():
        if horizon is None:
            pb = ps.SchedulingProblem(name="FlowNoInterval_free")
        else:
            pb = ps.SchedulingProblem(name=f"FlowNoInterval_{horizon}", horizon=horizon)
        w = ps.Worker(name="W1")
        t1 = ps.FixedDurationTask(name="t1", duration=2)
        t2 = ps.FixedDurationTask(name="t2", duration=3)
        t0 = ps.ZeroDurationTask(name="t0")
        for t in (t1, t2, t0):
            t.add_required_resource(w)
        ps.TaskStartAt(task=t1, value=0)
        ps.ObjectiveMinimizeFlowtimeSingleResource(resource=w)
        return pb

    return build


def pb_flowtime_explicit_none():
    pb = ps.SchedulingProblem(name="FlowExplicitNone", horizon=9)
    w = ps.Worker(name="W1")
    t1 = ps.FixedDurationTask(name="t1", duration=2)
    t1.add_required_resource(w)
    ps.TaskStartAt(task=t1, value=0)
    ps.ObjectiveMinimizeFlowtimeSingleResource(resource=w, time_interval=None)
    return pb


def pb_flowtime_no_task():
    # a resource nobody requires: both Or() are built from an empty list
    pb = ps.SchedulingProblem(name="FlowNoTask", horizon=5)
    w = ps.Worker(name="Lonely")
    ps.FixedDurationTask(name="t1", duration=2)
    ps.ObjectiveMinimizeFlowtimeSingleResource(resource=w, time_interval=(0, 5))
    return pb


def pb_flowtime_two_intervals_and_makespan():
    pb = ps.SchedulingProblem(name="FlowTwoIntervals", horizon=16)
    w = ps.Worker(name="W1")
    tasks = []
    for i, (lo, up) in enumerate([(0, 7), (0, 7), (8, 15), (8, 15)]):
        t = ps.FixedDurationTask(name=f"T{i}", duration=1 + i % 2)
        t.add_required_resource(w)
        ps.TaskStartAfter(task=t, value=lo)
        ps.TaskEndBefore(task=t, value=up)
        tasks.append(t)
    ps.ObjectiveMinimizeFlowtimeSingleResource(resource=w, time_interval=(0, 7))
    ps.ObjectiveMinimizeFlowtimeSingleResource(resource=w, time_interval=(8, 15))
    return pb


def pb_flowtime_select_workers():
    pb = ps.SchedulingProblem(name="FlowSelect", horizon=12)
    w1 = ps.Worker(name="W1")
    w2 = ps.Worker(name="W2")
    for i in range(3):
        t = ps.FixedDurationTask(name=f"T{i}", duration=2)
        t.add_required_resource(ps.SelectWorkers(list_of_workers=[w1, w2], nb_workers_to_select=1))
    ps.ObjectiveMinimizeFlowtimeSingleResource(resource=w1, time_interval=[0, 12])
    return pb


def pb_flowtime_bad_interval(interval):
    def build():
        pb = ps.SchedulingProblem(name="FlowBad", horizon=12)
        w1 = ps.Worker(name="W1")
        t = ps.FixedDurationTask(name="T", duration=2)
        t.add_required_resource(w1)
        ps.ObjectiveMinimizeFlowtimeSingleResource(resource=w1, time_interval=interval)
        return pb

    return build


def pb_flowtime_missing_resource():
    ps.SchedulingProblem(name="FlowMissing", horizon=12)
    ps.ObjectiveMinimizeFlowtimeSingleResource(time_interval=[0, 3])


def pb_start_latest(optional):
    def build():
        pb = ps.SchedulingProblem(name=f"StartLatest_{optional}", horizon=11)
        w = ps.Worker(name="W1")
        t1 = ps.FixedDurationTask(name="t1", duration=2)
        t2 = ps.FixedDurationTask(name="t2", duration=3, optional=optional)
        t3 = ps.ZeroDurationTask(name="t3")
        t1.add_required_resource(w)
        t2.add_required_resource(w)
        ps.TaskPrecedence(task_before=t1, task_after=t2)
        ps.ObjectiveTasksStartLatest()
        return pb

    return build


def pb_greatest_start_subset():
    pb = ps.SchedulingProblem(name="GreatestStartSubset")
    w = ps.Worker(name="W1")
    ts = [ps.FixedDurationTask(name=f"t{i}", duration=i) for i in range(1, 5)]
    for t in ts:
        t.add_required_resource(w)
    ps.ObjectiveMinimizeGreatestStartTime(list_of_tasks=ts[:3])
    ps.ObjectiveMinimizeMakespan()
    return pb


def pb_greatest_start_empty():
    pb = ps.SchedulingProblem(name="GreatestStartEmpty", horizon=4)
    ps.FixedDurationTask(name="t", duration=1)
    ps.ObjectiveMinimizeGreatestStartTime(list_of_tasks=[])
    return pb


def pb_buffer_levels(concurrent):
    def build():
        pb = ps.SchedulingProblem(name=f"Buffers_{concurrent}", horizon=10)
        cls = ps.ConcurrentBuffer if concurrent else ps.NonConcurrentBuffer
        buf = cls(name="B", initial_level=0, lower_bound=0)
        t1 = ps.FixedDurationTask(name="load1", duration=2)
        t2 = ps.FixedDurationTask(name="load2", duration=1)
        t3 = ps.FixedDurationTask(name="unload", duration=2)
        ps.TaskLoadBuffer(task=t1, buffer=buf, quantity=3)
        ps.TaskLoadBuffer(task=t2, buffer=buf, quantity=2)
        ps.TaskUnloadBuffer(task=t3, buffer=buf, quantity=4)
        ps.IndicatorMinBufferLevel(buffer=buf)
        ps.ObjectiveMinimizeMaxBufferLevel(buffer=buf)
        return pb

    return build


def pb_max_lateness():
    pb = ps.SchedulingProblem(name="MaxLateness", horizon=20)
    w = ps.Worker(name="W1")
    ts = []
    for i, due in enumerate([0, 3, 5]):
        t = ps.FixedDurationTask(
            name=f"t{i}", duration=2 + i, due_date=due, due_date_is_deadline=False
        )
        t.add_required_resource(w)
        ts.append(t)
    ps.ObjectiveMinimizeIndicator(target=ps.IndicatorMaximumLateness(), weight=2)
    return pb


if __name__ == "__main__":
    util_cases()
    case("1. flowtime single resource, interval [4, 15], mandatory", pb_flowtime_interval(4, 15))
    case("2. flowtime single resource, interval [0, 20], optional task", pb_flowtime_interval(0, 20, optional=True))
    case("3. flowtime single resource, interval holding nothing [18, 20]", pb_flowtime_interval(18, 20))
    case("4. flowtime single resource, degenerate interval [0, 0]", pb_flowtime_interval(0, 0))
    case("5. flowtime single resource, no time_interval, horizon given", pb_flowtime_no_interval(8))
    case("6. flowtime single resource, no time_interval, free horizon", pb_flowtime_no_interval(None))
    case("7. flowtime single resource, time_interval=None", pb_flowtime_explicit_none)
    case("8. flowtime single resource, resource without any task", pb_flowtime_no_task)
    case("9. two flowtime objectives (multi-objective)", pb_flowtime_two_intervals_and_makespan)
    case("10. flowtime single resource, SelectWorkers", pb_flowtime_select_workers)
    case("11. flowtime, interval of length 3 (error)", pb_flowtime_bad_interval([1, 2, 3]))
    case("12. flowtime, interval not iterable (error)", pb_flowtime_bad_interval(4))
    case("13. flowtime, interval of strings (error)", pb_flowtime_bad_interval(["a", "b"]))
    case("14. flowtime, z3 bounds", pb_flowtime_bad_interval((z3.Int("lo"), z3.Int("up"))))
    case("15. flowtime, resource missing (error)", pb_flowtime_missing_resource)
    case("16. start latest (get_minimum), mandatory", pb_start_latest(False))
    case("17. start latest (get_minimum), optional", pb_start_latest(True))
    case("18. greatest start time on a subset + makespan", pb_greatest_start_subset)
    case("19. greatest start time, empty list (error)", pb_greatest_start_empty)
    case("20. max / min buffer level, non concurrent buffer", pb_buffer_levels(False))
    case("21. max / min buffer level, concurrent buffer", pb_buffer_levels(True),
         configs=[dict(), dict(optimizer="optimize"), dict(random_values=True)])
    case("22. maximum lateness (get_maximum), weight 2", pb_max_lateness)
