"""Equivalence script for the C10 twin: exercises Constraint.__init__,
Constraint.set_z3_assertions, Or.__init__ and the constraint loop of
SchedulingSolver.initialize on varied small problems and prints a canonical
description of each outcome."""
import contextlib
import io
import os
import re
import sys

sys.path.insert(0, os.getcwd())

import z3  # noqa: E402

import processscheduler as ps  # noqa: E402


def mask(text, pb):
    # replace the random uid of each constraint by the constraint name
    for cstr in pb.constraints.values():
        text = text.replace(str(cstr._uid), f"<{cstr.name}>")
    # random assertion identifiers of the debug mode
    text = re.sub(r"asst_[0-9a-f]{8}", "asst_XXXXXXXX", text)
    # any uid left over (default names)
    text = re.sub(r"\d{8,}", "<UID>", text)
    return text


def describe(pb, debug=False, show_solution=True):
    out = []
    for name, cstr in pb.constraints.items():
        out.append(
            mask(
                f"  cstr {name}: type={cstr.type} optional={cstr.optional} "
                f"applied={cstr._applied!r}/{type(cstr._applied).__name__} "
                f"from_asst={cstr._created_from_assertion} "
                f"own={[str(a) for a in cstr.get_z3_assertions()]}",
                pb,
            )
        )
    solver = ps.SchedulingSolver(problem=pb, debug=debug)
    sink = io.StringIO()
    with contextlib.redirect_stdout(sink):
        solution = solver.solve()
    assts = sorted(mask(str(a), pb) for a in solver._solver.assertions())
    out.append(f"  nb solver assertions: {len(assts)}")
    out.extend(f"  A {' '.join(a.split())}" for a in assts)
    if debug:
        out.append(
            f"  tracked constraint names: {sorted(solver._map_boolrefs_to_constraints.values())}"
        )
    if not solution:
        out.append(f"  solution: {solution!r}")
    elif show_solution:
        out.append(
            "  solution: "
            + str(
                sorted(
                    (n, t.scheduled, t.start, t.end) for n, t in solution.tasks.items()
                )
            )
        )
        model = solver._solver.model()
        applied = sorted(
            (c.name, str(model.eval(c._applied, model_completion=True)))
            for c in pb.constraints.values()
            if c.optional
        )
        out.append(f"  applied: {applied}")
    return out


CASES = []


def case(fun):
    CASES.append(fun)
    return fun


@case
def not_mandatory():
    pb = ps.SchedulingProblem(name="NotMandatory", horizon=3)
    t1 = ps.FixedDurationTask(name="t1", duration=2)
    ps.Not(name="not1", constraint=ps.TaskStartAt(name="sa0", task=t1, value=0))
    return describe(pb)


@case
def or_mixed_operands():
    pb = ps.SchedulingProblem(name="OrMixed", horizon=10)
    t1 = ps.FixedDurationTask(name="t1", duration=2)
    t2 = ps.FixedDurationTask(name="t2", duration=3)
    ps.Or(
        name="or1",
        list_of_constraints=[
            ps.TaskStartAt(name="sa0", task=t1, value=0),
            t1._start == 7,
            ps.TaskStartAt(name="sa5opt", task=t1, value=5, optional=True),
            ps.TaskPrecedence(name="prec", task_before=t2, task_after=t1, offset=0),
        ],
    )
    ps.TaskEndAt(name="t2end", task=t2, value=3)
    ps.Not(name="not0", constraint=ps.TaskStartAt(name="sa0bis", task=t1, value=0))
    return describe(pb)


@case
def or_single_and_optional_or():
    pb = ps.SchedulingProblem(name="OrSingle", horizon=6)
    t1 = ps.FixedDurationTask(name="t1", duration=2)
    ps.Or(name="or_single", list_of_constraints=[t1._start == 4])
    opt_or = ps.Or(
        name="or_opt",
        optional=True,
        list_of_constraints=[
            ps.TaskStartAt(name="sa0", task=t1, value=0),
            ps.TaskStartAt(name="sa1", task=t1, value=1),
        ],
    )
    res = describe(pb)
    res.append(f"  or_opt applied is z3 Bool: {isinstance(opt_or._applied, z3.BoolRef)}")
    return res


@case
def or_empty():
    pb = ps.SchedulingProblem(name="OrEmpty", horizon=4)
    ps.FixedDurationTask(name="t1", duration=2)
    ps.Or(name="or_empty", list_of_constraints=[])
    return describe(pb)


@case
def nested_combinations():
    pb = ps.SchedulingProblem(name="Nested", horizon=12)
    t1 = ps.FixedDurationTask(name="t1", duration=2)
    t2 = ps.FixedDurationTask(name="t2", duration=2)
    inner_or = ps.Or(
        name="inner_or",
        list_of_constraints=[
            ps.TaskStartAt(name="t2at0", task=t2, value=0),
            ps.TaskStartAt(name="t2at9", task=t2, value=9),
        ],
    )
    ps.And(
        name="and1",
        list_of_constraints=[inner_or, ps.TaskStartAt(name="t1at4", task=t1, value=4)],
    )
    ps.Xor(
        name="xor1",
        constraint_1=ps.TaskStartAt(name="x_t2at0", task=t2, value=0),
        constraint_2=ps.TaskEndAt(name="x_t1end6", task=t1, value=6),
    )
    ps.Implies(
        name="imp1",
        condition=t1._start == 4,
        list_of_constraints=[
            ps.Or(
                name="or_in_imp",
                list_of_constraints=[t2._start >= 9, t2._start == 1],
            )
        ],
    )
    ps.IfThenElse(
        name="ite1",
        condition=t2._start > 5,
        then_list_of_constraints=[ps.TaskEndAt(name="t2end11", task=t2, value=11)],
        else_list_of_constraints=[ps.TaskEndAt(name="t2end2", task=t2, value=2)],
    )
    return describe(pb)


def _force_apply(kind, n, third_optional=True):
    pb = ps.SchedulingProblem(name=f"Force_{kind}_{n}", horizon=6)
    t1 = ps.FixedDurationTask(name="t1", duration=3)
    c1 = ps.TaskStartAt(name="c1", task=t1, value=1, optional=True)
    c2 = ps.TaskStartAt(name="c2", task=t1, value=2, optional=True)
    c3 = ps.TaskEndAt(name="c3", task=t1, value=4, optional=third_optional)
    ps.ForceApplyNOptionalConstraints(
        name="force",
        list_of_optional_constraints=[c1, c2, c3],
        nb_constraints_to_apply=n,
        kind=kind,
    )
    return describe(pb)


@case
def force_exact_1():
    return _force_apply("exact", 1)


@case
def force_min_2():
    return _force_apply("min", 2)


@case
def force_max_1():
    return _force_apply("max", 1)


@case
def force_exact_3_unsat():
    return _force_apply("exact", 3)


@case
def force_zero_rejected():
    return _force_apply("exact", 0)


@case
def force_non_optional_rejected():
    return _force_apply("exact", 1, third_optional=False)


@case
def from_expression():
    pb = ps.SchedulingProblem(name="FromExpr", horizon=8)
    t1 = ps.FixedDurationTask(name="t1", duration=2)
    t2 = ps.FixedDurationTask(name="t2", duration=2, optional=True)
    ps.ConstraintFromExpression(name="e1", expression=t1._start + t2._start == 5)
    ps.ConstraintFromExpression(name="e2", expression=t1._start == 0)
    ps.ConstraintFromExpression(name="e3opt", expression=t2._end == 1, optional=True)
    ps.TaskStartAt(name="t2at5opt", task=t2, value=5, optional=True)
    return describe(pb)


@case
def debug_unsat_core():
    pb = ps.SchedulingProblem(name="DebugUnsat", horizon=6)
    t1 = ps.FixedDurationTask(name="t1", duration=2)
    ps.TaskStartAt(name="at0", task=t1, value=0)
    ps.Or(
        name="or_conflict",
        list_of_constraints=[
            ps.TaskStartAt(name="at2", task=t1, value=2),
            ps.TaskStartAt(name="at3", task=t1, value=3),
        ],
    )
    ps.TaskEndAt(name="end_opt", task=t1, value=5, optional=True)
    return describe(pb, debug=True)


@case
def optional_resource_constraint_with_workers():
    pb = ps.SchedulingProblem(name="Workers", horizon=6)
    t1 = ps.FixedDurationTask(name="t1", duration=2)
    t2 = ps.FixedDurationTask(name="t2", duration=2)
    w1 = ps.Worker(name="w1")
    w2 = ps.Worker(name="w2")
    t1.add_required_resource(ps.SelectWorkers(list_of_workers=[w1, w2], nb_workers_to_select=1))
    t2.add_required_resource(w1)
    ps.ResourceUnavailable(
        name="unav_opt", resource=w1, list_of_time_intervals=[(0, 3)], optional=True
    )
    ps.Or(
        name="or_res",
        list_of_constraints=[
            ps.ResourceUnavailable(
                name="unav_w2", resource=w2, list_of_time_intervals=[(0, 2)]
            ),
            ps.TasksStartSynced(name="sync", task_1=t1, task_2=t2),
        ],
    )
    return describe(pb, show_solution=False)


@case
def duplicate_constraint_name():
    pb = ps.SchedulingProblem(name="Dup", horizon=6)
    t1 = ps.FixedDurationTask(name="t1", duration=2)
    ps.TaskStartAt(name="same", task=t1, value=0)
    ps.TaskStartAt(name="same", task=t1, value=1, optional=True)
    return describe(pb)


@case
def or_bad_operand():
    pb = ps.SchedulingProblem(name="BadOperand", horizon=6)
    t1 = ps.FixedDurationTask(name="t1", duration=2)
    ps.Or(name="bad", list_of_constraints=[t1._start == 0, 3])
    return describe(pb)


@case
def same_assertion_set_twice():
    pb = ps.SchedulingProblem(name="Twice", horizon=6)
    t1 = ps.FixedDurationTask(name="t1", duration=2)
    c = ps.TaskStartAt(name="c", task=t1, value=0)
    expr = t1._start == 0
    c.set_z3_assertions(expr)
    return describe(pb)


@case
def raw_set_z3_assertions_edge_values():
    pb = ps.SchedulingProblem(name="RawSet", horizon=6)
    t1 = ps.FixedDurationTask(name="t1", duration=2)
    res = []
    attempts = [
        ("raw_opt_true", True, True),
        ("raw_mand_expr", False, t1._start == 1),
        ("raw_mand_list", False, [t1._start == 1, t1._end == 3]),
        ("raw_opt_list", True, [t1._start == 1, t1._end == 3]),
        ("raw_opt_int", True, 0),
        ("raw_opt_false", True, False),
    ]
    for name, optional, value in attempts:
        cstr = ps.Constraint(name=name, optional=optional)
        try:
            returned = cstr.set_z3_assertions(value)
            res.append(f"  {name}: returned {returned!r}")
        except Exception as exc:  # noqa: BLE001
            res.append(f"  {name}: {type(exc).__name__}: {exc}")
    return res + describe(pb)


if __name__ == "__main__":
    for fun in CASES:
        print(f"=== {fun.__name__}")
        try:
            lines = fun()
        except Exception as exc:  # noqa: BLE001
            msg = re.sub(r"\d{8,}", "<UID>", str(exc))
            lines = [f"  raised {type(exc).__name__}: {msg}"]
        print("\n".join(lines))
