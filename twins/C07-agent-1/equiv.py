"""Equivalence script for the C07 refactoring (create_objective /
_solve_optimize_incremental in processscheduler/solver.py).

Run from the worktree root:  /venv/bin/python _twin/equiv.py
Prints, per case, a canonical description of the outcome.  Wall-clock
values in the solver log are masked, uuid-like hex strings are masked.
"""
import contextlib
import io
import os
import re
import sys
import tempfile
import warnings

sys.path.insert(0, os.getcwd())

import z3  # noqa: E402
import processscheduler as ps  # noqa: E402
import processscheduler.solver as solver_module  # noqa: E402

assert os.path.dirname(os.path.abspath(ps.__file__)).startswith(os.getcwd())

HEX = re.compile(r"[0-9a-f]{8,32}")
SECS = re.compile(r"\d+\.\d+s")


def mask(text, mask_times=True):
    text = HEX.sub("<hex>", text)
    if mask_times:
        text = SECS.sub("<t>s", text)
    return text


def describe_solution(sol):
    if sol is False or sol is None:
        return [f"solution: {sol!r}"]
    out = [f"horizon={sol.horizon}"]
    for name in sorted(sol.tasks):
        t = sol.tasks[name]
        out.append(
            f"task {name}: start={t.start} end={t.end} dur={t.duration} "
            f"sched={t.scheduled} res={sorted(t.assigned_resources)}"
        )
    for name in sorted(sol.resources):
        out.append(f"res {name}: {sorted(sol.resources[name].assignments)}")
    for name in sorted(sol.indicators):
        out.append(f"indicator {name}={sol.indicators[name]}")
    return out


def describe_solver(solver):
    out = [f"_objective={None if solver._objective is None else (solver._objective.name, solver._objective.kind, str(solver._objective._target), solver._objective._bounds)}"]
    s = solver._solver
    if s is None:
        return out + ["no z3 solver"]
    out.append(f"z3 solver type={type(s).__name__}")
    out.append("assertions:")
    out.extend("   " + a for a in sorted(str(x) for x in s.assertions()))
    if isinstance(s, z3.Optimize):
        out.append("optimize objectives (in order):")
        out.extend("   " + str(o) for o in s.objectives())
    else:
        out.append(f"num_scopes={s.num_scopes()}")
    return out


def run_case(title, build, mask_times=True, **solver_kwargs):
    print("=" * 78)
    shown = {k: ("<tmp>" if k.endswith("_path") else v) for k, v in solver_kwargs.items()}
    print("CASE", title, shown)
    buf = io.StringIO()
    lines = []
    with warnings.catch_warnings(record=True) as caught:
        warnings.simplefilter("always")
        try:
            with contextlib.redirect_stdout(buf):
                pb = build()
                solver = ps.SchedulingSolver(problem=pb, **solver_kwargs)
                sol = solver.solve()
            lines += describe_solution(sol)
            lines += describe_solver(solver)
        except Exception as exc:  # canonical description of the error
            lines.append(f"ERROR {type(exc).__name__}: {exc}")
    for w in caught:
        lines.append(f"WARNING {w.category.__name__}: {' '.join(str(w.message).split())}")
    print("--- log")
    print(mask(buf.getvalue(), mask_times))
    print("--- outcome")
    print(mask("\n".join(lines), mask_times))


# --------------------------------------------------------------------------
# problems
# --------------------------------------------------------------------------
def pb_makespan():
    pb = ps.SchedulingProblem(name="Makespan")
    t1 = ps.FixedDurationTask(name="t1", duration=3)
    t2 = ps.FixedDurationTask(name="t2", duration=4)
    t3 = ps.VariableDurationTask(name="t3", min_duration=1, max_duration=5)
    w = ps.Worker(name="w")
    for t in (t1, t2, t3):
        t.add_required_resource(w)
    ps.TaskPrecedence(task_before=t1, task_after=t3)
    ps.ObjectiveMinimizeMakespan()
    return pb


def pb_max_start():
    # maximise a start time: the incremental optimiser needs several rounds
    pb = ps.SchedulingProblem(name="MaxStart", horizon=12)
    t1 = ps.FixedDurationTask(name="t1", duration=2)
    ind = ps.IndicatorFromMathExpression(name="T1Start", expression=t1._start)
    ps.Objective(name="MaxT1Start", target=ind, kind="maximize")
    return pb


def pb_utilization_optional():
    # bounded indicator (0, 100): maximum hits the upper bound
    pb = ps.SchedulingProblem(name="Utilization", horizon=6)
    w = ps.Worker(name="w")
    t1 = ps.FixedDurationTask(name="t1", duration=3)
    t2 = ps.FixedDurationTask(name="t2", duration=3, optional=True)
    t1.add_required_resource(w)
    t2.add_required_resource(w)
    ps.ObjectiveMaximizeResourceUtilization(resource=w)
    return pb


def pb_utilization_min_zero():
    # bounded indicator (0, 100): minimum hits the lower bound 0
    pb = ps.SchedulingProblem(name="UtilizationZero", horizon=6)
    w = ps.Worker(name="w")
    t1 = ps.FixedDurationTask(name="t1", duration=3, optional=True)
    t2 = ps.ZeroDurationTask(name="t2")
    t1.add_required_resource(w)
    ind = ps.IndicatorResourceUtilization(resource=w)
    ps.ObjectiveMinimizeIndicator(target=ind)
    return pb


def pb_multi_same_direction():
    pb = ps.SchedulingProblem(name="MultiMax", horizon=20)
    t1 = ps.FixedDurationTask(name="task1", duration=3)
    t2 = ps.FixedDurationTask(name="task2", duration=3)
    ps.ConstraintFromExpression(expression=t1._end == 20 - t2._start)
    i1 = ps.IndicatorFromMathExpression(name="Task1End", expression=t1._end)
    i2 = ps.IndicatorFromMathExpression(name="Task2End", expression=t2._end)
    ps.ObjectiveMaximizeIndicator(target=i1, weight=2)
    ps.ObjectiveMaximizeIndicator(target=i2, weight=0)
    return pb


def pb_multi_mixed_direction():
    pb = ps.SchedulingProblem(name="MultiMixed", horizon=10)
    t1 = ps.FixedDurationTask(name="task1", duration=2)
    t2 = ps.FixedDurationTask(name="task2", duration=3, optional=True)
    w = ps.Worker(name="w")
    t1.add_required_resource(w)
    t2.add_required_resource(w)
    i1 = ps.IndicatorFromMathExpression(name="Task1Start", expression=t1._start)
    ps.ObjectiveMaximizeIndicator(target=i1, weight=1)
    ps.ObjectiveMinimizeMakespan()
    return pb


def pb_priorities_optional():
    pb = ps.SchedulingProblem(name="Priorities", horizon=8)
    w = ps.Worker(name="w")
    t1 = ps.FixedDurationTask(name="t1", duration=3, priority=1)
    t2 = ps.FixedDurationTask(name="t2", duration=3, priority=10)
    t3 = ps.FixedDurationTask(name="t3", duration=2, priority=0, optional=True)
    for t in (t1, t2, t3):
        t.add_required_resource(w)
    ps.ObjectivePriorities()
    return pb


def pb_unsat():
    pb = ps.SchedulingProblem(name="Unsat", horizon=4)
    t1 = ps.FixedDurationTask(name="t1", duration=3)
    t2 = ps.FixedDurationTask(name="t2", duration=3)
    w = ps.Worker(name="w")
    t1.add_required_resource(w)
    t2.add_required_resource(w)
    ps.ObjectiveMinimizeMakespan()
    return pb


def pb_no_objective():
    pb = ps.SchedulingProblem(name="NoObjective", horizon=7)
    t1 = ps.FixedDurationTask(name="t1", duration=3)
    ps.TaskStartAt(task=t1, value=2)
    return pb


# --------------------------------------------------------------------------
# deterministic clock, to drive the time based early stops
# --------------------------------------------------------------------------
class FakeTime:
    """perf_counter is called twice per check_sat: the i-th check 'lasts'
    durations[i] seconds (the last duration is repeated)."""

    def __init__(self, durations):
        self.durations = list(durations)
        self.now = 0.0
        self.calls = 0

    def perf_counter(self):
        if self.calls % 2 == 1:
            idx = min(self.calls // 2, len(self.durations) - 1)
            self.now += self.durations[idx]
        self.calls += 1
        return self.now


@contextlib.contextmanager
def fake_clock(durations):
    real = solver_module.time
    solver_module.time = FakeTime(durations)
    try:
        yield
    finally:
        solver_module.time = real


def main():
    # single objective, both optimisers, they must agree
    run_case("makespan", pb_makespan)
    run_case("makespan", pb_makespan, optimizer="optimize")
    run_case("makespan logics", pb_makespan, logics="QF_IDL")

    # several incremental rounds, then early stops by max_iter (0, 1, 3, plenty)
    run_case("max start", pb_max_start)
    run_case("max start", pb_max_start, optimizer="optimize")
    for n in (0, 1, 3, 50):
        run_case("max start, max_iter", pb_max_start, max_iter=n)

    # bounded indicators: stop when the bound is reached (upper bound, lower bound 0)
    run_case("utilization/optional", pb_utilization_optional)
    run_case("utilization/optional", pb_utilization_optional, optimizer="optimize")
    run_case("utilization min 0", pb_utilization_min_zero)
    run_case("utilization min 0", pb_utilization_min_zero, optimizer="optimize")

    # multi objective: weighted sum (incremental, optimize/weight) and lex/pareto/box
    run_case("multi same direction", pb_multi_same_direction)
    for prio in ("weight", "lex", "pareto", "box"):
        run_case(
            "multi same direction",
            pb_multi_same_direction,
            optimizer="optimize",
            optimize_priority=prio,
        )
    run_case("multi mixed direction", pb_multi_mixed_direction)
    run_case("multi mixed direction", pb_multi_mixed_direction, max_iter=2)
    for prio in ("weight", "lex"):
        run_case(
            "multi mixed direction",
            pb_multi_mixed_direction,
            optimizer="optimize",
            optimize_priority=prio,
        )

    # priorities with optional task
    run_case("priorities", pb_priorities_optional)
    run_case("priorities", pb_priorities_optional, optimizer="optimize")

    # unsatisfiable with an objective, and no objective at all
    run_case("unsat", pb_unsat)
    run_case("unsat", pb_unsat, optimizer="optimize")
    run_case("no objective", pb_no_objective)
    run_case("no objective", pb_no_objective, optimizer="optimize")

    # time based early stops, with a scripted clock (times are NOT masked here)
    with fake_clock([1, 2, 4, 8, 16]):
        # parabola extrapolation: stops with "Max time expected on the next iteration"
        run_case("max start, scripted clock/extrapolation", pb_max_start, False, max_time=20)
    with fake_clock([1, 1, 1, 1, 1, 1, 1, 1]):
        # linear growth, extrapolation 5, 6, ... exceeds 6.5 at some round
        run_case("max start, scripted clock/linear", pb_max_start, False, max_time=6.5)
    with fake_clock([3, 3]):
        # total time exceeds max time after the second round
        run_case("max start, scripted clock/max time exceeded", pb_max_start, False, max_time=5)
    with fake_clock([0, 0]):
        run_case("max start, scripted clock/zero durations", pb_max_start, False, max_time=1)

    # intermediate states are saved for each improving model
    with tempfile.TemporaryDirectory() as tmp:
        run_case(
            "max start, intermediate states",
            pb_max_start,
            save_intermediate_states=True,
            save_intermediate_states_path=tmp,
        )
        print("saved files:", sorted(os.listdir(tmp)))

    # direct call of the incremental loop, default kind ("min"), arbitrary kind
    # string (treated as max), and reuse of the solver afterwards
    print("=" * 78)
    print("CASE direct calls")
    buf = io.StringIO()
    with contextlib.redirect_stdout(buf), warnings.catch_warnings(record=True) as caught:
        warnings.simplefilter("always")
        pb = pb_max_start()
        solver = ps.SchedulingSolver(problem=pb)
        solver.initialize()
        var = solver._objective._target
        m1 = solver._solve_optimize_incremental(var)
        v1 = m1[var].as_long()
        m2 = solver._solve_optimize_incremental(var, kind="whatever", max_iter=4)
        v2 = m2[var].as_long()
        m3 = solver._solve_optimize_incremental(var, 2, "max")
        v3 = m3[var].as_long()
        sol = solver.solve()
        other = solver.find_another_solution_for_variable(var)
    print(mask(buf.getvalue()))
    for w in caught:
        print(f"WARNING {w.category.__name__}: {' '.join(str(w.message).split())}")
    print("values", v1, v2, v3)
    print("\n".join(describe_solution(sol)))
    print("\n".join(describe_solution(other)))
    print(mask("\n".join(describe_solver(solver))))

    # create_objective called on an uninitialised solver -> error must be the same
    print("=" * 78)
    print("CASE create_objective without initialize")
    for kwargs in ({}, {"optimizer": "optimize"}):
        with contextlib.redirect_stdout(io.StringIO()):
            pb = pb_multi_same_direction()
            solver = ps.SchedulingSolver(problem=pb, **kwargs)
            try:
                res = solver.create_objective()
                msg = f"returned {res!r}"
            except Exception as exc:
                msg = f"ERROR {type(exc).__name__}: {exc}"
        print(kwargs, msg)
    with contextlib.redirect_stdout(io.StringIO()):
        pb = pb_no_objective()
        solver = ps.SchedulingSolver(problem=pb)
        try:
            res = solver.create_objective()
            msg = f"returned {res!r}"
        except Exception as exc:
            msg = f"ERROR {type(exc).__name__}: {exc}"
    print("no objective:", msg)


if __name__ == "__main__":
    main()
