"""Equivalence script for the C18 twin: OptionalTask* rules and
ResourceTasksDistance (rejection tests and emitted assertions)."""
import io
import os
import re
import sys
import contextlib

sys.path.insert(0, os.getcwd())

import z3
import processscheduler as ps

assert os.path.dirname(ps.__file__).startswith(os.getcwd()), ps.__file__

UUID = re.compile(
    r"(?<![0-9])[0-9]{15,}|[0-9a-f]{8}(-?[0-9a-f]{4}){3}-?[0-9a-f]{12}|[0-9a-f]{32}"
)


def mask(text):
    return UUID.sub("<uid>", text)


def describe(pb, solve=True):
    out = []
    for c in pb.constraints.values():
        out.append(
            "constraint %s optional=%s: %s"
            % (
                type(c).__name__,
                c.optional,
                sorted(mask(str(a)) for a in c.get_z3_assertions()),
            )
        )
    solver = ps.SchedulingSolver(problem=pb, random_values=False)
    with contextlib.redirect_stdout(io.StringIO()):
        solver.initialize()
        out.append("solver assertions:")
        out.extend(sorted(mask(str(a)) for a in solver._solver.assertions()))
        if solve:
            solution = solver.solve()
    if solve:
        if not solution:
            out.append("solution: none")
        else:
            out.append(
                "solution: horizon=%s %s"
                % (
                    solution.horizon,
                    sorted(
                        (n, t.scheduled, t.start, t.end, tuple(t.assigned_resources))
                        for n, t in solution.tasks.items()
                    ),
                )
            )
    return out


def case(title, fn):
    print("=" * 10, title)
    try:
        res = fn()
    except BaseException as exc:  # report whatever is raised
        first = mask(str(exc)).splitlines()[:3]
        print("ERROR", type(exc).__name__, first)
        pb = ps.base.active_problem
        if pb is not None:
            print(
                "registered constraints after the error:",
                [type(c).__name__ for c in pb.constraints.values()],
            )
        return
    for line in res:
        print(line)


def tasks(n, optional=(), durations=None):
    res = []
    for i in range(n):
        res.append(
            ps.FixedDurationTask(
                name="t%d" % i,
                duration=(durations or [2] * n)[i],
                optional=(i in optional),
            )
        )
    return res


# ---------------------------------------------------------------- optional rules
def force_schedule(flag, optional, cstr_optional=False):
    def run():
        pb = ps.SchedulingProblem(name="force_%s_%s" % (flag, optional), horizon=6)
        (t,) = tasks(1, optional=(0,) if optional else ())
        ps.OptionalTaskForceSchedule(
            task=t, to_be_scheduled=flag, optional=cstr_optional
        )
        return describe(pb)

    return run


def condition_schedule(optional, kind):
    def run():
        pb = ps.SchedulingProblem(name="cond_%s_%s" % (optional, kind), horizon=9)
        t0, t1 = tasks(2, optional=(1,) if optional else (), durations=[3, 2])
        cond = {
            "late": t0._start >= 2,
            "early": t0._start < 0,
            "true": z3.BoolVal(True),
        }[kind]
        ps.OptionalTaskConditionSchedule(task=t1, condition=cond)
        ps.TaskStartAt(task=t0, value=3)
        return describe(pb)

    return run


def dependency(opt1, opt2, force=None):
    def run():
        pb = ps.SchedulingProblem(name="dep_%s_%s" % (opt1, opt2), horizon=7)
        opt = tuple(i for i, o in enumerate((opt1, opt2)) if o)
        t0, t1 = tasks(2, optional=opt)
        ps.OptionalTasksDependency(task_1=t0, task_2=t1)
        if force is not None and opt1:
            ps.OptionalTaskForceSchedule(task=t0, to_be_scheduled=force)
        return describe(pb)

    return run


def wrong_type_task():
    ps.SchedulingProblem(name="wrong_type")
    ps.OptionalTaskForceSchedule(task="not a task", to_be_scheduled=True)


def no_problem():
    ps.SchedulingProblem(name="vanishing")
    (t,) = tasks(1, optional=(0,))
    ps.base.active_problem = None
    ps.OptionalTaskForceSchedule(task=t, to_be_scheduled=True)


# ---------------------------------------------------------------- distance
def distance(n_tasks, mode=None, dist=2, intervals=None, optional=(), cstr_optional=False,
             horizon=20, extra_worker=False, cumulative=False):
    def run():
        pb = ps.SchedulingProblem(name="dist", horizon=horizon)
        ts = tasks(n_tasks, optional=optional, durations=[2, 3, 1, 2][:n_tasks])
        if cumulative:
            w = ps.CumulativeWorker(name="cw", size=2)
        else:
            w = ps.Worker(name="w")
        for t in ts:
            t.add_required_resource(w)
        if extra_worker:
            w2 = ps.Worker(name="w2")
            ts[0].add_required_resource(w2)
        kw = {}
        if mode is not None:
            kw["mode"] = mode
        if intervals is not None:
            kw["list_of_time_intervals"] = intervals
        ps.ResourceTasksDistance(
            resource=w, distance=dist, optional=cstr_optional, **kw
        )
        return describe(pb)

    return run


def distance_bad_mode():
    ps.SchedulingProblem(name="dist_bad_mode", horizon=20)
    ts = tasks(2)
    w = ps.Worker(name="w")
    for t in ts:
        t.add_required_resource(w)
    ps.ResourceTasksDistance(resource=w, distance=1, mode="between")


def distance_select_workers():
    ps.SchedulingProblem(name="dist_sel", horizon=20)
    ts = tasks(2)
    w1 = ps.Worker(name="w1")
    w2 = ps.Worker(name="w2")
    sel = ps.SelectWorkers(list_of_workers=[w1, w2], nb_workers_to_select=1)
    for t in ts:
        t.add_required_resource(sel)
    pb = ps.base.active_problem
    ps.ResourceTasksDistance(resource=w1, distance=3, mode="min")
    return describe(pb)


CASES = [
    ("force schedule True on optional", force_schedule(True, True)),
    ("force schedule False on optional", force_schedule(False, True)),
    ("force schedule, optional constraint", force_schedule(True, True, True)),
    ("force schedule on mandatory -> error", force_schedule(True, False)),
    ("force schedule False on mandatory -> error", force_schedule(False, False)),
    ("condition late on optional", condition_schedule(True, "late")),
    ("condition early on optional", condition_schedule(True, "early")),
    ("condition constant on optional", condition_schedule(True, "true")),
    ("condition on mandatory -> error", condition_schedule(False, "late")),
    ("dependency optional/optional", dependency(True, True)),
    ("dependency optional/optional forced True", dependency(True, True, True)),
    ("dependency optional/optional forced False", dependency(True, True, False)),
    ("dependency mandatory/optional", dependency(False, True)),
    ("dependency optional/mandatory -> error", dependency(True, False)),
    ("dependency mandatory/mandatory -> error", dependency(False, False)),
    ("wrong type task -> error", wrong_type_task),
    ("distance no task -> error", distance(0)),
    ("distance no task with intervals -> error", distance(0, intervals=[(0, 5)])),
    ("distance one task -> error", distance(1, mode="min")),
    ("distance two tasks default mode", distance(2)),
    ("distance two tasks exact 0", distance(2, mode="exact", dist=0)),
    ("distance two tasks min", distance(2, mode="min", dist=4)),
    ("distance two tasks max", distance(2, mode="max", dist=1)),
    ("distance three tasks min", distance(3, mode="min", dist=3)),
    ("distance four tasks max 0", distance(4, mode="max", dist=0)),
    ("distance intervals", distance(3, mode="exact", dist=2, intervals=[(0, 8), (10, 20)])),
    ("distance empty intervals", distance(2, mode="min", dist=5, intervals=[])),
    ("distance optional tasks", distance(3, mode="min", dist=2, optional=(1, 2))),
    ("distance optional constraint", distance(2, mode="exact", dist=7, cstr_optional=True)),
    ("distance negative", distance(2, mode="exact", dist=-1)),
    ("distance infeasible", distance(3, mode="min", dist=9, horizon=12)),
    ("distance extra worker", distance(2, mode="max", dist=2, extra_worker=True)),
    ("distance cumulative worker", distance(2, mode="min", dist=1, cumulative=True)),
    ("distance bad mode -> error", distance_bad_mode),
    ("distance select workers", distance_select_workers),
    ("no active problem -> error", no_problem),
]

for title, fn in CASES:
    case(title, fn)
