"""Equivalence script for the refactoring of WorkLoad / ResourceUnavailable
(processscheduler/resource_constraint.py).

Run from the worktree root:  cd /tmp/t5_C02 && /venv/bin/python _twin/equiv.py
"""
import contextlib
import io
import os
import re
import sys

sys.path.insert(0, os.getcwd())

import random  # noqa: E402
import uuid  # noqa: E402

# The library names some z3 variables after uuid4 values, and z3's search (hence
# the schedule picked among several valid ones) depends on these names.  Make
# uuid4 deterministic *before* importing the library so that two runs are
# comparable character for character.  (Both the original and the refactored
# code must therefore also perform the same sequence of uuid4 calls.)
_rng = random.Random(20240928)


def _deterministic_uuid4():
    return uuid.UUID(int=_rng.getrandbits(128), version=4)


uuid.uuid4 = _deterministic_uuid4

import processscheduler as ps  # noqa: E402
import processscheduler.base  # noqa: E402

assert os.path.dirname(os.path.dirname(ps.__file__)) == os.getcwd(), ps.__file__


def mask(text):
    # uuid4 is deterministic (see above): nothing has to be masked
    return text


def canon(assertion):
    return mask(" ".join(str(assertion).split()))


def assertions_of(obj):
    return [canon(a) for a in obj.get_z3_assertions()]


def describe(title, builder, solve=True, horizon=None):
    print("=" * 70)
    print(title)
    _rng.seed(title)  # each problem gets its own reproducible uid sequence
    try:
        kwargs = {"name": "pb"}
        if horizon is not None:
            kwargs["horizon"] = horizon
        pb = ps.SchedulingProblem(**kwargs)
        constraints = builder(pb)
        for c in constraints:
            print("-- constraint", c.type, "(in creation order)")
            for a in assertions_of(c):
                print("   ", a)
        if not solve:
            return
        ps.ObjectiveMinimizeMakespan()
        solver = ps.SchedulingSolver(problem=pb)
        # the library prints timings while solving: keep them out of the output
        with contextlib.redirect_stdout(io.StringIO()):
            sol = solver.solve()
        print("-- solver assertions (sorted)")
        for a in sorted(canon(a) for a in solver._solver.assertions()):
            print("   ", a)
        if not sol:
            print("-- NO SOLUTION")
            return
        print("-- horizon", sol.horizon)
        for tname in sorted(sol.tasks):
            t = sol.tasks[tname]
            print(
                "   task", tname, "scheduled", t.scheduled, "start", t.start,
                "end", t.end, "resources", sorted(t.assigned_resources),
            )
        for rname in sorted(sol.resources):
            print("   resource", rname, sorted(sol.resources[rname].assignments))
    except Exception as exc:  # noqa: BLE001
        print("-- ERROR", type(exc).__name__, mask(str(exc)))


# 1. single worker, two intervals, two tasks
def p1(pb):
    w = ps.Worker(name="W")
    t1 = ps.FixedDurationTask(name="T1", duration=3)
    t2 = ps.FixedDurationTask(name="T2", duration=2)
    t1.add_required_resource(w)
    t2.add_required_resource(w)
    return [ps.ResourceUnavailable(resource=w, list_of_time_intervals=[(0, 2), (5, 6)])]


# 2. cumulative worker with three tasks, unavailable + workload max
def p2(pb):
    cw = ps.CumulativeWorker(name="CW", size=2, productivity=3)
    tasks = [ps.FixedDurationTask(name=f"T{i}", duration=2) for i in range(3)]
    for t in tasks:
        t.add_required_resource(cw)
    c1 = ps.ResourceUnavailable(resource=cw, list_of_time_intervals=[(1, 3)])
    c2 = ps.WorkLoad(resource=cw, dict_time_intervals_and_bound={(3, 6): 4}, kind="max")
    return [c1, c2]


# 3. errors: unassigned resource, empty interval list, duplicated interval
def p3a(pb):
    w = ps.Worker(name="W")
    return [ps.ResourceUnavailable(resource=w, list_of_time_intervals=[(0, 2)])]


def p3b(pb):
    w = ps.Worker(name="W")
    t1 = ps.FixedDurationTask(name="T1", duration=3)
    t1.add_required_resource(w)
    return [ps.ResourceUnavailable(resource=w, list_of_time_intervals=[])]


def p3c(pb):
    w = ps.Worker(name="W")
    t1 = ps.FixedDurationTask(name="T1", duration=3)
    t1.add_required_resource(w)
    return [ps.ResourceUnavailable(resource=w, list_of_time_intervals=[(0, 2), (0, 2)])]


def p3d(pb):
    cw = ps.CumulativeWorker(name="CW", size=3)
    return [ps.ResourceUnavailable(resource=cw, list_of_time_intervals=[(0, 2)])]


def p3e(pb):
    w = ps.Worker(name="W")
    return [ps.ResourceUnavailable(resource=w, list_of_time_intervals=[])]


# 4. workload of each kind on a worker, with bound 0 and several intervals
def make_p4(kind, optional=False):
    def p4(pb):
        w = ps.Worker(name="W", productivity=2)
        t1 = ps.FixedDurationTask(name="T1", duration=3)
        t2 = ps.VariableDurationTask(name="T2", work_amount=6, max_duration=5)
        t1.add_required_resource(w)
        t2.add_required_resource(w)
        return [
            ps.WorkLoad(
                resource=w,
                dict_time_intervals_and_bound={(0, 4): 3, (6, 8): 0, (8, 20): 2},
                kind=kind,
                optional=optional,
            )
        ]

    return p4


# 5. workload errors / degenerate values
def p5a(pb):
    w = ps.Worker(name="W")
    return [ps.WorkLoad(resource=w, dict_time_intervals_and_bound={(0, 4): 3})]


def p5b(pb):
    w = ps.Worker(name="W")
    return [ps.WorkLoad(resource=w, dict_time_intervals_and_bound={})]


def p5c(pb):
    w = ps.Worker(name="W")
    t1 = ps.FixedDurationTask(name="T1", duration=3)
    t1.add_required_resource(w)
    return [ps.WorkLoad(resource=w, dict_time_intervals_and_bound={(0, 4): 3}, kind="average")]


def p5d(pb):
    w = ps.Worker(name="W")
    t1 = ps.FixedDurationTask(name="T1", duration=3)
    t1.add_required_resource(w)
    sw = ps.SelectWorkers(list_of_workers=[w, ps.Worker(name="W2")])
    return [ps.WorkLoad(resource=sw, dict_time_intervals_and_bound={(0, 4): 3})]


def p5e(pb):
    cw = ps.CumulativeWorker(name="CW", size=2)
    return [ps.WorkLoad(resource=cw, dict_time_intervals_and_bound={(0, 4): 3, (5, 6): 1})]


# 6. alternative workers, one of them unavailable, optional task, dynamic
#    worker, delay_in / early_out
def p6(pb):
    w1 = ps.Worker(name="W1", productivity=1)
    w2 = ps.Worker(name="W2", productivity=2)
    w3 = ps.Worker(name="W3")
    sw = ps.SelectWorkers(name="SW", list_of_workers=[w1, w2], nb_workers_to_select=1, kind="exact")
    t1 = ps.FixedDurationTask(name="T1", duration=4)
    t2 = ps.FixedDurationTask(name="T2", duration=2, optional=True)
    t3 = ps.VariableDurationTask(name="T3", work_amount=4)
    t1.add_required_resource(sw)
    t1.add_required_resource(w3, dynamic=True)
    t2.add_required_resource(w1, delay_in=1, early_out=0)
    t3.add_required_resource(w2)
    c1 = ps.ResourceUnavailable(resource=w1, list_of_time_intervals=[(0, 3)], optional=True)
    c2 = ps.ResourceUnavailable(resource=w2, list_of_time_intervals=[(0, 1), (2, 3)])
    c3 = ps.WorkLoad(resource=w3, dict_time_intervals_and_bound={(0, 10): 1}, kind="min")
    return [c1, c2, c3]


# 7. cumulative worker in a workload "exact" with two intervals + optional
def p7(pb):
    cw = ps.CumulativeWorker(name="CW", size=3, productivity=4)
    w = ps.Worker(name="W")
    t1 = ps.FixedDurationTask(name="T1", duration=2, work_amount=2)
    t2 = ps.FixedDurationTask(name="T2", duration=3)
    t1.add_required_resources([cw, w])
    t2.add_required_resource(cw)
    c1 = ps.WorkLoad(
        resource=cw, dict_time_intervals_and_bound={(0, 2): 0, (2, 10): 5}, kind="exact"
    )
    c2 = ps.ResourceUnavailable(resource=cw, list_of_time_intervals=[(7, 9), (0, 1)], optional=True)
    return [c1, c2]


describe("1 worker unavailable on two intervals", p1)
describe("2 cumulative worker unavailable + workload max", p2)
describe("3a unavailable: unassigned worker", p3a, solve=False)
describe("3b unavailable: empty interval list", p3b, solve=False)
describe("3c unavailable: duplicated interval", p3c, solve=False)
describe("3d unavailable: unassigned cumulative worker", p3d, solve=False)
describe("3e unavailable: unassigned worker and empty list", p3e, solve=False)
for k in ("exact", "max", "min"):
    describe(f"4 workload kind={k}", make_p4(k), horizon=20)
describe("4 workload kind=max optional", make_p4("max", optional=True), horizon=20)
describe("5a workload: unassigned worker", p5a, solve=False)
describe("5b workload: empty dict", p5b, solve=False)
describe("5c workload: wrong kind", p5c, solve=False)
describe("5d workload: wrong resource type", p5d, solve=False)
describe("5e workload: unassigned cumulative worker", p5e, solve=False)
describe("6 alternative workers / dynamic / delay_in", p6)
describe("7 cumulative workload exact", p7, horizon=12)
