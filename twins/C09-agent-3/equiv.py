"""Equivalence script for the C09 twin: Buffer construction / registration."""
import os
import re
import sys

sys.path.insert(0, os.getcwd())

import processscheduler as ps
import processscheduler.base
import z3

assert ps.__file__.startswith(os.getcwd()), ps.__file__

MASK = re.compile(r"([A-Za-z]+)_\d{8}")  # random part of automatic names
TIMING = re.compile(r"\d+\.\d+s\b")


class _MaskedStdout:
    """the solver prints computation times: mask them"""

    def __init__(self, stream):
        self._stream = stream

    def write(self, text):
        return self._stream.write(TIMING.sub("X.XXs", text))

    def flush(self):
        self._stream.flush()


sys.stdout = _MaskedStdout(sys.stdout)


def mask(s):
    return MASK.sub(r"\1_XXXXXXXX", s)


def describe_buffer(buf):
    return {
        "name": mask(buf.name),
        "type": buf.type,
        "own_assertions": [mask(str(a)) for a in buf.get_z3_assertions()],
        "hashes_len": len(buf._z3_assertion_hashes),
        "levels": [mask(str(v)) for v in buf._buffer_levels],
        "level_sorts": [str(v.sort()) for v in buf._buffer_levels],
        "times": [mask(str(v)) for v in buf._level_changes_time],
        "unloading": [(t.name, q) for t, q in buf._unloading_tasks.items()],
        "loading": [(t.name, q) for t, q in buf._loading_tasks.items()],
        "distinct_dicts": buf._unloading_tasks is not buf._loading_tasks,
        "json": mask(buf.to_json(compact=True)),
    }


def solve_and_describe(pb, **solver_args):
    solver = ps.SchedulingSolver(problem=pb, **solver_args)
    solution = solver.solve()
    out = {
        "problem_buffers": [mask(b.name) for b in pb.buffers],
        "assertions": sorted(mask(str(a)) for a in solver._solver.assertions()),
    }
    if solution:
        out["buffers"] = {
            mask(k): (v.level, v.level_change_times)
            for k, v in solution.buffers.items()
        }
        out["tasks"] = {
            k: (v.start, v.end, v.scheduled) for k, v in solution.tasks.items()
        }
        out["indicators"] = {mask(k): v for k, v in solution.indicators.items()}
    else:
        out["solution"] = repr(solution)
    return out


def case_unload_simple():
    pb = ps.SchedulingProblem(name="c1")
    t = ps.FixedDurationTask(name="task1", duration=3)
    b = ps.NonConcurrentBuffer(name="Buffer1", initial_level=10)
    ps.TaskStartAt(task=t, value=5)
    ps.TaskUnloadBuffer(task=t, buffer=b, quantity=3)
    return describe_buffer(b), solve_and_describe(pb)


def case_load_unload_bounds_final():
    pb = ps.SchedulingProblem(name="c2", horizon=12)
    t1 = ps.FixedDurationTask(name="t1", duration=2)
    t2 = ps.FixedDurationTask(name="t2", duration=3)
    t3 = ps.ZeroDurationTask(name="t3")
    b = ps.NonConcurrentBuffer(
        name="B", initial_level=0, final_level=4, lower_bound=0, upper_bound=7
    )
    ps.TaskStartAt(task=t1, value=0)
    ps.TaskStartAt(task=t2, value=4)
    ps.TaskStartAt(task=t3, value=9)
    ps.TaskLoadBuffer(task=t1, buffer=b, quantity=7)
    ps.TaskUnloadBuffer(task=t2, buffer=b, quantity=3)
    ps.TaskUnloadBuffer(task=t3, buffer=b, quantity=0)
    return describe_buffer(b), solve_and_describe(pb)


def case_concurrent_same_instant():
    pb = ps.SchedulingProblem(name="c3", horizon=10)
    t1 = ps.FixedDurationTask(name="t1", duration=2)
    t2 = ps.FixedDurationTask(name="t2", duration=2)
    t3 = ps.FixedDurationTask(name="t3", duration=4)
    b = ps.ConcurrentBuffer(name="CB", initial_level=5, lower_bound=0)
    for t in (t1, t2):
        ps.TaskStartAt(task=t, value=3)
        ps.TaskUnloadBuffer(task=t, buffer=b, quantity=2)
    ps.TaskEndAt(task=t3, value=7)
    ps.TaskLoadBuffer(task=t3, buffer=b, quantity=6)
    return describe_buffer(b), solve_and_describe(pb)


def case_nonconcurrent_same_instant_unsat():
    pb = ps.SchedulingProblem(name="c4", horizon=10)
    t1 = ps.FixedDurationTask(name="t1", duration=2)
    t2 = ps.FixedDurationTask(name="t2", duration=2)
    b = ps.NonConcurrentBuffer(name="NB", initial_level=5)
    for t in (t1, t2):
        ps.TaskStartAt(task=t, value=3)
        ps.TaskUnloadBuffer(task=t, buffer=b, quantity=2)
    return describe_buffer(b), solve_and_describe(pb)


def case_final_level_only():
    pb = ps.SchedulingProblem(name="c5", horizon=8)
    t1 = ps.VariableDurationTask(name="v1", min_duration=1, max_duration=1)
    b = ps.NonConcurrentBuffer(name="FB", final_level=0)
    ps.TaskStartAt(task=t1, value=2)
    ps.TaskLoadBuffer(task=t1, buffer=b, quantity=4)
    d = describe_buffer(b)
    return d, solve_and_describe(pb)


def case_initial_level_zero_and_negative():
    pb = ps.SchedulingProblem(name="c6", horizon=8)
    t1 = ps.FixedDurationTask(name="a", duration=1)
    b0 = ps.NonConcurrentBuffer(name="Z", initial_level=0, final_level=0)
    bn = ps.ConcurrentBuffer(name="N", initial_level=-3, upper_bound=0)
    ps.TaskStartAt(task=t1, value=1)
    ps.TaskUnloadBuffer(task=t1, buffer=b0, quantity=0)
    ps.TaskLoadBuffer(task=t1, buffer=bn, quantity=3)
    return describe_buffer(b0), describe_buffer(bn), solve_and_describe(pb)


def case_bound_violation_unsat():
    pb = ps.SchedulingProblem(name="c7", horizon=8)
    t1 = ps.FixedDurationTask(name="a", duration=1)
    b = ps.NonConcurrentBuffer(name="LB", initial_level=2, lower_bound=0)
    ps.TaskUnloadBuffer(task=t1, buffer=b, quantity=3)
    return describe_buffer(b), solve_and_describe(pb)


def case_optional_task():
    pb = ps.SchedulingProblem(name="c8", horizon=6)
    t1 = ps.FixedDurationTask(name="opt", duration=2, optional=True)
    t2 = ps.FixedDurationTask(name="mand", duration=2)
    b = ps.NonConcurrentBuffer(name="OB", initial_level=4, lower_bound=0)
    ps.TaskStartAt(task=t2, value=0)
    ps.TaskUnloadBuffer(task=t2, buffer=b, quantity=1)
    ps.TaskUnloadBuffer(task=t1, buffer=b, quantity=2)
    ps.ForceScheduleNOptionalTasks(list_of_optional_tasks=[t1], nb_tasks_to_schedule=1)
    ps.TaskStartAt(task=t1, value=3)
    return describe_buffer(b), solve_and_describe(pb)


def case_indicator_and_objective():
    pb = ps.SchedulingProblem(name="c9", horizon=10)
    t1 = ps.FixedDurationTask(name="l", duration=2)
    t2 = ps.FixedDurationTask(name="u", duration=2)
    b = ps.NonConcurrentBuffer(name="IB", initial_level=1)
    ps.TaskStartAt(task=t1, value=0)
    ps.TaskStartAt(task=t2, value=5)
    ps.TaskLoadBuffer(task=t1, buffer=b, quantity=5)
    ps.TaskUnloadBuffer(task=t2, buffer=b, quantity=4)
    ps.IndicatorMaxBufferLevel(buffer=b)
    ps.IndicatorMinBufferLevel(buffer=b)
    return describe_buffer(b), solve_and_describe(pb)


def case_auto_name_two_buffers():
    pb = ps.SchedulingProblem(name="c10", horizon=10)
    b1 = ps.NonConcurrentBuffer(initial_level=3)
    b2 = ps.ConcurrentBuffer(final_level=9)
    t = ps.FixedDurationTask(name="x", duration=2)
    ps.TaskStartAt(task=t, value=1)
    ps.TaskUnloadBuffer(task=t, buffer=b1, quantity=3)
    ps.TaskLoadBuffer(task=t, buffer=b2, quantity=3)
    return describe_buffer(b1), describe_buffer(b2), solve_and_describe(pb)


def case_no_problem():
    processscheduler.base.active_problem = None
    return ps.NonConcurrentBuffer(name="Buffer1", initial_level=1)


def case_no_problem_and_no_level():
    # both errors apply: which one wins?
    processscheduler.base.active_problem = None
    return ps.ConcurrentBuffer(name="Buffer1")


def case_no_level():
    ps.SchedulingProblem(name="c12", horizon=12)
    return ps.NonConcurrentBuffer(name="Buffer1", lower_bound=0, upper_bound=3)


def case_duplicate_name():
    pb = ps.SchedulingProblem(name="c13", horizon=12)
    ps.NonConcurrentBuffer(name="A", initial_level=10)
    ps.ConcurrentBuffer(name="Dup", initial_level=10)
    try:
        ps.NonConcurrentBuffer(name="Dup", final_level=1)
    except ValueError as e:
        return ("ValueError", str(e), [b.name for b in pb.buffers])
    return "no error"


def case_wrong_field_type():
    ps.SchedulingProblem(name="c14", horizon=12)
    return ps.NonConcurrentBuffer(name="W", initial_level="abc")


def case_extra_field():
    ps.SchedulingProblem(name="c15", horizon=12)
    return ps.NonConcurrentBuffer(name="W", initial_level=1, foo=2)


def case_same_task_loads_and_unloads():
    # the same task both loads and unloads the same buffer: same z3 names twice
    pb = ps.SchedulingProblem(name="c16", horizon=12)
    t = ps.FixedDurationTask(name="lu", duration=3)
    b = ps.ConcurrentBuffer(name="LU", initial_level=5)
    ps.TaskStartAt(task=t, value=2)
    ps.TaskUnloadBuffer(task=t, buffer=b, quantity=2)
    ps.TaskLoadBuffer(task=t, buffer=b, quantity=1)
    return describe_buffer(b), solve_and_describe(pb)


def case_direct_calls_bad_task():
    # direct call of the registration methods with something that is not a task
    ps.SchedulingProblem(name="c17", horizon=12)
    b = ps.NonConcurrentBuffer(name="D", initial_level=5)
    res = []
    for meth in (b.add_unloading_task, b.add_loading_task):
        for bad in (42, [1], None):
            try:
                meth(bad, 1)
                res.append("ok")
            except Exception as e:  # noqa
                res.append(f"{type(e).__name__}: {e}")
    res.append(
        (
            [repr(k) for k in b._unloading_tasks],
            [repr(k) for k in b._loading_tasks],
            len(b._buffer_levels),
            len(b._level_changes_time),
        )
    )
    return res


def case_many_random_tasks():
    pb = ps.SchedulingProblem(name="c18", horizon=30)
    b = ps.NonConcurrentBuffer(
        name="R", initial_level=16, lower_bound=0, upper_bound=20
    )
    qs = [3, 0, 5, 2, 7]
    for i, q in enumerate(qs):
        t = ps.FixedDurationTask(name=f"t{i}", duration=1 + i % 3)
        ps.TaskStartAt(task=t, value=5 * i)
        if i % 2:
            ps.TaskLoadBuffer(task=t, buffer=b, quantity=q)
        else:
            ps.TaskUnloadBuffer(task=t, buffer=b, quantity=q)
    return describe_buffer(b), solve_and_describe(pb)


CASES = [v for k, v in list(globals().items()) if k.startswith("case_")]

for case in CASES:
    print("=" * 30, case.__name__)
    try:
        res = case()
    except Exception as e:  # noqa
        print(f"RAISED {type(e).__name__}: {mask(str(e))}")
        continue
    if not isinstance(res, (tuple, list)):
        res = (res,)
    for item in res:
        if isinstance(item, dict):
            for k, v in item.items():
                if isinstance(v, list) and k == "assertions":
                    print(f"  {k}:")
                    for a in v:
                        print("     ", a.replace("\n", " "))
                else:
                    print(f"  {k}: {v}")
        else:
            print("  ", mask(repr(item)))
