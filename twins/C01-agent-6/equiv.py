"""Equivalence script for the refactoring of SchedulingSolver.append_z3_assertion /
solve (+ extracted _print_conflicting_constraints).  Prints a canonical description
of the outcome of several small problems (property C01: task timing)."""
import contextlib
import io
import os
import re
import sys

sys.path.insert(0, os.getcwd())

import z3
import processscheduler as ps

assert os.path.dirname(ps.__file__).startswith(os.getcwd()), ps.__file__

HEX8 = re.compile(r"asst_[0-9a-f]{8}")
HEX_ANY = re.compile(r"\b[0-9a-f]{8,32}\b")
TIME = re.compile(r"\d+\.\d+s")
AUTO_NAME = re.compile(r"_\d{8}\b")  # default names end with a random 8 digit number
MODEL_LINE = re.compile(r"^\s+-> [^ =]+=")  # print_solution: order depends on the random labels


def mask(text):
    text = HEX8.sub("asst_XXXXXXXX", text)
    text = HEX_ANY.sub("HEX", text)
    text = TIME.sub("T.TTs", text)
    text = AUTO_NAME.sub("_NNNNNNNN", text)
    return text


NOISY_STAT = re.compile(r"^\s+(time|memory|max memory|max-memory|rlimit count|rlimit-count): ")


def canonical_stdout(text):
    """mask the random parts and sort each block of model lines of print_solution"""
    out, block = [], []
    for line in mask(text).split("\n"):
        if NOISY_STAT.match(line):  # wall clock / memory statistics of z3
            continue
        if MODEL_LINE.match(line):
            block.append(line)
            continue
        out += sorted(block)
        block = []
        out.append(line)
    out += sorted(block)
    return "\n".join(out)


def describe_solution(sol):
    if not sol:
        return [f"solution -> {sol!r}"]
    out = [f"horizon={sol.horizon}"]
    for name in sorted(sol.tasks):
        t = sol.tasks[name]
        out.append(
            f"task {name}: type={t.type} start={t.start} end={t.end} duration={t.duration} "
            f"scheduled={t.scheduled} optional={t.optional} release={t.release_date} "
            f"due={t.due_date} deadline={t.due_date_is_deadline} res={sorted(t.assigned_resources)}"
        )
    for name in sorted(sol.indicators):
        out.append(f"indicator {name}={sol.indicators[name]}")
    return out


def run(title, build, another=False, **solver_kwargs):
    print("=" * 70)
    print(title, sorted(solver_kwargs.items()))
    buf = io.StringIO()
    lines = []
    try:
        with contextlib.redirect_stdout(buf):
            pb = build()
            solver = ps.SchedulingSolver(problem=pb, **solver_kwargs)
            sol = solver.solve()
            lines += describe_solution(sol)
            assertions = sorted(mask(str(a)) for a in solver._solver.assertions())
            lines.append(f"nb assertions={len(assertions)}")
            lines += ["  A: " + a.replace("\n", " ") for a in assertions]
            lines.append(
                "tracked map values=" + mask(repr(sorted(solver._map_boolrefs_to_constraints.values())))
            )
            lines.append(
                "tracked map keys ok="
                + repr(all(HEX8.fullmatch(k) for k in solver._map_boolrefs_to_constraints))
            )
            if another and sol:
                sol2 = solver.find_another_solution()
                lines.append("-- another solution")
                lines += describe_solution(sol2)
                lines.append(f"nb assertions after={len(solver._solver.assertions())}")
    except Exception as exc:  # pylint: disable=broad-except
        lines.append(f"ERROR {type(exc).__name__}: {mask(str(exc))}")
    for line in lines:
        print(line)
    print("-- stdout of the library (masked)")
    print(canonical_stdout(buf.getvalue()))


# 1. fixed durations, release date and deadline, a worker
def pb_fixed():
    pb = ps.SchedulingProblem(name="fixed", horizon=12)
    t1 = ps.FixedDurationTask(name="t1", duration=3, release_date=2)
    t2 = ps.FixedDurationTask(name="t2", duration=4, due_date=9, due_date_is_deadline=True)
    t3 = ps.FixedDurationTask(name="t3", duration=2, due_date=3, due_date_is_deadline=False)
    w = ps.Worker(name="w")
    for t in (t1, t2, t3):
        t.add_required_resource(w)
    ps.TaskPrecedence(task_before=t2, task_after=t1)
    return pb


# 2. variable durations (bounds, allowed list, min 0) and a zero duration task
def pb_variable():
    pb = ps.SchedulingProblem(name="variable", horizon=10)
    v1 = ps.VariableDurationTask(name="v1", min_duration=2, max_duration=5, release_date=1)
    v2 = ps.VariableDurationTask(name="v2", allowed_durations=[3, 6], due_date=8)
    v3 = ps.VariableDurationTask(name="v3", min_duration=0, max_duration=1)
    z = ps.ZeroDurationTask(name="z", release_date=4)
    ps.TaskStartAt(task=v1, value=1)
    ps.TaskEndAt(task=v2, value=8)
    ps.TaskPrecedence(task_before=v3, task_after=z)
    return pb


# 3. optional tasks, one forced, one whose deadline can't be met
def pb_optional():
    pb = ps.SchedulingProblem(name="optional", horizon=6)
    o1 = ps.FixedDurationTask(name="o1", duration=2, optional=True, release_date=3)
    o2 = ps.FixedDurationTask(
        name="o2", duration=5, optional=True, release_date=3, due_date=6, due_date_is_deadline=True
    )
    o3 = ps.VariableDurationTask(name="o3", min_duration=1, max_duration=2, optional=True)
    ps.OptionalTaskForceSchedule(task=o1, to_be_scheduled=True)
    ps.OptionalTaskForceSchedule(task=o3, to_be_scheduled=True)
    return pb


# 4. unsat through conflicting named constraints (reported from the unsat core in debug mode)
def pb_unsat():
    pb = ps.SchedulingProblem(name="unsat", horizon=20)
    a = ps.FixedDurationTask(name="a", duration=5, release_date=4, due_date=12)
    b = ps.FixedDurationTask(name="b", duration=2)
    ps.TaskStartAt(name="b_at_0", task=b, value=0)
    ps.TaskEndAt(name="b_ends_7", task=b, value=7)
    ps.TaskPrecedence(name="a_then_b", task_before=a, task_after=b)
    return pb


# 5. no horizon, makespan objective
def pb_objective():
    pb = ps.SchedulingProblem(name="objective")
    t1 = ps.FixedDurationTask(name="t1", duration=3, release_date=5)
    t2 = ps.VariableDurationTask(name="t2", min_duration=2, max_duration=4, due_date=30)
    w = ps.Worker(name="w")
    t1.add_required_resource(w)
    t2.add_required_resource(w)
    ps.ObjectiveMinimizeMakespan()
    return pb


# 6. horizon 0 edge: only zero length work fits
def pb_horizon_zero_like():
    pb = ps.SchedulingProblem(name="tiny", horizon=1)
    ps.ZeroDurationTask(name="z0")
    ps.VariableDurationTask(name="v0", min_duration=0, max_duration=3, release_date=1)
    ps.FixedDurationTask(name="f1", duration=1, release_date=0, due_date=1)
    return pb


# 7. horizon too small for a mandatory task (unsat without named constraints)
def pb_horizon_too_small():
    pb = ps.SchedulingProblem(name="small", horizon=3)
    ps.FixedDurationTask(name="big", duration=4)
    return pb


# 8. first order logic / user assertions, lists of assertions through the solver
def pb_user_assertions():
    pb = ps.SchedulingProblem(name="user", horizon=15)
    t1 = ps.FixedDurationTask(name="t1", duration=3, release_date=1)
    t2 = ps.VariableDurationTask(name="t2", min_duration=1, max_duration=6, due_date=14)
    ps.ConstraintFromExpression(expression=t1._start >= 4)
    pb.append_z3_assertion(t2._end <= 9)
    ps.ForceScheduleNOptionalTasks(
        list_of_optional_tasks=[
            ps.FixedDurationTask(name="op1", duration=2, optional=True, release_date=2),
            ps.FixedDurationTask(name="op2", duration=2, optional=True, release_date=3),
        ],
        nb_tasks_to_schedule=1,
    )
    return pb


CASES = [
    ("fixed", pb_fixed),
    ("variable", pb_variable),
    ("optional", pb_optional),
    ("unsat", pb_unsat),
    ("tiny", pb_horizon_zero_like),
    ("horizon too small", pb_horizon_too_small),
    ("user assertions", pb_user_assertions),
]

for debug in (False, True):
    for title, build in CASES:
        run(title, build, another=(title in ("fixed", "variable")), debug=debug)
    run("objective incremental", pb_objective, debug=debug)
    run("objective optimize", pb_objective, debug=debug, optimizer="optimize")
    run("objective incremental max_iter", pb_objective, debug=debug, max_iter=1)
    run("fixed with logics", pb_fixed, debug=debug, logics="QF_IDL")

# direct calls of append_z3_assertion with single / list / nested inputs
for debug in (False, True):
    print("=" * 70)
    print("direct append_z3_assertion debug=", debug)
    buf = io.StringIO()
    with contextlib.redirect_stdout(buf):
        pb = ps.SchedulingProblem(name="direct", horizon=5)
        t = ps.FixedDurationTask(name="t", duration=2)
        solver = ps.SchedulingSolver(problem=pb, debug=debug)
        solver.initialize()
    x = z3.Int("x")
    results = []
    for arg, name in [
        (x > 1, None),
        ([x < 9, x != 5], "grp"),
        ([], "empty"),
        (x >= 2, "single"),
        ((x <= 8, x != 6), None),
        ("not an assertion", None),
    ]:
        try:
            results.append(repr(solver.append_z3_assertion(arg, name)))
        except BaseException as exc:  # pylint: disable=broad-except
            results.append(f"ERROR {type(exc).__name__}: {mask(str(exc))}")
    print(results)
    print(sorted(mask(str(a)) for a in solver._solver.assertions()))
    print(sorted(solver._map_boolrefs_to_constraints.values()))
    print(solver._solver.check())
