"""Equivalence script for the refactoring of plotter.render_gantt_plotly.

plotly is not installed here, so `create_gantt` is replaced in the plotter module
by a recorder: the script prints exactly what the renderer hands to plotly (the
rows, the colours, the title, every keyword), what it does with the figure
(write_image / to_html / show), the warnings, the error raised, and the next value
of the random stream after the call (the number and order of random draws is part
of the behaviour).  A matplotlib rendering of every solution is dumped too.
"""
import contextlib
import io
import os
import sys
import random
import tempfile
import warnings
from datetime import datetime, timedelta

sys.path.insert(0, os.getcwd())

import matplotlib

matplotlib.use("Agg")
import matplotlib.pyplot as plt

import processscheduler as ps
from processscheduler import plotter

assert os.path.dirname(os.path.dirname(plotter.__file__)) == os.getcwd(), plotter.__file__

CALLS = []


class FakeFig:
    def write_image(self, filename):
        CALLS.append(("write_image", os.path.basename(filename)))

    def to_html(self, **kwargs):
        CALLS.append(("to_html", sorted(kwargs.items())))
        return "<html>fake</html>"

    def show(self):
        CALLS.append(("show",))


def fake_create_gantt(df, **kwargs):
    CALLS.append(("create_gantt", [list(row.items()) for row in df], list(kwargs.items())))
    return FakeFig()


plotter.create_gantt = fake_create_gantt
plotter.HAVE_PLOTLY = True

TMP = tempfile.mkdtemp()


def solve(pb):
    """Solve silently (the solver prints timings, which vary from run to run)."""
    with contextlib.redirect_stdout(io.StringIO()):
        return ps.SchedulingSolver(problem=pb).solve()


def run_plotly(label, solution, **kwargs):
    del CALLS[:]
    random.seed(1234)
    shown = dict(kwargs)
    for key in ("fig_filename", "html_filename"):
        if shown.get(key):
            kwargs[key] = os.path.join(TMP, shown[key])
    with warnings.catch_warnings(record=True) as caught:
        warnings.simplefilter("always")
        try:
            result = plotter.render_gantt_plotly(solution, **kwargs)
            outcome = f"returned {result!r}"
        except Exception as exc:  # pylint: disable=broad-except
            outcome = f"raised {type(exc).__name__}: {exc}"
    print(f"--- plotly {label} {sorted(shown.items())}")
    print("   ", outcome)
    for call in CALLS:
        print("    call:", call)
    for w in caught:
        print("    warning:", w.category.__name__, w.message)
    print("    next random:", random.random())
    html = kwargs.get("html_filename")
    if html and os.path.isfile(html):
        with open(html, encoding="utf-8") as f:
            print("    html file:", f.read())
        os.remove(html)


def run_matplotlib(label, solution, **kwargs):
    plt.close("all")
    try:
        ps.render_gantt_matplotlib(solution, show_plot=False, **kwargs)
    except Exception as exc:  # pylint: disable=broad-except
        print(f"--- matplotlib {label} raised {type(exc).__name__}: {exc}")
        return
    print(f"--- matplotlib {label} {sorted(kwargs.items())}")
    for ax in plt.gcf().axes:
        print("    axes:", ax.get_title(), "|", ax.get_ylabel(), "|",
              [t.get_text() for t in ax.get_yticklabels()])
        for coll in ax.collections:
            for path in coll.get_paths():
                ext = path.get_extents()
                print("      bar:", round(ext.x0, 4), round(ext.x1, 4), round(ext.y0, 4), round(ext.y1, 4))
        for text in ax.texts:
            print("      text:", text.get_position(), text.get_text())
        for line in ax.lines:
            print("      line:", line.get_label(), [repr(v) for v in line.get_xdata()],
                  [repr(v) for v in line.get_ydata()])
    plt.close("all")


def all_variants(label, solution):
    run_plotly(label, solution, show_plot=False)
    run_plotly(label, solution, show_plot=False, render_mode="Task")
    run_plotly(label, solution, show_plot=True, render_mode="Resource", show_indicators=False)
    for sort in ("Task", "Resource", "Start", "Finish", "Duration", "", 0):
        for mode in ("Task", "Resource"):
            run_plotly(label, solution, show_plot=False, render_mode=mode, sort=sort)
    run_plotly(label, solution, show_plot=False, fig_size=(400, 300), fig_filename="a.svg")
    run_plotly(label, solution, show_plot=False, fig_size=(400, 300, 7), html_filename="a.html", sort="Task")
    run_plotly(label, solution, show_plot=False, fig_size=(400,))
    run_plotly(label, solution, show_plot=False, render_mode="foo")
    run_plotly(label, solution, show_plot=False, render_mode="task")
    run_matplotlib(label, solution)
    run_matplotlib(label, solution, render_mode="Task")


# 1. single task, single worker (the repository's plotly test)
problem = ps.SchedulingProblem(name="P1Single", horizon=7)
task = ps.FixedDurationTask(name="task", duration=7)
worker = ps.Worker(name="worker")
task.add_required_resource(worker)
all_variants("P1", solve(problem))

# 2. several tasks, two workers, a task without resource, real dates, indicator
problem = ps.SchedulingProblem(
    name="P2Dates", horizon=12, delta_time=timedelta(minutes=15), start_time=datetime(2024, 3, 1, 8, 0)
)
t1 = ps.FixedDurationTask(name="T1", duration=4)
t2 = ps.FixedDurationTask(name="T2", duration=3)
t3 = ps.FixedDurationTask(name="T3", duration=2)
ps.FixedDurationTask(name="Alone", duration=5)
w1 = ps.Worker(name="W1", cost=ps.ConstantFunction(value=7))
w2 = ps.Worker(name="W2", cost=ps.ConstantFunction(value=3))
t1.add_required_resources([w1, w2])
t2.add_required_resource(w1)
t3.add_required_resource(w2)
ps.TaskStartAt(task=t1, value=0)
ps.TaskStartAt(task=t2, value=5)
ps.TaskStartAt(task=t3, value=9)
ps.IndicatorResourceCost(list_of_resources=[w1, w2])
ps.IndicatorResourceUtilization(resource=w1)
all_variants("P2", solve(problem))

# 3. optional tasks: one forced to be scheduled, one forced out
problem = ps.SchedulingProblem(name="P3Optional", horizon=10)
o1 = ps.FixedDurationTask(name="Opt_in", duration=3, optional=True)
o2 = ps.FixedDurationTask(name="Opt_out", duration=4, optional=True)  # cannot fit
m = ps.FixedDurationTask(name="Mand", duration=4)
w = ps.Worker(name="W")
for t in (o1, o2, m):
    t.add_required_resource(w)
ps.ForceScheduleNOptionalTasks(list_of_optional_tasks=[o1], nb_tasks_to_schedule=1)
ps.TaskStartAt(task=m, value=0)
ps.TaskStartAt(task=o1, value=5)
all_variants("P3", solve(problem))

# 4. zero duration task and select workers, delta_time without start_time
problem = ps.SchedulingProblem(name="P4Zero", horizon=6, delta_time=timedelta(hours=1))
z = ps.ZeroDurationTask(name="Milestone")
f = ps.FixedDurationTask(name="Work", duration=3)
wa = ps.Worker(name="A")
wb = ps.Worker(name="B")
z.add_required_resource(wa)
f.add_required_resource(ps.SelectWorkers(list_of_workers=[wa, wb], nb_workers_to_select=1))
ps.TaskStartAt(task=z, value=2)
ps.TaskStartAt(task=f, value=1)
all_variants("P4", solve(problem))

# 5. buffers (plotly only warns), no resource at all
problem = ps.SchedulingProblem(name="P5Buffers")
task_1 = ps.FixedDurationTask(name="task1", duration=3)
task_2 = ps.ZeroDurationTask(name="task2")
buffer_1 = ps.NonConcurrentBuffer(name="Buffer1", initial_level=10)
buffer_2 = ps.NonConcurrentBuffer(name="Buffer2", initial_level=0)
ps.TaskStartAt(task=task_1, value=5)
ps.TaskStartAt(task=task_2, value=1)
ps.TaskUnloadBuffer(task=task_1, buffer=buffer_1, quantity=3)
ps.TaskLoadBuffer(task=task_1, buffer=buffer_2, quantity=2)
ps.TaskUnloadBuffer(task=task_2, buffer=buffer_1, quantity=1)
all_variants("P5", solve(problem))

# 6. cumulative worker, variable duration task, horizon objective indicator
problem = ps.SchedulingProblem(name="P6Cumulative")
c = ps.CumulativeWorker(name="Cumul", size=2)
v = ps.VariableDurationTask(name="Var", min_duration=2, max_duration=4, work_amount=6)
c.productivity = 0
f1 = ps.FixedDurationTask(name="F1", duration=2)
f2 = ps.FixedDurationTask(name="F2", duration=2)
wp = ps.Worker(name="Prod", productivity=2)
v.add_required_resource(wp)
f1.add_required_resource(c)
f2.add_required_resource(c)
ps.ObjectiveMinimizeMakespan()
all_variants("P6", solve(problem))

# 7. no solution at all, and plotly reported as missing
problem = ps.SchedulingProblem(name="P7Unsat", horizon=2)
ps.FixedDurationTask(name="TooLong", duration=5)
unsat = solve(problem)
print("P7 solution:", repr(unsat))
run_plotly("P7", unsat, show_plot=False)
run_plotly("P7", None, show_plot=False, render_mode="foo")
plotter.HAVE_PLOTLY = False
problem = ps.SchedulingProblem(name="P7b", horizon=2)
ps.FixedDurationTask(name="Short", duration=1)
run_plotly("P7b", solve(problem), show_plot=False, render_mode="foo")
