"""Equivalence driver for the C13 refactoring (solve / _print_unsat_core_conflicts /
_solve_optimize_incremental bound selection / export_to_smt2).

Each scenario prints a canonical description: the solver's stdout (uuids and timings
masked), the outcome of every call, the sorted assertions and the exported smt2 text.
"""
import contextlib
import io
import os
import re
import sys
import tempfile
import warnings

sys.path.insert(0, os.getcwd())

import z3  # noqa: E402
import processscheduler as ps  # noqa: E402

assert os.path.abspath(ps.__file__).startswith(os.getcwd()), ps.__file__


def mask(text):
    text = re.sub(r"asst_[0-9a-f]{8}", "asst_XXXXXXXX", text)
    text = re.sub(r"[0-9a-f]{8}-[0-9a-f]{4}-[0-9a-f]{4}-[0-9a-f]{4}-[0-9a-f]{12}", "UUID", text)
    text = re.sub(r"\d+\.\d+s", "T.TTs", text)
    text = re.sub(r"elapsed time:\S+", "elapsed time:T", text)
    # generated names of constraints carry a random 8 digit suffix
    text = re.sub(r"_\d{8}\b", "_NNNNNNNN", text)
    # z3 statistics (debug mode) contain time/memory figures: dropped; the lines of
    # print_solution come in the order of the model's declarations, which depends on
    # the random asst_ names: sorted
    lines, out, in_stats, block = text.split("\n"), [], False, []
    for line in lines:
        if line.startswith("Solver statistics:"):
            in_stats = True
            out.append(line)
            continue
        if in_stats:
            if line.startswith("Solution:"):
                in_stats = False
            else:
                continue
        if re.match(r"^\s+-> \S+=", line):
            block.append(line)
            continue
        out.extend(sorted(block))
        block = []
        out.append(line)
    out.extend(sorted(block))
    return "\n".join(out)


def sol_repr(sol):
    if sol is False or sol is None:
        return repr(sol)
    out = []
    for name in sorted(sol.tasks):
        t = sol.tasks[name]
        out.append(
            f"{name}:{t.start}-{t.end}:d{t.duration}:sch={t.scheduled}:res={sorted(t.assigned_resources)}"
        )
    out.append(f"horizon={sol.horizon}")
    out.append(f"indicators={sorted(sol.indicators.items())}")
    for name in sorted(sol.buffers):
        b = sol.buffers[name]
        out.append(f"buffer {name}: {b.level} @ {b.level_change_times}")
    return " | ".join(out)


def assertions_repr(solver):
    if solver._solver is None:
        return "<no solver>"
    return sorted(mask(str(a)) for a in solver._solver.assertions())


def export_repr(solver):
    fd, path = tempfile.mkstemp(suffix=".smt2")
    os.close(fd)
    try:
        solver.export_to_smt2(path)
        with open(path, encoding="utf-8") as f:
            return mask(f.read())
    finally:
        os.remove(path)


def call(label, fn, log):
    try:
        res = fn()
        if isinstance(res, str):
            log.append(f"{label} -> text[{len(res)}]\n{res}")
        elif isinstance(res, list):
            log.append(f"{label} -> list[{len(res)}]\n" + "\n".join(res))
        else:
            log.append(f"{label} -> {sol_repr(res)}")
    except Exception as exc:  # canonical description of the error
        log.append(f"{label} -> raised {type(exc).__name__}: {exc}")


def run(title, build, steps):
    buf = io.StringIO()
    log = []
    with contextlib.redirect_stdout(buf), warnings.catch_warnings(record=True) as w:
        warnings.simplefilter("always")
        try:
            solver = build()
            for label, step in steps:
                call(label, lambda: step(solver), log)
            log.append("model is None: %s" % (solver._model is None))
            log.append("n scopes: %s" % (solver._solver.num_scopes() if isinstance(solver._solver, z3.Solver) else "n/a"))
        except Exception as exc:
            log.append(f"build raised {type(exc).__name__}: {exc}")
        for wi in w:
            log.append("warning: " + re.sub(r"\s+", " ", str(wi.message)))
    print("=" * 30, title)
    print("\n".join(log))
    print("--- stdout")
    print(mask(buf.getvalue()))


SOLVE = ("solve", lambda s: s.solve())
ANOTHER = ("another", lambda s: s.find_another_solution())
EXPORT = ("export", export_repr)
ASSTS = ("assertions", assertions_repr)
INIT = ("initialize", lambda s: s.initialize())


# 1. feasible, no objective, mixed calls, exhaust the solutions
def p1(debug=False):
    pb = ps.SchedulingProblem(name="P1", horizon=3)
    ps.FixedDurationTask(name="t", duration=2)
    return ps.SchedulingSolver(problem=pb, debug=debug)


run("1 plain feasible", p1, [ANOTHER, EXPORT, SOLVE, SOLVE, ASSTS, ANOTHER, ANOTHER, SOLVE, EXPORT, ASSTS])
run("1d plain feasible debug", lambda: p1(True), [SOLVE, ANOTHER, ANOTHER, SOLVE])


# 2. infeasible problem, with and without debug (unsat core printing with named constraints)
def p2(debug):
    pb = ps.SchedulingProblem(name="P2", horizon=5)
    t1 = ps.FixedDurationTask(name="t1", duration=3)
    t2 = ps.FixedDurationTask(name="t2", duration=3)
    w = ps.Worker(name="w")
    t1.add_required_resource(w)
    t2.add_required_resource(w)
    ps.TaskStartAt(task=t1, value=0)
    ps.TaskPrecedence(task_before=t2, task_after=t1)
    ps.TaskEndAt(task=t2, value=1)
    return ps.SchedulingSolver(problem=pb, debug=debug)


run("2 unsat", lambda: p2(False), [SOLVE, SOLVE, EXPORT, ANOTHER, ASSTS])
run("2d unsat debug", lambda: p2(True), [INIT, SOLVE, SOLVE, ANOTHER])


# 2b. unsat only because of unnamed assertions (horizon): empty conflict list in debug
def p2b(debug):
    pb = ps.SchedulingProblem(name="P2b", horizon=1)
    ps.FixedDurationTask(name="t", duration=2)
    return ps.SchedulingSolver(problem=pb, debug=debug)


run("2b unsat horizon debug", lambda: p2b(True), [SOLVE, EXPORT, SOLVE])
z3.set_option(unsat_core=False)
z3.set_option("verbose", 0)


# 3. incremental, makespan (no bounds), optional + mandatory tasks, work_amount 0
def p3(**kw):
    pb = ps.SchedulingProblem(name="P3")
    t1 = ps.FixedDurationTask(name="t1", duration=2, work_amount=0)
    t2 = ps.FixedDurationTask(name="t2", duration=3)
    t3 = ps.FixedDurationTask(name="t3", duration=1, optional=True)
    w = ps.Worker(name="w")
    for t in (t1, t2, t3):
        t.add_required_resource(w)
    ps.ObjectiveMinimizeMakespan()
    return ps.SchedulingSolver(problem=pb, **kw)


run("3 incremental makespan", p3, [EXPORT, SOLVE, ASSTS, SOLVE, ANOTHER, ANOTHER, SOLVE, ASSTS, EXPORT])
run("3i incremental max_iter=1", lambda: p3(max_iter=1), [SOLVE, ANOTHER, SOLVE])
run("3o optimize makespan", lambda: p3(optimizer="optimize"), [EXPORT, SOLVE, SOLVE, ANOTHER, EXPORT, ASSTS])
run("3d incremental debug", lambda: p3(debug=True), [SOLVE, ANOTHER])
z3.set_option(unsat_core=False)
z3.set_option("verbose", 0)


# 4. indicator with bounds (0, 100): maximize reaches upper bound, minimize reaches lower bound
def p4(kind, **kw):
    pb = ps.SchedulingProblem(name="P4" + kind, horizon=4)
    t1 = ps.FixedDurationTask(name="t1", duration=2)
    t2 = ps.VariableDurationTask(name="t2", max_duration=2)
    w = ps.Worker(name="w")
    t1.add_required_resource(w)
    t2.add_required_resource(w)
    if kind == "max":
        ps.ObjectiveMaximizeResourceUtilization(resource=w)
    else:
        ind = ps.IndicatorResourceUtilization(resource=w)
        ps.ObjectiveMinimizeIndicator(target=ind)
    return ps.SchedulingSolver(problem=pb, **kw)


run("4 max utilization (upper bound stop)", lambda: p4("max"), [SOLVE, SOLVE, ANOTHER, ASSTS])
run("4m min utilization", lambda: p4("min"), [SOLVE, ANOTHER, SOLVE])
run("4o max utilization optimize", lambda: p4("max", optimizer="optimize"), [SOLVE, EXPORT, ANOTHER])


# 4b. user bounds on an expression indicator: the minimum equals bound 0
def p4b(kind):
    pb = ps.SchedulingProblem(name="P4b" + kind, horizon=6)
    t = ps.FixedDurationTask(name="t", duration=2)
    ind = ps.IndicatorFromMathExpression(name="start", expression=t._start, bounds=(0, 3))
    if kind == "min":
        ps.ObjectiveMinimizeIndicator(target=ind)
    else:
        ps.ObjectiveMaximizeIndicator(target=ind)
    return ps.SchedulingSolver(problem=pb)


run("4b bounds min", lambda: p4b("min"), [SOLVE, ANOTHER, ASSTS])
run("4b bounds max", lambda: p4b("max"), [SOLVE, ANOTHER, SOLVE, ASSTS])


# 5. multi objective: incremental (weighted) and optimize pareto / lex walking the front
def p5(**kw):
    pb = ps.SchedulingProblem(name="P5", horizon=20)
    t1 = ps.FixedDurationTask(name="task1", duration=3)
    t2 = ps.FixedDurationTask(name="task2", duration=3)
    ps.ConstraintFromExpression(expression=t1._end == 20 - t2._start)
    i1 = ps.IndicatorFromMathExpression(name="Task1End", expression=t1._end)
    i2 = ps.IndicatorFromMathExpression(name="Task2End", expression=t2._end)
    ps.ObjectiveMaximizeIndicator(target=i1, weight=1)
    ps.ObjectiveMaximizeIndicator(target=i2, weight=2)
    return ps.SchedulingSolver(problem=pb, **kw)


run("5 multi incremental", lambda: p5(max_iter=4), [SOLVE, SOLVE, ANOTHER, ASSTS])
run("5l multi optimize lex", lambda: p5(optimizer="optimize", optimize_priority="lex"), [EXPORT, SOLVE, SOLVE, ANOTHER])
run("5w multi optimize weight", lambda: p5(optimizer="optimize", optimize_priority="weight"), [SOLVE, EXPORT, SOLVE])
run("5p multi optimize pareto", lambda: p5(optimizer="optimize"), [SOLVE, SOLVE, SOLVE, ASSTS])


# 6. buffers, find_another_solution_for_variable, logics
def p6(**kw):
    pb = ps.SchedulingProblem(name="P6", horizon=6)
    t1 = ps.FixedDurationTask(name="t1", duration=2)
    t2 = ps.FixedDurationTask(name="t2", duration=2)
    b = ps.NonConcurrentBuffer(name="b", initial_level=0, lower_bound=0)
    ps.TaskLoadBuffer(task=t1, buffer=b, quantity=3)
    ps.TaskUnloadBuffer(task=t2, buffer=b, quantity=3)
    return ps.SchedulingSolver(problem=pb, **kw)


FOR_VAR = ("another_for_variable", lambda s: s.find_another_solution_for_variable(s.problem.tasks["t1"]._start))
run("6 buffer", p6, [FOR_VAR, SOLVE, FOR_VAR, FOR_VAR, FOR_VAR, SOLVE, EXPORT])
run("6l buffer logics", lambda: p6(logics="QF_UFLIA"), [EXPORT, SOLVE, ANOTHER])


# 7. empty problem / zero duration task edge values
def p7():
    pb = ps.SchedulingProblem(name="P7", horizon=1)
    ps.ZeroDurationTask(name="z")
    return ps.SchedulingSolver(problem=pb)


run("7 zero", p7, [SOLVE, ANOTHER, SOLVE, EXPORT])
