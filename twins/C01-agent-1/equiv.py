"""Equivalence harness for the task.py refactoring (property C01).

Run from the worktree root:  cd /tmp/t3_C01 && /venv/bin/python _twin/equiv.py
Prints a canonical description of each scenario's outcome.
"""
import contextlib
import io
import os
import re
import sys

sys.path.insert(0, os.getcwd())

import processscheduler as ps  # noqa: E402

assert os.path.realpath(ps.__file__).startswith(os.path.realpath(os.getcwd())), ps.__file__

# random parts of names: uuid strings and the integers derived from uuids
UUID_RE = re.compile(
    r"\d{6,}|[0-9a-f]{8}-[0-9a-f]{4}-[0-9a-f]{4}-[0-9a-f]{4}-[0-9a-f]{12}|(?<![0-9a-zA-Z])[0-9a-f]{32}(?![0-9a-zA-Z])"
)


def mask(text):
    return UUID_RE.sub("<uid>", " ".join(str(text).split()))


def describe(title, build, horizon=None, solve=True):
    print(f"=== {title}")
    try:
        pb = (
            ps.SchedulingProblem(name=title.replace(" ", "_"), horizon=horizon)
            if horizon is not None
            else ps.SchedulingProblem(name=title.replace(" ", "_"))
        )
        build(pb)
        # 1. per task assertions, in creation order (exact list, exact order)
        for task in pb.tasks.values():
            print(f"  task {task.name}: scheduled={mask(task._scheduled)}")
            print(
                "    release_due:",
                [mask(a) for a in task._release_due_assertions],
            )
            for asst in task.get_z3_assertions():
                print("    asst:", mask(asst), "| sexpr:", mask(asst.sexpr()))
        solver = ps.SchedulingSolver(problem=pb, max_time=30)
        with contextlib.redirect_stdout(io.StringIO()):
            solver.initialize()
        # 2. whole solver assertions, sorted
        for line in sorted(mask(a) for a in solver._solver.assertions()):
            print("  solver:", line)
        if not solve:
            return
        # 3. the solution
        with contextlib.redirect_stdout(io.StringIO()):
            solution = solver.solve()
        if not solution:
            print("  solution: NONE")
            return
        print("  horizon:", solution.horizon)
        for name in sorted(solution.tasks):
            ts = solution.tasks[name]
            print(
                f"  sol {name}: type={ts.type} start={ts.start} end={ts.end} "
                f"duration={ts.duration} scheduled={ts.scheduled} optional={ts.optional} "
                f"release={ts.release_date} due={ts.due_date} "
                f"deadline={ts.due_date_is_deadline} res={sorted(ts.assigned_resources)}"
            )
        for name in sorted(solution.indicators):
            print(f"  indicator {name} = {solution.indicators[name]}")
    except Exception as exc:  # the error raised is part of the outcome
        print(f"  ERROR {type(exc).__name__}: {mask(exc)[:400]}")


# ---------------------------------------------------------------- scenarios
def s01(pb):
    ps.FixedDurationTask(name="plain", duration=3)
    ps.FixedDurationTask(name="rel", duration=2, release_date=4)
    ps.FixedDurationTask(name="rel0", duration=2, release_date=0)
    ps.FixedDurationTask(name="relneg", duration=2, release_date=-3)
    ps.FixedDurationTask(name="due", duration=2, due_date=5)
    ps.FixedDurationTask(name="soft", duration=2, due_date=1, due_date_is_deadline=False)
    ps.FixedDurationTask(name="both", duration=1, release_date=7, due_date=8)


def s02(pb):
    ps.ZeroDurationTask(name="z")
    ps.ZeroDurationTask(name="zrel", release_date=3, due_date=3)
    ps.ZeroDurationTask(name="zopt", optional=True, release_date=2)
    ps.ZeroDurationTask(name="zdue0", due_date=0)


def s03(pb):
    ps.VariableDurationTask(name="v")
    ps.VariableDurationTask(name="vmin", min_duration=2)
    ps.VariableDurationTask(name="vmax", max_duration=4)
    ps.VariableDurationTask(name="vminmax", min_duration=3, max_duration=3, release_date=1)
    ps.VariableDurationTask(name="vallowed", allowed_durations=[5, 2, 7], due_date=9)
    ps.VariableDurationTask(
        name="vall", min_duration=3, max_duration=6, allowed_durations=[1, 4, 9],
        release_date=2, due_date=12,
    )
    ps.VariableDurationTask(name="vempty", allowed_durations=[3])


def s04(pb):
    # optional tasks of all kinds, with and without release / due dates
    ps.FixedDurationTask(name="of", duration=3, optional=True)
    ps.FixedDurationTask(name="ofrd", duration=3, optional=True, release_date=2, due_date=6)
    ps.FixedDurationTask(name="mand", duration=2)
    ps.VariableDurationTask(name="ov", optional=True)
    ps.VariableDurationTask(
        name="ovfull", optional=True, min_duration=1, max_duration=5,
        allowed_durations=[2, 4], release_date=3, due_date=10,
    )
    ps.VariableDurationTask(
        name="ovsoft", optional=True, due_date=2, due_date_is_deadline=False, release_date=0
    )
    ps.ZeroDurationTask(name="oz", optional=True, due_date=4)


def s05(pb):
    # optional tasks forced to be scheduled / not scheduled
    t1 = ps.FixedDurationTask(name="t1", duration=2, optional=True, release_date=5)
    t2 = ps.VariableDurationTask(name="t2", optional=True, min_duration=2, due_date=6)
    t3 = ps.FixedDurationTask(name="t3", duration=4, optional=True, due_date=4)
    ps.ForceScheduleNOptionalTasks(list_of_optional_tasks=[t1, t2, t3], nb_tasks_to_schedule=2)
    ps.OptionalTaskConditionSchedule(task=t1, condition=t2._start > 1)


def s06(pb):
    # resources, precedence, an objective, mixed mandatory / optional
    w1 = ps.Worker(name="w1")
    w2 = ps.Worker(name="w2")
    a = ps.FixedDurationTask(name="a", duration=3, release_date=1)
    b = ps.VariableDurationTask(name="b", min_duration=1, max_duration=4, work_amount=6, due_date=9)
    c = ps.FixedDurationTask(name="c", duration=2, optional=True, due_date=10)
    d = ps.ZeroDurationTask(name="d", release_date=2)
    a.add_required_resource(w1)
    b.add_required_resources([w1, w2])
    c.add_required_resource(ps.SelectWorkers(list_of_workers=[w1, w2], nb_workers_to_select=1))
    w1_prod = ps.Worker(name="w3", productivity=2)
    b.add_required_resource(w1_prod, dynamic=True)
    ps.TaskPrecedence(task_before=a, task_after=b)
    ps.TaskStartAt(task=d, value=2)
    ps.ObjectiveMinimizeMakespan()


def s07(pb):
    # infeasible: deadline before release + duration
    ps.FixedDurationTask(name="bad", duration=5, release_date=3, due_date=6)


def s08(pb):
    # deadline beyond the horizon, release at the horizon edge
    ps.FixedDurationTask(name="edge", duration=2, release_date=3, due_date=50)
    ps.VariableDurationTask(name="vedge", max_duration=1, release_date=5)
    ps.VariableDurationTask(name="vopt", optional=True, min_duration=6, release_date=1)


def s09(pb):
    ps.FixedDurationTask(name="zero", duration=0)


def s10(pb):
    ps.VariableDurationTask(name="neg", min_duration=-1)


def s11(pb):
    ps.VariableDurationTask(name="badmax", max_duration=0)


def s12(pb):
    ps.VariableDurationTask(name="badallowed", allowed_durations=[0, 2])


def s13(pb):
    ps.FixedDurationTask(name="dup", duration=1)
    ps.FixedDurationTask(name="dup", duration=2, release_date=1)


def s14(pb):
    ps.FixedDurationTask(name="strrel", duration=1, release_date="x")


def s15(pb):
    # empty allowed_durations list -> z3.Or([]) == False
    ps.VariableDurationTask(name="noallowed", allowed_durations=[])
    ps.VariableDurationTask(name="noallowedopt", allowed_durations=[], optional=True)


def s16(pb):
    # buffers + indicator + flowtime objective
    t1 = ps.FixedDurationTask(name="load", duration=2, release_date=2)
    t2 = ps.FixedDurationTask(name="unload", duration=2, due_date=12)
    t3 = ps.VariableDurationTask(name="idle", optional=True, allowed_durations=[1, 3])
    buf = ps.NonConcurrentBuffer(name="buf", initial_level=0)
    ps.TaskLoadBuffer(task=t1, buffer=buf, quantity=3)
    ps.TaskUnloadBuffer(task=t2, buffer=buf, quantity=3)
    ps.ObjectiveMinimizeFlowtime()


describe("s01 fixed release due", s01, horizon=20)
describe("s02 zero duration", s02, horizon=6)
describe("s03 variable duration", s03, horizon=15)
describe("s04 optional tasks", s04, horizon=12)
describe("s05 optional forced", s05, horizon=10)
describe("s06 resources objective", s06)
describe("s07 infeasible", s07, horizon=20)
describe("s08 horizon edge", s08, horizon=6)
describe("s09 error zero fixed duration", s09)
describe("s10 error negative min", s10)
describe("s11 error zero max", s11)
describe("s12 error zero allowed", s12)
describe("s13 error duplicate name", s13)
describe("s14 error release type", s14)
describe("s15 empty allowed list", s15, horizon=5)
describe("s16 buffers", s16, horizon=14)

# no active problem
print("=== s17 no active problem")
ps.base.active_problem = None
for cls, kw in (
    (ps.FixedDurationTask, dict(duration=1, release_date=2)),
    (ps.ZeroDurationTask, {}),
    (ps.VariableDurationTask, dict(allowed_durations=[1])),
):
    try:
        cls(name="orphan", **kw)
        print("  created")
    except Exception as exc:
        print(f"  ERROR {type(exc).__name__}: {mask(exc)}")

# json export of tasks must not change either
print("=== s18 json export")
pb = ps.SchedulingProblem(name="json", horizon=9)
t = ps.VariableDurationTask(name="j", optional=True, allowed_durations=[1, 2], release_date=1, due_date=8)
f = ps.FixedDurationTask(name="k", duration=2, release_date=1)
print(" ", mask(t.to_json(compact=True)))
print(" ", mask(f.to_json(compact=True)))
