"""Equivalence script for the C11 twin: exercises Task.add_required_resource and
Task.set_assertions (processscheduler/task.py) on varied small problems and prints a
canonical description of every outcome.

Run with   cd /tmp/t4_C11 && /venv/bin/python _twin/equiv.py
"""
import contextlib
import io
import itertools
import os
import re
import sys
from datetime import datetime, timedelta

sys.path.insert(0, os.getcwd())

import z3  # noqa: E402
import processscheduler as ps  # noqa: E402
import processscheduler.base  # noqa: E402

assert os.path.dirname(os.path.abspath(ps.__file__)).startswith(os.getcwd()), ps.__file__


# deterministic uids so that nothing random remains in the names
class _FakeUUID:
    _counter = itertools.count(1)

    def __init__(self):
        self.int = (10000000 + next(_FakeUUID._counter)) * 10**24 + 777


def _reset_uids():
    _FakeUUID._counter = itertools.count(1)


processscheduler.base.uuid4 = _FakeUUID

LONG_INT = re.compile(r"(\d{8})0{21}777")


def mask(text):
    return LONG_INT.sub(r"<uid\1>", text)


def flat(expr):
    return mask(" ".join(str(expr).split()))


def dump_object_assertions(label, obj):
    print(f"  [{label}] {obj.name}: {len(obj.get_z3_assertions())} assertion(s), in order")
    for a in obj.get_z3_assertions():
        print("     ", flat(a))


def dump_tasks_and_resources(pb):
    for task in pb.tasks.values():
        dump_object_assertions("task", task)
        print(
            "      required:",
            [r.name for r in task._required_resources],
            "scheduled flag:",
            flat(task._scheduled),
        )
    for worker in pb.workers.values():
        print(
            f"  [worker] {worker.name} busy:",
            [
                (t.name, flat(i[0]), flat(i[1]))
                for t, i in worker._busy_intervals.items()
            ],
        )
    for sw in pb.select_workers.values():
        dump_object_assertions("select", sw)
    print("  unique integer counter:", pb._unique_integer)


def dump_solution(pb, solve=True, **solver_kw):
    dump_tasks_and_resources(pb)
    if not solve:
        return
    solver = ps.SchedulingSolver(problem=pb, **solver_kw)
    with contextlib.redirect_stdout(io.StringIO()):  # timings are not canonical
        solution = solver.solve()
    print("  solver assertions (sorted):")
    for line in sorted(flat(a) for a in solver._solver.assertions()):
        print("     ", line)
    if not solution:
        print("  NO SOLUTION:", solution)
        return
    print("  horizon:", solution.horizon)
    for name in sorted(solution.tasks):
        t = solution.tasks[name]
        print(
            "  task",
            mask(name),
            t.type,
            "start",
            t.start,
            "end",
            t.end,
            "duration",
            t.duration,
            "scheduled",
            t.scheduled,
            "optional",
            t.optional,
            "assigned",
            [mask(r) for r in t.assigned_resources],
            "times",
            t.start_time,
            t.end_time,
            t.duration_time,
        )
    for name in sorted(solution.resources):
        r = solution.resources[name]
        print("  resource", mask(name), r.type, "assignments", r.assignments)
    print("  indicators:", {mask(k): v for k, v in solution.indicators.items()})
    # the property itself
    ok = True
    for name, t in solution.tasks.items():
        if t.scheduled:
            ok &= t.end - t.start == t.duration
            ok &= solution.horizon >= t.end
        else:
            ok &= t.assigned_resources == []
        for r_name in t.assigned_resources:
            ok &= any(a[0] == name for a in solution.resources[r_name].assignments)
    for r_name, r in solution.resources.items():
        for a in r.assignments:
            ok &= r_name in solution.tasks[a[0]].assigned_resources
    print("  C11 self-consistency:", ok)


def case(title):
    def deco(fn):
        def run():
            _reset_uids()
            processscheduler.base.active_problem = None
            print("=" * 78)
            print("CASE", title)
            try:
                fn()
            except Exception as exc:  # pylint: disable=broad-except
                print("  ERROR", type(exc).__name__, mask(str(exc)))

        CASES.append(run)
        return run

    return deco


CASES = []


@case("1 mandatory fixed/zero/variable tasks, one plain worker each, defaults")
def _():
    pb = ps.SchedulingProblem(name="c1", horizon=12)
    t1 = ps.FixedDurationTask(name="t1", duration=3)
    t2 = ps.ZeroDurationTask(name="t2")
    t3 = ps.VariableDurationTask(name="t3", min_duration=0, max_duration=4)
    t4 = ps.VariableDurationTask(name="t4", allowed_durations=[2, 5], work_amount=4)
    w = ps.Worker(name="w", productivity=2)
    for t in (t1, t2, t3, t4):
        t.add_required_resource(w)
    ps.TaskStartAt(task=t2, value=0)
    ps.ObjectiveMinimizeMakespan()
    dump_solution(pb)


@case("2 delay_in / early_out: positive, zero and negative values")
def _():
    pb = ps.SchedulingProblem(name="c2")
    w1 = ps.Worker(name="w1")
    w2 = ps.Worker(name="w2")
    w3 = ps.Worker(name="w3")
    w4 = ps.Worker(name="w4")
    w5 = ps.Worker(name="w5")
    t1 = ps.FixedDurationTask(name="t1", duration=6)
    t2 = ps.FixedDurationTask(name="t2", duration=5, release_date=2, due_date=20)
    t1.add_required_resource(w1, delay_in=2, early_out=1)
    t1.add_required_resource(w2, delay_in=0, early_out=0)
    t1.add_required_resource(w3, delay_in=-3, early_out=-1)
    t1.add_required_resource(w4, delay_in=1)
    t1.add_required_resource(w5, early_out=2)
    t2.add_required_resource(w1, delay_in=0, early_out=3)
    t2.add_required_resource(w2, dynamic=False, delay_in=4, early_out=0)
    # dynamic wins over delay_in / early_out
    t2.add_required_resource(w3, dynamic=True, delay_in=1, early_out=1)
    ps.ObjectiveMinimizeMakespan()
    dump_solution(pb)


@case("3 dynamic workers, variable duration with work amount, add_required_resources")
def _():
    pb = ps.SchedulingProblem(name="c3", horizon=15)
    w1 = ps.Worker(name="w1", productivity=1)
    w2 = ps.Worker(name="w2", productivity=2)
    w3 = ps.Worker(name="w3", productivity=0)
    t1 = ps.VariableDurationTask(name="t1", work_amount=9)
    t2 = ps.FixedDurationTask(name="t2", duration=4)
    t1.add_required_resources([w1, w2], dynamic=True)
    t1.add_required_resource(w3)
    t2.add_required_resources([w2, w3])
    t2.add_required_resource(w1, dynamic=True)
    ps.ObjectiveMinimizeMakespan()
    dump_solution(pb)


@case("4 optional tasks of every kind, release/due dates, forced on and off")
def _():
    pb = ps.SchedulingProblem(name="c4", horizon=10)
    w = ps.Worker(name="w")
    o1 = ps.FixedDurationTask(name="o1", duration=3, optional=True, release_date=2)
    o2 = ps.ZeroDurationTask(name="o2", optional=True, due_date=4)
    o3 = ps.VariableDurationTask(
        name="o3", optional=True, min_duration=1, max_duration=3, release_date=0
    )
    o4 = ps.VariableDurationTask(
        name="o4", optional=True, allowed_durations=[2, 3], due_date=9,
        due_date_is_deadline=False,
    )
    o5 = ps.FixedDurationTask(name="o5", duration=2, optional=True, due_date=7)
    m = ps.FixedDurationTask(name="m", duration=2, release_date=1, due_date=9)
    for t in (o1, o2, o3, o4, o5, m):
        t.add_required_resource(w)
    ps.OptionalTaskForceSchedule(task=o1, to_be_scheduled=True)
    ps.OptionalTaskForceSchedule(task=o2, to_be_scheduled=False)
    ps.OptionalTaskForceSchedule(task=o3, to_be_scheduled=True)
    ps.OptionalTaskForceSchedule(task=o4, to_be_scheduled=False)
    ps.OptionalTaskForceSchedule(task=o5, to_be_scheduled=False)
    dump_solution(pb)


@case("5 SelectWorkers exact / min / max on mandatory and optional tasks")
def _():
    pb = ps.SchedulingProblem(name="c5", horizon=9)
    w1 = ps.Worker(name="w1")
    w2 = ps.Worker(name="w2")
    w3 = ps.Worker(name="w3")
    t1 = ps.FixedDurationTask(name="t1", duration=3)
    t2 = ps.FixedDurationTask(name="t2", duration=2, optional=True)
    t3 = ps.VariableDurationTask(name="t3", min_duration=2, optional=True)
    t4 = ps.ZeroDurationTask(name="t4")
    t1.add_required_resource(
        ps.SelectWorkers(list_of_workers=[w1, w2, w3], nb_workers_to_select=2)
    )
    t2.add_required_resource(
        ps.SelectWorkers(list_of_workers=[w1, w2], nb_workers_to_select=1, kind="min")
    )
    t3.add_required_resource(
        ps.SelectWorkers(list_of_workers=[w2, w3], nb_workers_to_select=1, kind="max")
    )
    t3.add_required_resource(w1, dynamic=True)
    t4.add_required_resource(
        ps.SelectWorkers(list_of_workers=[w3, w1], nb_workers_to_select=2, kind="exact")
    )
    ps.OptionalTaskForceSchedule(task=t2, to_be_scheduled=True)
    ps.OptionalTaskForceSchedule(task=t3, to_be_scheduled=False)
    ps.ObjectiveMinimizeMakespan()
    dump_solution(pb)


@case("6 CumulativeWorker shared by several tasks, plus calendar times")
def _():
    pb = ps.SchedulingProblem(
        name="c6",
        horizon=8,
        start_time=datetime(2024, 3, 1, 8, 0),
        delta_time=timedelta(minutes=15),
    )
    cw = ps.CumulativeWorker(name="cw", size=3, productivity=4)
    w = ps.Worker(name="w")
    t1 = ps.FixedDurationTask(name="t1", duration=4)
    t2 = ps.FixedDurationTask(name="t2", duration=4)
    t3 = ps.FixedDurationTask(name="t3", duration=3, optional=True)
    t4 = ps.VariableDurationTask(name="t4", work_amount=4, optional=True)
    for t in (t1, t2, t3, t4):
        t.add_required_resource(cw)
    t1.add_required_resource(w, delay_in=1, early_out=1)
    ps.OptionalTaskForceSchedule(task=t3, to_be_scheduled=True)
    ps.OptionalTaskForceSchedule(task=t4, to_be_scheduled=False)
    ps.ObjectiveMinimizeMakespan()
    dump_solution(pb)


@case("7 cumulative worker required twice, select over duplicated workers (no solve)")
def _():
    pb = ps.SchedulingProblem(name="c7", horizon=8)
    cw = ps.CumulativeWorker(name="cw", size=2)
    w1 = ps.Worker(name="w 1")  # a name with a space
    w2 = ps.Worker(name="w2")
    t1 = ps.FixedDurationTask(name="t 1", duration=2)
    t1.add_required_resource(cw)
    try:
        t1.add_required_resource(cw)
        print("  second cumulative requirement accepted")
    except Exception as exc:  # pylint: disable=broad-except
        print("  second cumulative requirement:", type(exc).__name__, mask(str(exc)))
    sw = ps.SelectWorkers(list_of_workers=[w1, w1, w2], nb_workers_to_select=1)
    try:
        t1.add_required_resource(sw)
        print("  duplicated select accepted")
    except Exception as exc:  # pylint: disable=broad-except
        print("  duplicated select:", type(exc).__name__, mask(str(exc)))
    try:
        t1.add_required_resource(
            ps.SelectWorkers(list_of_workers=[cw, w2], nb_workers_to_select=1)
        )
        print("  select over cumulative accepted")
    except Exception as exc:  # pylint: disable=broad-except
        print("  select over cumulative:", type(exc).__name__, mask(str(exc)))
    dump_solution(pb, solve=False)


@case("8 errors: wrong type, duplicate resource, bad delay types, duplicate assertion")
def _():
    pb = ps.SchedulingProblem(name="c8", horizon=8)
    w1 = ps.Worker(name="w1")
    w2 = ps.Worker(name="w2")
    w3 = ps.Worker(name="w3")
    t1 = ps.FixedDurationTask(name="t1", duration=2)
    t2 = ps.FixedDurationTask(name="t2", duration=2, optional=True)
    attempts = [
        ("not a resource", lambda: t1.add_required_resource("w1")),
        ("a task as resource", lambda: t1.add_required_resource(t2)),
        ("None", lambda: t1.add_required_resource(None)),
        ("first w1", lambda: t1.add_required_resource(w1)),
        ("duplicate w1", lambda: t1.add_required_resource(w1)),
        ("duplicate w1 dynamic", lambda: t1.add_required_resource(w1, dynamic=True)),
        ("early_out str", lambda: t1.add_required_resource(w2, early_out="1")),
        ("w2 again after failure", lambda: t1.add_required_resource(w2)),
        ("delay_in None", lambda: t2.add_required_resource(w3, delay_in=None)),
        ("w3 again after failure", lambda: t2.add_required_resource(w3)),
        ("float values", lambda: t2.add_required_resource(w1, delay_in=0.5, early_out=0.0)),
        ("bool values", lambda: t2.add_required_resource(w2, delay_in=True, early_out=False)),
        ("set_assertions twice", lambda: t1.set_assertions([t1._start >= 0])),
        ("set_assertions empty", lambda: t1.set_assertions([])),
        ("set_assertions optional empty", lambda: t2.set_assertions([])),
        ("set_assertions optional", lambda: t2.set_assertions([t2._end <= 5])),
    ]
    for label, attempt in attempts:
        try:
            print(f"  {label}: returned {attempt()!r}")
        except Exception as exc:  # pylint: disable=broad-except
            print(f"  {label}: {type(exc).__name__} {mask(str(exc))}")
    dump_solution(pb)


@case("9 no horizon, optional tasks left free, priorities objective, debug solver")
def _():
    pb = ps.SchedulingProblem(name="c9")
    w1 = ps.Worker(name="w1")
    w2 = ps.Worker(name="w2")
    tasks = [
        ps.FixedDurationTask(name=f"f{i}", duration=i + 1, optional=(i % 2 == 0), priority=i)
        for i in range(4)
    ]
    v = ps.VariableDurationTask(name="v", optional=True, min_duration=0, max_duration=2)
    for t in tasks:
        t.add_required_resource(
            ps.SelectWorkers(list_of_workers=[w1, w2], nb_workers_to_select=1)
        )
    v.add_required_resource(w1, dynamic=True)
    ps.ForceScheduleNOptionalTasks(list_of_optional_tasks=[tasks[0], tasks[2], v], nb_tasks_to_schedule=2)
    ps.ObjectiveMinimizeMakespan()
    dump_solution(pb)


@case("11 under-determined mix (no objective): cumulative + select + dynamic + optional")
def _():
    pb = ps.SchedulingProblem(name="c11")
    cw = ps.CumulativeWorker(name="cw", size=2)
    w1 = ps.Worker(name="w1")
    w2 = ps.Worker(name="w2")
    ts = []
    for i in range(6):
        if i % 3 == 0:
            t = ps.VariableDurationTask(
                name=f"v{i}", optional=(i % 2 == 0), min_duration=i % 2, max_duration=3
            )
        elif i % 3 == 1:
            t = ps.FixedDurationTask(name=f"f{i}", duration=i, optional=(i % 2 == 0))
        else:
            t = ps.ZeroDurationTask(name=f"z{i}", optional=(i % 2 == 0))
        ts.append(t)
    ts[0].add_required_resource(cw)
    ts[0].add_required_resource(w1, dynamic=True)
    ts[1].add_required_resource(cw)
    ts[1].add_required_resource(w2, delay_in=0, early_out=1)
    ts[2].add_required_resource(w1)
    ts[3].add_required_resource(
        ps.SelectWorkers(list_of_workers=[w1, w2], nb_workers_to_select=1, kind="max")
    )
    ts[4].add_required_resource(cw)
    ts[4].add_required_resource(w1, delay_in=2)
    ts[5].add_required_resource(w2, dynamic=True)
    dump_solution(pb)


@case("10 task created without an active problem")
def _():
    ps.FixedDurationTask(name="orphan", duration=1)


if __name__ == "__main__":
    for run in CASES:
        run()
