"""Equivalence driver for the refactoring of ResourcePeriodicallyInterrupted.

Run from the worktree root:  cd /tmp/t5_C04 && /venv/bin/python _twin/equiv.py
Prints, for each small problem, the assertions carried by the constraint (in
the order they were registered, as s-expressions), the sorted assertions of the
solver, and the solution (or the error raised).
"""
import contextlib
import io
import os
import re
import sys

sys.path.insert(0, os.getcwd())

import z3  # noqa: E402
import processscheduler as ps  # noqa: E402

assert ps.__file__.startswith(os.getcwd()), ps.__file__

z3.set_option(max_args=100000, max_lines=100000, max_depth=100000, max_visited=1000000)


def mask(txt):
    # uids are long runs of digits
    return re.sub(r"\d{8,}", "<UID>", txt)


def describe(title, build, solve=True):
    print("=" * 70)
    print(title)
    pb = ps.SchedulingProblem(name="pb", horizon=40)
    try:
        constraint = build(pb)
    except Exception as exc:  # pylint: disable=broad-except
        print("  ERROR", type(exc).__name__, mask(str(exc)).splitlines()[0])
        # whatever was registered in the problem before the error
        for c in pb.constraints.values():
            print("  partial constraint", c.type, len(c.get_z3_assertions()))
            for a in c.get_z3_assertions():
                print("    ", mask(a.sexpr()))
        return
    print("  nb assertions:", len(constraint.get_z3_assertions()))
    for a in constraint.get_z3_assertions():
        print("  A", mask(a.sexpr()))
    if not solve:
        return
    ps.ObjectiveMinimizeMakespan()
    solver = ps.SchedulingSolver(problem=pb, random_values=False)
    with contextlib.redirect_stdout(io.StringIO()):  # the trace shows timings
        solution = solver.solve()
    for line in sorted(mask(str(a)) for a in solver._solver.assertions()):
        print("  S", line)
    if not solution:
        print("  NO SOLUTION")
        return
    makespan = max(t.end for t in solution.tasks.values())
    print("  horizon", solution.horizon, "indicators", sorted(solution.indicators.items()))
    print("  optimal makespan", makespan)
    # Several schedules may reach the optimal makespan and the one z3 happens to
    # return depends on its internal state (ids of the expressions), so a canonical one is computed from
    # the assertions of the solver: lexicographic minimum of, in task name
    # order, (scheduled, start, end).
    opt = z3.Optimize()
    opt.set(priority="lex")
    opt.add(solver._solver.assertions())
    opt.add(pb._horizon == solution.horizon)
    opt.add([t._end <= makespan for t in pb.tasks.values()])
    keys = []
    for name in sorted(pb.tasks):
        t = pb.tasks[name]
        for label, expr in (
            ("scheduled", z3.If(t._scheduled, 1, 0)),
            ("start", z3.If(t._scheduled, t._start, 0)),
            ("end", z3.If(t._scheduled, t._end, 0)),
        ):
            keys.append((name, label, expr))
            opt.minimize(expr)
    print("  canonical", opt.check())
    model = opt.model()
    for name, label, expr in keys:
        print("  task", name, label, model.eval(expr, model_completion=True))


# 1. two fixed duration tasks, defaults for start / offset / end
def case_fixed(pb):
    t1 = ps.FixedDurationTask(name="t1", duration=2)
    t2 = ps.FixedDurationTask(name="t2", duration=4)
    w = ps.Worker(name="w")
    t1.add_required_resource(w)
    t2.add_required_resource(w)
    return ps.ResourcePeriodicallyInterrupted(
        name="rpi", resource=w, list_of_time_intervals=[(1, 2), (4, 5)], period=10
    )


# 2. variable duration tasks, with / without max_duration, plus a fixed one
def case_variable(pb):
    t1 = ps.VariableDurationTask(name="t1", min_duration=3)
    t2 = ps.VariableDurationTask(name="t2", min_duration=0, max_duration=6)
    t3 = ps.FixedDurationTask(name="t3", duration=4)
    ps.TaskStartAt(name="pin", task=t1, value=0)
    w = ps.Worker(name="w")
    for t in (t1, t2, t3):
        t.add_required_resource(w)
    return ps.ResourcePeriodicallyInterrupted(
        name="rpi", resource=w, list_of_time_intervals=[(1, 2), (4, 5)], period=10
    )


# 3. activity window: start > 0, end given, offset
def case_window(pb):
    t1 = ps.FixedDurationTask(name="t1", duration=3)
    t2 = ps.VariableDurationTask(name="t2", min_duration=2, max_duration=9)
    w = ps.Worker(name="w")
    t1.add_required_resource(w)
    t2.add_required_resource(w)
    return ps.ResourcePeriodicallyInterrupted(
        name="rpi",
        resource=w,
        list_of_time_intervals=[(0, 1), (3, 5)],
        period=5,
        start=4,
        offset=2,
        end=20,
    )


# 4. only start > 0
def case_start_only(pb):
    t1 = ps.FixedDurationTask(name="t1", duration=3)
    w = ps.Worker(name="w")
    t1.add_required_resource(w)
    return ps.ResourcePeriodicallyInterrupted(
        name="rpi", resource=w, list_of_time_intervals=[(2, 4)], period=6, start=1
    )


# 5. only end, equal to 0, negative offset, start = 0
def case_end_zero(pb):
    t1 = ps.FixedDurationTask(name="t1", duration=3)
    t2 = ps.FixedDurationTask(name="t2", duration=1)
    w = ps.Worker(name="w")
    t1.add_required_resource(w)
    t2.add_required_resource(w)
    return ps.ResourcePeriodicallyInterrupted(
        name="rpi",
        resource=w,
        list_of_time_intervals=[(2, 4)],
        period=6,
        start=0,
        offset=-1,
        end=0,
    )


# 6. optional constraint, optional variable duration task
def case_optional(pb):
    t1 = ps.VariableDurationTask(name="t1", min_duration=2, max_duration=8, optional=True)
    t2 = ps.VariableDurationTask(name="t2", min_duration=1, optional=True)
    t3 = ps.FixedDurationTask(name="t3", duration=2, optional=True)
    ps.ForceScheduleNOptionalTasks(
        name="force", list_of_optional_tasks=[t1, t2, t3], nb_tasks_to_schedule=2
    )
    w = ps.Worker(name="w")
    for t in (t1, t2, t3):
        t.add_required_resource(w)
    return ps.ResourcePeriodicallyInterrupted(
        name="rpi",
        resource=w,
        list_of_time_intervals=[(0, 2), (3, 4)],
        period=4,
        optional=True,
        start=2,
    )


# 7. cumulative worker
def case_cumulative(pb):
    t1 = ps.FixedDurationTask(name="t1", duration=2)
    t2 = ps.VariableDurationTask(name="t2", min_duration=3)
    t3 = ps.FixedDurationTask(name="t3", duration=5)
    cw = ps.CumulativeWorker(name="cw", size=2)
    for t in (t1, t2, t3):
        t.add_required_resource(cw)
    return ps.ResourcePeriodicallyInterrupted(
        name="rpi", resource=cw, list_of_time_intervals=[(1, 3)], period=8, end=30
    )


# 8. empty list of intervals, fixed and variable duration tasks
def case_empty_intervals(pb):
    t1 = ps.FixedDurationTask(name="t1", duration=2)
    t2 = ps.VariableDurationTask(name="t2", min_duration=1, max_duration=3)
    w = ps.Worker(name="w")
    t1.add_required_resource(w)
    t2.add_required_resource(w)
    return ps.ResourcePeriodicallyInterrupted(
        name="rpi", resource=w, list_of_time_intervals=[], period=3, start=1
    )


# 9. edge intervals: empty interval (0, 0), interval equal to the whole period
def case_edge_intervals(pb):
    t1 = ps.ZeroDurationTask(name="t0")
    t2 = ps.FixedDurationTask(name="t2", duration=1)
    w = ps.Worker(name="w")
    t1.add_required_resource(w)
    t2.add_required_resource(w)
    return ps.ResourcePeriodicallyInterrupted(
        name="rpi", resource=w, list_of_time_intervals=[(0, 0), (3, 3), (4, 6)], period=6
    )


# 10. selected workers: the worker may or may not be chosen
def case_select(pb):
    t1 = ps.FixedDurationTask(name="t1", duration=2)
    t2 = ps.VariableDurationTask(name="t2", min_duration=2)
    w1 = ps.Worker(name="w1")
    w2 = ps.Worker(name="w2")
    t1.add_required_resource(ps.SelectWorkers(list_of_workers=[w1, w2], nb_workers_to_select=1))
    t2.add_required_resource(w1)
    ps.ResourcePeriodicallyInterrupted(
        name="rpi2", resource=w2, list_of_time_intervals=[(0, 2)], period=4
    )
    return ps.ResourcePeriodicallyInterrupted(
        name="rpi", resource=w1, list_of_time_intervals=[(1, 2)], period=3, offset=1
    )


# errors
def err_interval_exceeds(pb):
    t1 = ps.FixedDurationTask(name="t1", duration=3)
    w = ps.Worker(name="w")
    t1.add_required_resource(w)
    return ps.ResourcePeriodicallyInterrupted(
        name="rpi", resource=w, list_of_time_intervals=[(1, 2), (3, 5)], period=4
    )


def err_interval_exceeds_unassigned(pb):
    w = ps.Worker(name="w")
    return ps.ResourcePeriodicallyInterrupted(
        name="rpi", resource=w, list_of_time_intervals=[(1, 2), (3, 5)], period=4
    )


def err_unassigned(pb):
    w = ps.Worker(name="w")
    return ps.ResourcePeriodicallyInterrupted(
        name="rpi", resource=w, list_of_time_intervals=[(1, 3)], period=6
    )


def err_unassigned_start(pb):
    w = ps.Worker(name="w")
    return ps.ResourcePeriodicallyInterrupted(
        name="rpi", resource=w, list_of_time_intervals=[(1, 3)], period=6, start=2
    )


def err_unassigned_end(pb):
    w = ps.Worker(name="w")
    return ps.ResourcePeriodicallyInterrupted(
        name="rpi", resource=w, list_of_time_intervals=[(1, 3)], period=6, end=9
    )


def err_unassigned_cumulative(pb):
    cw = ps.CumulativeWorker(name="cw", size=2)
    return ps.ResourcePeriodicallyInterrupted(
        name="rpi", resource=cw, list_of_time_intervals=[(1, 3)], period=6
    )


def err_wrong_resource(pb):
    w1 = ps.Worker(name="w1")
    w2 = ps.Worker(name="w2")
    sw = ps.SelectWorkers(list_of_workers=[w1, w2], nb_workers_to_select=1)
    return ps.ResourcePeriodicallyInterrupted(
        name="rpi", resource=sw, list_of_time_intervals=[(1, 3)], period=6
    )


def err_missing_period(pb):
    t1 = ps.FixedDurationTask(name="t1", duration=3)
    w = ps.Worker(name="w")
    t1.add_required_resource(w)
    return ps.ResourcePeriodicallyInterrupted(
        name="rpi", resource=w, list_of_time_intervals=[(1, 3)]
    )


def zero_period(pb):
    t1 = ps.FixedDurationTask(name="t1", duration=3)
    w = ps.Worker(name="w")
    t1.add_required_resource(w)
    return ps.ResourcePeriodicallyInterrupted(
        name="rpi", resource=w, list_of_time_intervals=[(0, 0)], period=0
    )


describe("01 fixed duration", case_fixed)
describe("02 variable duration", case_variable)
describe("03 window start/offset/end", case_window)
describe("04 start only", case_start_only)
describe("05 end=0, negative offset", case_end_zero)
describe("06 optional constraint and tasks", case_optional)
describe("07 cumulative worker", case_cumulative)
describe("08 empty list of intervals", case_empty_intervals)
describe("09 edge intervals", case_edge_intervals)
describe("10 select workers", case_select)
describe("11 error: interval exceeds period", err_interval_exceeds)
describe("12 error: interval exceeds period, unassigned", err_interval_exceeds_unassigned)
describe("13 error: unassigned", err_unassigned)
describe("14 error: unassigned, start > 0", err_unassigned_start)
describe("15 error: unassigned, end", err_unassigned_end)
describe("16 error: unassigned cumulative", err_unassigned_cumulative)
describe("17 error: wrong resource type", err_wrong_resource)
describe("18 error: missing period", err_missing_period)
describe("19 zero period (assertions only)", zero_period, solve=False)
