"""Equivalence script for the C11 twin: exercises SchedulingSolver.build_solution
on varied small problems and prints a canonical description of each outcome."""
import contextlib
import io
import os
import sys

sys.path.insert(0, os.getcwd())

import re
from datetime import datetime, timedelta

import z3
import processscheduler as ps

assert ps.__file__.startswith(os.getcwd()), ps.__file__

UUID = re.compile(r"[0-9a-f]{8}(-?[0-9a-f]{4}){3}-?[0-9a-f]{12}|[0-9a-f]{32}")


RANDOM_INT = re.compile(r"(?<=_)\d{6,}\b")


def mask(s):
    """mask the random parts of names (uuid4 as decimal integer or as hex)"""
    return UUID.sub("<uuid>", RANDOM_INT.sub("<id>", s))


def describe(solution):
    if not solution:
        print("  no solution:", repr(solution))
        return
    print("  horizon", solution.horizon)
    for name, t in solution.tasks.items():
        print(
            "  task",
            mask(name),
            t.type,
            t.start,
            t.end,
            t.duration,
            "opt" if t.optional else "mand",
            "sched" if t.scheduled else "unsched",
            [mask(r) for r in t.assigned_resources],
            t.start_time,
            t.end_time,
            t.duration_time,
            t.release_date,
            t.due_date,
            t.due_date_is_deadline,
            t.work_amount,
            t.priority,
        )
    for name, r in solution.resources.items():
        print("  resource", mask(name), mask(r.name), r.type, list(r.assignments))
    for name, b in solution.buffers.items():
        print("  buffer", mask(name), b.level, b.level_change_times)
    print("  indicators", {mask(k): v for k, v in solution.indicators.items()})
    print("  scheduled", sorted(mask(k) for k in solution.get_scheduled_tasks()))


def run(title, build):
    print("==", title)
    try:
        problem = build()
        solver = ps.SchedulingSolver(problem=problem)
        # the solver prints progress and timings: keep them out of the output
        with contextlib.redirect_stdout(io.StringIO()):
            solution = solver.solve()
        describe(solution)
        print("  assertions")
        for a in sorted(mask(str(a)) for a in solver._solver.assertions()):
            print("   ", " ".join(a.split()))
    except Exception as exc:  # canonical description of the error
        print("  error", type(exc).__name__, mask(str(exc))[:300])


def p1():
    pb = ps.SchedulingProblem(name="P1", horizon=10)
    t1 = ps.FixedDurationTask(name="T1", duration=3)
    t2 = ps.FixedDurationTask(name="T2", duration=2, priority=4, work_amount=0)
    w = ps.Worker(name="W")
    t1.add_required_resource(w)
    t2.add_required_resource(w)
    ps.TaskStartAt(task=t1, value=0)
    ps.TaskStartAt(task=t2, value=5)
    return pb


def p2():
    # cumulative worker, no fixed horizon, three tasks
    pb = ps.SchedulingProblem(name="P2")
    ts = [ps.FixedDurationTask(name=f"T{i}", duration=2) for i in range(3)]
    m = ps.CumulativeWorker(name="Machine", size=2)
    for t in ts:
        t.add_required_resource(m)
    ps.TaskStartAt(task=ts[0], value=0)
    ps.TaskStartAt(task=ts[1], value=1)
    ps.TaskStartAt(task=ts[2], value=2)
    ps.ObjectiveMinimizeMakespan()
    return pb


def p3():
    # optional tasks, one forced unscheduled, with resources
    pb = ps.SchedulingProblem(name="P3", horizon=6)
    t1 = ps.FixedDurationTask(name="T1", duration=3, optional=True)
    t2 = ps.FixedDurationTask(name="T2", duration=4, optional=True)
    t3 = ps.VariableDurationTask(name="T3", optional=True, max_duration=3)
    w = ps.Worker(name="W")
    c = ps.CumulativeWorker(name="C", size=3)
    for t in (t1, t2, t3):
        t.add_required_resource(w)
        t.add_required_resource(c)
    ps.TaskStartAt(task=t1, value=1)
    ps.TaskStartAt(task=t3, value=4)
    ps.ForceScheduleNOptionalTasks(list_of_optional_tasks=[t1], nb_tasks_to_schedule=1)
    # T2 (duration 4) cannot fit beside T1 on W within the horizon: it is unscheduled
    ps.ForceScheduleNOptionalTasks(
        list_of_optional_tasks=[t2, t3], nb_tasks_to_schedule=1
    )
    return pb


def p4():
    # calendar times with a start time
    pb = ps.SchedulingProblem(
        name="P4",
        horizon=8,
        delta_time=timedelta(minutes=15),
        start_time=datetime(2024, 1, 2, 8, 30),
    )
    t1 = ps.FixedDurationTask(name="T1", duration=3, release_date=1, due_date=8)
    t2 = ps.ZeroDurationTask(name="Z")
    t3 = ps.VariableDurationTask(name="V", min_duration=2, max_duration=2)
    w = ps.Worker(name="W")
    t1.add_required_resource(w)
    t3.add_required_resource(w)
    ps.TaskStartAt(task=t1, value=2)
    ps.TaskStartAt(task=t2, value=0)
    ps.TaskEndAt(task=t3, value=8)
    return pb


def p5():
    # calendar times without a start time, optional task not scheduled
    pb = ps.SchedulingProblem(name="P5", horizon=5, delta_time=timedelta(hours=2))
    t1 = ps.ZeroDurationTask(name="T1")
    t2 = ps.FixedDurationTask(name="T2", duration=5, optional=True)
    t3 = ps.FixedDurationTask(name="T3", duration=1)
    w = ps.Worker(name="W")
    t2.add_required_resource(w)
    t3.add_required_resource(w)
    ps.TaskStartAt(task=t1, value=0)
    ps.TaskStartAt(task=t3, value=0)
    # starting at 3 with duration 5 exceeds the horizon: T2 is unscheduled
    ps.TaskStartAt(task=t2, value=3)
    return pb


def p6():
    # select workers mixing cumulative and plain workers
    pb = ps.SchedulingProblem(name="P6", horizon=2)
    t1 = ps.FixedDurationTask(name="T1", duration=2)
    t2 = ps.FixedDurationTask(name="T2", duration=2)
    r1 = ps.CumulativeWorker(name="Machine1", size=2)
    r2 = ps.CumulativeWorker(name="Machine2", size=2)
    r3 = ps.Worker(name="Machine3")
    t1.add_required_resource(
        ps.SelectWorkers(list_of_workers=[r1, r2], nb_workers_to_select=1)
    )
    t2.add_required_resource(
        ps.SelectWorkers(list_of_workers=[r1, r3], nb_workers_to_select=2)
    )
    return pb


def p7():
    # select workers among plain workers, and an unused worker, indicators
    pb = ps.SchedulingProblem(name="P7", horizon=6)
    t1 = ps.FixedDurationTask(name="T1", duration=2)
    t2 = ps.FixedDurationTask(name="T2", duration=3)
    a = ps.Worker(name="A")
    b = ps.Worker(name="B")
    ps.Worker(name="Idle")
    t1.add_required_resource(
        ps.SelectWorkers(list_of_workers=[a, b], nb_workers_to_select=1, kind="exact")
    )
    t2.add_required_resources([a, b])
    ps.TaskStartAt(task=t1, value=0)
    ps.TaskStartAt(task=t2, value=2)
    ps.IndicatorResourceUtilization(resource=a)
    return pb


def p8():
    # dynamic resource and a buffer
    pb = ps.SchedulingProblem(name="P8", horizon=10)
    t1 = ps.FixedDurationTask(name="T1", duration=4)
    t2 = ps.FixedDurationTask(name="T2", duration=3)
    w1 = ps.Worker(name="W1")
    w2 = ps.Worker(name="W2")
    t1.add_required_resource(w1)
    t1.add_required_resource(w2, dynamic=True)
    t2.add_required_resource(w2)
    ps.TaskStartAt(task=t1, value=0)
    ps.TaskStartAt(task=t2, value=0)
    buf = ps.NonConcurrentBuffer(name="Buf", initial_level=10)
    ps.TaskUnloadBuffer(task=t1, buffer=buf, quantity=3)
    ps.TaskLoadBuffer(task=t2, buffer=buf, quantity=2)
    return pb


def p9():
    # unsatisfiable: solve returns False before build_solution
    pb = ps.SchedulingProblem(name="P9", horizon=2)
    t1 = ps.FixedDurationTask(name="T1", duration=3)
    t1.add_required_resource(ps.Worker(name="W"))
    return pb


def p10():
    # cumulative worker required twice through two tasks and optional task
    pb = ps.SchedulingProblem(name="P10", horizon=4)
    t1 = ps.FixedDurationTask(name="T1", duration=2)
    t2 = ps.FixedDurationTask(name="T2", duration=2, optional=True)
    c = ps.CumulativeWorker(name="C", size=2)
    t1.add_required_resource(c)
    t2.add_required_resource(c)
    ps.TaskStartAt(task=t1, value=0)
    ps.OptionalTaskConditionSchedule(task=t2, condition=t1._start == 0)
    ps.TaskStartAt(task=t2, value=1)
    return pb


class FakeModel:
    """Stands for a z3 model: values chosen by variable name, default 0."""

    def __init__(self, values):
        self.values = values

    def __getitem__(self, var):
        name = str(var)
        if name in self.values:
            v = self.values[name]
        else:
            v = 0
        if isinstance(v, bool):
            return z3.BoolVal(v)
        return z3.IntVal(v)


def fake(title, build, values):
    """Call build_solution directly with hand-made model values, including
    edge combinations a real model rarely yields (start >= 0 and end < 0, ...)."""
    print("==", title)
    try:
        problem = build()
        solver = ps.SchedulingSolver(problem=problem)
        with contextlib.redirect_stdout(io.StringIO()):
            solver.initialize()
        describe(solver.build_solution(FakeModel(values)))
    except Exception as exc:
        print("  error", type(exc).__name__, mask(str(exc))[:300])


for i, p in enumerate([p1, p2, p3, p4, p5, p6, p7, p8, p9, p10], 1):
    run(f"problem {i}", p)

fake("fake 1: all zeros", p3, {})
fake(
    "fake 2: worker start>=0 end<0, cumulative partly in the past",
    p3,
    {
        "W_busy_T1_start": 2,
        "W_busy_T1_end": -1,
        "W_busy_T2_start": -1,
        "W_busy_T2_end": 4,
        "C_CumulativeWorker_1_maybe_busy_T1_start": -1,
        "C_CumulativeWorker_1_maybe_busy_T1_end": -1,
        "C_CumulativeWorker_2_maybe_busy_T1_start": 1,
        "C_CumulativeWorker_2_maybe_busy_T1_end": 4,
        "C_CumulativeWorker_3_maybe_busy_T1_start": 1,
        "C_CumulativeWorker_3_maybe_busy_T1_end": 4,
        "C_CumulativeWorker_1_maybe_busy_T2_start": -2,
        "C_CumulativeWorker_2_maybe_busy_T2_start": -2,
        "C_CumulativeWorker_3_maybe_busy_T2_start": -2,
        "T1_scheduled": True,
        "T2_scheduled": False,
        "T3_scheduled": True,
        "T1_start": 1,
        "T1_end": 4,
        "T3_duration": 2,
    },
)
fake(
    "fake 3: select workers, negative everywhere",
    p6,
    {
        name: -3
        for name in [
            "Machine1_CumulativeWorker_1_maybe_busy_T1_start",
            "Machine1_CumulativeWorker_2_maybe_busy_T1_start",
            "Machine2_CumulativeWorker_1_maybe_busy_T1_start",
            "Machine2_CumulativeWorker_2_maybe_busy_T1_start",
            "Machine3_maybe_busy_T2_start",
            "Machine3_maybe_busy_T2_end",
        ]
    },
)
fake("fake 4: calendar times with zeros", p4, {"T1_start": 0, "V_duration": 0})
