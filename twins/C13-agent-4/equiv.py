"""Equivalence script for the C13 refactoring (check_sat, _solve_optimize_incremental,
export_to_smt2 of SchedulingSolver).

Run from the worktree:  cd /tmp/t5_C13 && /venv/bin/python _twin/equiv.py
Prints, for a series of small problems and call sequences, a canonical description
of every outcome: solution values, sorted solver assertions, everything printed by the
library (times masked), warnings, errors, exported smt2 text.
"""
import contextlib
import io
import os
import re
import sys
import tempfile
import warnings

sys.path.insert(0, os.getcwd())

import z3  # noqa: E402
import processscheduler as ps  # noqa: E402

assert os.path.dirname(os.path.dirname(ps.__file__)) == os.getcwd(), ps.__file__

MASKS = [
    (re.compile(r"\d+\.\d+s"), "<T>s"),
    (re.compile(r"asst_[0-9a-f]{8}"), "asst_<ID>"),
    (re.compile(r"[0-9a-f]{8}-[0-9a-f]{4}-[0-9a-f]{4}-[0-9a-f]{4}-[0-9a-f]{12}"), "<UUID>"),
]


def mask(text):
    for rx, sub in MASKS:
        text = rx.sub(sub, text)
    return text


def describe_solution(sol):
    if sol is False or sol is None:
        return repr(sol)
    parts = [f"horizon={sol.horizon}"]
    for name in sorted(sol.tasks):
        t = sol.tasks[name]
        parts.append(
            f"{name}:[{t.start},{t.end}] scheduled={t.scheduled} res={sorted(t.assigned_resources)}"
        )
    for name in sorted(sol.indicators):
        parts.append(f"ind {name}={sol.indicators[name]}")
    return "; ".join(parts)


def assertions_of(solver):
    if solver._solver is None:
        return ["<no solver>"]
    return sorted(mask(str(a)) for a in solver._solver.assertions())


def step(label, fn):
    """run fn, print its outcome, what it printed and the warnings it raised"""
    out = io.StringIO()
    with warnings.catch_warnings(record=True) as caught:
        warnings.simplefilter("always")
        try:
            with contextlib.redirect_stdout(out):
                res = fn()
            outcome = res
        except Exception as exc:  # pylint: disable=broad-except
            outcome = f"RAISED {type(exc).__name__}: {exc}"
    print(f"  [{label}]")
    if isinstance(outcome, str):
        print("    result:", mask(outcome))
    else:
        print("    result:", describe_solution(outcome))
    for line in mask(out.getvalue()).splitlines():
        print("    out|", line)
    for w in caught:
        print("    warn|", " ".join(str(w.message).split()))
    return outcome


def dump_assertions(solver, label="assertions"):
    asserts = assertions_of(solver)
    print(f"  [{label}] n={len(asserts)}")
    for a in asserts:
        print("    a|", " ".join(a.split()))


def export(solver):
    with tempfile.TemporaryDirectory() as tmp:
        fn = os.path.join(tmp, "pb.smt2")
        ret = solver.export_to_smt2(fn)
        with open(fn, encoding="utf-8") as f:
            content = f.read()
    return f"ret={ret!r} smt2=" + renumber_let_binders(" ".join(content.split()))


LET_BINDER = re.compile(r"[$?]x\d+")


def renumber_let_binders(text):
    """the smt2 printer names shared sub-terms $x<ast id> / ?x<ast id>; ast ids depend on
    the allocation history of the z3 context, not on the assertions: renumber them in order
    of first appearance so that only the structure is compared"""
    seen = {}

    def sub(m):
        name = m.group(0)
        if name not in seen:
            seen[name] = f"{name[0]}x#{len(seen)}"
        return seen[name]

    return LET_BINDER.sub(sub, text)


def header(title):
    print("=" * 70)
    print(title)


# ---------------------------------------------------------------------------
def case_1_no_objective():
    header("case 1: satisfiability only, solve twice, enumerate, solve after exhaustion")
    pb = ps.SchedulingProblem(name="C1", horizon=3)
    t1 = ps.FixedDurationTask(name="T1", duration=2)
    t2 = ps.FixedDurationTask(name="T2", duration=1)
    w = ps.Worker(name="W")
    t1.add_required_resource(w)
    t2.add_required_resource(w)
    s = ps.SchedulingSolver(problem=pb)
    step("find_another before solve", s.find_another_solution)
    step("export before solve", lambda: export(s))
    step("solve 1", s.solve)
    step("solve 2", s.solve)
    dump_assertions(s)
    n = 0
    while True:
        n += 1
        r = step(f"another {n}", s.find_another_solution)
        if not r or n > 10:
            break
    step("solve after exhaustion", s.solve)
    step("export after", lambda: export(s))


def case_2_min_makespan_incremental():
    header("case 2: incremental minimise makespan, repeated solve, another solution")
    pb = ps.SchedulingProblem(name="C2")
    t1 = ps.FixedDurationTask(name="T1", duration=2)
    t2 = ps.FixedDurationTask(name="T2", duration=3)
    t3 = ps.FixedDurationTask(name="T3", duration=1, optional=True)
    w = ps.Worker(name="W")
    for t in (t1, t2, t3):
        t.add_required_resource(w)
    ps.TaskStartAfter(task=t1, value=1)
    ps.ObjectiveMinimizeMakespan()
    s = ps.SchedulingSolver(problem=pb)
    step("solve 1", s.solve)
    dump_assertions(s, "assertions after solve 1")
    step("solve 2", s.solve)
    dump_assertions(s, "assertions after solve 2")
    step("another 1", s.find_another_solution)
    step("another 2", s.find_another_solution)
    step("another for variable", lambda: s.find_another_solution_for_variable(t2._start))
    dump_assertions(s, "assertions at end")
    step("export", lambda: export(s))


def case_3_maximize_with_bounds():
    header("case 3: incremental maximise, indicator with bounds (bound stop), many rounds")
    pb = ps.SchedulingProblem(name="C3", horizon=9)
    t1 = ps.FixedDurationTask(name="T1", duration=2)
    ind = ps.IndicatorFromMathExpression(name="StartT1", expression=t1._start, bounds=(0, 7))
    ps.ObjectiveMaximizeIndicator(name="MaxStart", target=ind)
    s = ps.SchedulingSolver(problem=pb, max_time=1000)
    step("solve 1", s.solve)
    step("solve 2", s.solve)
    step("another", s.find_another_solution)
    dump_assertions(s)

    print("  -- same, minimise, bound 0 reached --")
    pb = ps.SchedulingProblem(name="C3b", horizon=9)
    t1 = ps.FixedDurationTask(name="T1", duration=2)
    ps.TaskStartAfter(task=t1, value=0)
    ind = ps.IndicatorFromMathExpression(name="StartT1", expression=t1._start, bounds=(0, 7))
    ps.ObjectiveMinimizeIndicator(name="MinStart", target=ind)
    s = ps.SchedulingSolver(problem=pb)
    step("solve 1", s.solve)
    step("solve 2", s.solve)

    print("  -- maximise a plain z3 expression, no bounds, more than 3 rounds, finite max_time --")
    pb = ps.SchedulingProblem(name="C3c", horizon=12)
    t1 = ps.FixedDurationTask(name="T1", duration=2)
    ps.Objective(name="MaxStartRaw", target=t1._start, kind="maximize")
    s = ps.SchedulingSolver(problem=pb, max_time=1000)
    step("solve 1", s.solve)
    step("solve 2", s.solve)
    dump_assertions(s)


def case_4_multi_objective_incremental():
    header("case 4: two objectives, incremental (equivalent weighted objective)")
    pb = ps.SchedulingProblem(name="C4", horizon=8)
    t1 = ps.FixedDurationTask(name="T1", duration=2)
    t2 = ps.FixedDurationTask(name="T2", duration=2, priority=3)
    w = ps.Worker(name="W", cost=ps.ConstantFunction(value=2))
    t1.add_required_resource(w)
    t2.add_required_resource(w)
    ps.ObjectiveMinimizeMakespan(weight=2)
    ps.ObjectiveMinimizeFlowtime(weight=0)
    s = ps.SchedulingSolver(problem=pb)
    step("export first", lambda: export(s))
    step("solve 1", s.solve)
    step("solve 2", s.solve)
    step("another", s.find_another_solution)
    dump_assertions(s)


def case_5_optimize_solver():
    header("case 5: z3 Optimize, single objective; export / solve / solve / another")
    pb = ps.SchedulingProblem(name="C5", horizon=10)
    t1 = ps.FixedDurationTask(name="T1", duration=3)
    t2 = ps.VariableDurationTask(name="T2", min_duration=1, max_duration=4)
    ps.TaskPrecedence(task_before=t1, task_after=t2, offset=0)
    ps.ObjectiveMinimizeMakespan()
    s = ps.SchedulingSolver(problem=pb, optimizer="optimize")
    step("export", lambda: export(s))
    step("solve 1", s.solve)
    step("solve 2", s.solve)
    step("another", s.find_another_solution)
    step("export after", lambda: export(s))

    print("  -- pareto, two objectives: walk the front --")
    pb = ps.SchedulingProblem(name="C5b", horizon=6)
    t1 = ps.FixedDurationTask(name="T1", duration=2)
    ps.Objective(name="MaxS", target=t1._start, kind="maximize")
    ps.Objective(name="MinE", target=t1._end, kind="minimize")
    s = ps.SchedulingSolver(problem=pb, optimizer="optimize", optimize_priority="pareto")
    for i in range(8):
        r = step(f"pareto solve {i}", s.solve)
        if not r:
            break

    print("  -- weight priority, two objectives --")
    pb = ps.SchedulingProblem(name="C5c", horizon=6)
    t1 = ps.FixedDurationTask(name="T1", duration=2)
    ps.Objective(name="MaxS", target=t1._start, kind="maximize", weight=3)
    ps.Objective(name="MaxE", target=t1._end, kind="maximize", weight=1)
    s = ps.SchedulingSolver(problem=pb, optimizer="optimize", optimize_priority="weight")
    step("solve 1", s.solve)
    step("solve 2", s.solve)
    step("export", lambda: export(s))


def case_6_infeasible():
    header("case 6: infeasible problems (plain, incremental, optimize), repeated calls")
    for optimizer, with_obj in (("incremental", False), ("incremental", True), ("optimize", True)):
        print(f"  -- optimizer={optimizer} objective={with_obj} --")
        pb = ps.SchedulingProblem(name="C6", horizon=3)
        t1 = ps.FixedDurationTask(name="T1", duration=2)
        t2 = ps.FixedDurationTask(name="T2", duration=2)
        w = ps.Worker(name="W")
        t1.add_required_resource(w)
        t2.add_required_resource(w)
        if with_obj:
            ps.ObjectiveMinimizeMakespan()
        s = ps.SchedulingSolver(problem=pb, optimizer=optimizer)
        step("solve 1", s.solve)
        step("solve 2", s.solve)
        step("another", s.find_another_solution)
        dump_assertions(s)


def case_7_max_iter():
    header("case 7: incremental with max_iter 0 / 1 / 2 (warning path), solve again")
    for max_iter in (0, 1, 2):
        print(f"  -- max_iter={max_iter} --")
        pb = ps.SchedulingProblem(name="C7", horizon=10)
        t1 = ps.FixedDurationTask(name="T1", duration=2)
        t2 = ps.ZeroDurationTask(name="Z")
        ps.TaskStartAfter(task=t1, value=3)
        ps.TaskPrecedence(task_before=t1, task_after=t2)
        ps.ObjectiveMinimizeMakespan()
        s = ps.SchedulingSolver(problem=pb, max_iter=max_iter)
        step("solve 1", s.solve)
        step("solve 2", s.solve)
        step("another", s.find_another_solution)
        dump_assertions(s)


def case_8_unknown():
    header("case 8: unknown outcome reported by check_sat (stub z3 solver)")

    class Unknown:
        """wraps the real solver, check() answers unknown"""

        def __init__(self, real):
            self._real = real

        def check(self):
            return z3.unknown

        def reason_unknown(self):
            return "stubbed reason"

        def __getattr__(self, name):
            return getattr(self._real, name)

    for with_obj in (False, True):
        print(f"  -- objective={with_obj} --")
        pb = ps.SchedulingProblem(name="C8", horizon=5)
        ps.FixedDurationTask(name="T1", duration=2)
        if with_obj:
            ps.ObjectiveMinimizeMakespan()
        s = ps.SchedulingSolver(problem=pb)
        s.initialize()
        real = s._solver
        step("solve (real)", s.solve)
        s._solver = Unknown(real)
        step("solve (unknown)", s.solve)
        step("check_sat(True) unknown", lambda: str(s.check_sat(True)[0]))
        s._solver = real
        step("solve (real again)", s.solve)
        step("check_sat()", lambda: str(s.check_sat()[0]))
        step("check_sat(None)", lambda: str(s.check_sat(None)[0]))
        dump_assertions(s)


def case_9_buffers_and_priorities():
    header("case 9: buffer + priorities objective, incremental, mixed calls")
    pb = ps.SchedulingProblem(name="C9", horizon=8)
    t1 = ps.FixedDurationTask(name="T1", duration=2, priority=1)
    t2 = ps.FixedDurationTask(name="T2", duration=2, priority=5)
    buf = ps.NonConcurrentBuffer(name="B", initial_level=0, lower_bound=0)
    ps.TaskLoadBuffer(task=t1, buffer=buf, quantity=1)
    ps.TaskUnloadBuffer(task=t2, buffer=buf, quantity=1)
    ps.ObjectivePriorities()
    s = ps.SchedulingSolver(problem=pb)
    step("solve 1", s.solve)
    step("export", lambda: export(s))
    step("solve 2", s.solve)
    step("another", s.find_another_solution)
    step("another for variable", lambda: s.find_another_solution_for_variable(t1._start))
    dump_assertions(s)


def case_10_debug():
    header("case 10: debug mode (tracked assertions), incremental + infeasible")
    pb = ps.SchedulingProblem(name="C10", horizon=6)
    t1 = ps.FixedDurationTask(name="T1", duration=2)
    ps.TaskStartAfter(task=t1, value=1)
    ps.ObjectiveMinimizeMakespan()
    s = ps.SchedulingSolver(problem=pb, debug=True)

    def solve_no_stats():
        # statistics / verbose output are timing dependent: only keep result and assertions
        with contextlib.redirect_stdout(io.StringIO()):
            return s.solve()

    print("    result:", describe_solution(solve_no_stats()))
    print("    result:", describe_solution(solve_no_stats()))
    dump_assertions(s)
    z3.set_option("verbose", 0)
    z3.set_option(unsat_core=False)


if __name__ == "__main__":
    case_1_no_objective()
    case_2_min_makespan_incremental()
    case_3_maximize_with_bounds()
    case_4_multi_objective_incremental()
    case_5_optimize_solver()
    case_6_infeasible()
    case_7_max_iter()
    case_8_unknown()
    case_9_buffers_and_priorities()
    case_10_debug()
    print("DONE")
