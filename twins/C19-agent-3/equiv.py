"""Equivalence script for the C19 twin (infeasibility diagnosis in debug mode).

Prints a canonical description of the outcome of several small problems that go
through first_order_logic._get_assertions / _constraints_to_list_of_assertions
and constraint.ForceApplyNOptionalConstraints, solved with debug on and off.
"""
import contextlib
import io
import os
import re
import sys

sys.path.insert(0, os.getcwd())

import z3  # noqa: E402
import processscheduler as ps  # noqa: E402

assert ps.__file__.startswith(os.getcwd()), ps.__file__

# The library draws random uuids for object uids (base.py) and, in debug mode,
# for the names of the tracked assertions (solver.py).  Those names influence
# z3's internal ordering, hence which unsat core / which model comes out, so
# two runs of the SAME code differ.  Replace the uuid source by a seeded one,
# reset before each case, to make the two code versions comparable run to run.
import random  # noqa: E402
import uuid as _uuid_module  # noqa: E402
import processscheduler.base as _ps_base  # noqa: E402
import processscheduler.solver as _ps_solver  # noqa: E402

_rng = random.Random(0)


def _seeded_uuid4():
    return _uuid_module.UUID(int=_rng.getrandbits(128), version=4)


_ps_base.uuid4 = _seeded_uuid4
assert _ps_solver.uuid is _uuid_module
_uuid_module.uuid4 = _seeded_uuid4


def mask(text):
    text = re.sub(r"asst_[0-9a-f]{8}", "asst_X", text)
    text = re.sub(r"constraint_\d+_applied", "constraint_UID_applied", text)
    text = re.sub(r"_\d{8}\b", "_UID8", text)
    text = re.sub(r"\d+\.\d+s", "T", text)
    return text


def describe_solution(solution):
    if not solution:
        return "NO SOLUTION"
    out = []
    for name in sorted(solution.tasks):
        t = solution.tasks[name]
        out.append(
            f"{name}:{t.start}-{t.end}:sched={t.scheduled}:res={sorted(t.assigned_resources)}"
        )
    out.append(f"horizon={solution.horizon}")
    out.append(f"indicators={sorted(solution.indicators.items())}")
    for name in sorted(solution.buffers):
        b = solution.buffers[name]
        out.append(f"buffer {name}: {b.level} {b.level_change_times}")
    return "; ".join(out)


def run(label, build):
    print("=" * 70)
    print("CASE", label)
    for debug in (False, True):
        print(f"--- debug={debug}")
        _rng.seed(20240919)
        try:
            problem = build()
        except Exception as exc:  # construction error
            print("BUILD ERROR", type(exc).__name__, mask(str(exc))[:400])
            continue
        # the constraints and their own assertions
        for cname in sorted(problem.constraints):
            c = problem.constraints[cname]
            print(
                f"constraint {mask(cname)} from_assertion={c._created_from_assertion} "
                f"optional={c.optional} assts={mask(str(c.get_z3_assertions()))}"
            )
        try:
            solver = ps.SchedulingSolver(problem=problem, debug=debug, max_time=30)
            captured = io.StringIO()
            with contextlib.redirect_stdout(captured):
                solution = solver.solve()
        except Exception as exc:
            print("SOLVE ERROR", type(exc).__name__, mask(str(exc))[:400])
            continue
        print("verdict:", "sat" if solution else "no solution")
        print("solution:", describe_solution(solution))
        print(
            "solver assertions:",
            sorted(mask(str(a)) for a in solver._solver.assertions()),
        )
        if debug:
            print(
                "tracked names -> constraint:",
                sorted(mask(v) for v in solver._map_boolrefs_to_constraints.values()),
            )
            if not solution:
                core = solver._solver.unsat_core()
                named = sorted(
                    mask(solver._map_boolrefs_to_constraints[str(a)])
                    for a in core
                    if str(a) in solver._map_boolrefs_to_constraints
                )
                print("unsat core size:", len(core), "named constraints:", named)
            text = captured.getvalue()
            if "Unsatisfied constraints" in text:
                tail = text[text.index("Unsatisfied constraints"):]
                print("reported:", mask(tail).replace("\n", " | "))


# ---------------------------------------------------------------- problems
def p_two_start_at():
    pb = ps.SchedulingProblem(name="TwoStartAt", horizon=10)
    t = ps.FixedDurationTask(name="t1", duration=2)
    ps.TaskStartAt(name="start0", task=t, value=0)
    ps.TaskStartAt(name="start3", task=t, value=3)
    return pb


def make_force_apply(kind, nb, conflict):
    def build():
        pb = ps.SchedulingProblem(name=f"Force_{kind}_{nb}", horizon=10)
        t = ps.FixedDurationTask(name="t1", duration=2)
        u = ps.FixedDurationTask(name="t2", duration=3)
        c1 = ps.TaskStartAt(name="c1", task=t, value=1, optional=True)
        c2 = ps.TaskStartAt(name="c2", task=t, value=4 if conflict else 1, optional=True)
        c3 = ps.TaskEndAt(name="c3", task=u, value=3, optional=True)
        ps.ForceApplyNOptionalConstraints(
            name="force",
            list_of_optional_constraints=[c1, c2, c3],
            nb_constraints_to_apply=nb,
            kind=kind,
        )
        if conflict:
            ps.TaskStartAt(name="u_start", task=u, value=5)
        return pb

    return build


def p_force_not_optional():
    pb = ps.SchedulingProblem(name="ForceNotOptional", horizon=10)
    t = ps.FixedDurationTask(name="t1", duration=2)
    c1 = ps.TaskStartAt(name="c1", task=t, value=1, optional=True)
    c2 = ps.TaskEndAt(name="c2", task=t, value=5)
    c3 = ps.TaskEndAt(name="c3", task=t, value=6)
    try:
        ps.ForceApplyNOptionalConstraints(
            name="force", list_of_optional_constraints=[c1, c2, c3]
        )
    except TypeError as exc:
        print("raised TypeError:", exc)
    print("registered:", sorted(pb.constraints))
    return pb


def p_force_zero():
    pb = ps.SchedulingProblem(name="ForceZero", horizon=10)
    t = ps.FixedDurationTask(name="t1", duration=2)
    c1 = ps.TaskStartAt(name="c1", task=t, value=1, optional=True)
    ps.ForceApplyNOptionalConstraints(
        name="force", list_of_optional_constraints=[c1], nb_constraints_to_apply=0
    )
    return pb


def p_force_empty_and_bad_kind():
    pb = ps.SchedulingProblem(name="ForceEmpty", horizon=10)
    ps.FixedDurationTask(name="t1", duration=2)
    try:
        ps.ForceApplyNOptionalConstraints(
            name="force_bad", list_of_optional_constraints=[], kind="atleast"
        )
    except Exception as exc:
        print("bad kind:", type(exc).__name__)
    for kind in ("min", "max", "exact"):
        try:
            ps.ForceApplyNOptionalConstraints(
                name=f"force_empty_{kind}", list_of_optional_constraints=[], kind=kind
            )
        except Exception as exc:
            print("empty list", kind, type(exc).__name__, exc)
    print("registered:", sorted(pb.constraints))
    return pb


def p_fol_infeasible():
    pb = ps.SchedulingProblem(name="FolInfeasible", horizon=8)
    t1 = ps.FixedDurationTask(name="t1", duration=2)
    t2 = ps.FixedDurationTask(name="t2", duration=2)
    ps.Not(name="not_start0", constraint=ps.TaskStartAt(name="s0", task=t1, value=0))
    ps.And(
        name="and_mix",
        list_of_constraints=[
            ps.TaskStartAt(name="s0_bis", task=t1, value=0),
            t2._start >= 1,
            ps.TaskPrecedence(name="prec", task_before=t1, task_after=t2),
        ],
    )
    return pb


def p_fol_feasible():
    pb = ps.SchedulingProblem(name="FolFeasible", horizon=12)
    t1 = ps.FixedDurationTask(name="t1", duration=2)
    t2 = ps.FixedDurationTask(name="t2", duration=3, optional=True)
    t3 = ps.ZeroDurationTask(name="t3")
    ps.Or(
        name="or_mix",
        list_of_constraints=[
            ps.TaskStartAt(name="a", task=t1, value=4),
            t1._start == 6,
        ],
    )
    ps.Xor(
        name="xor_mix",
        constraint_1=ps.TaskEndAt(name="b", task=t2, value=9),
        constraint_2=t3._start == 1,
    )
    ps.Implies(
        name="impl",
        condition=t2._scheduled,
        list_of_constraints=[ps.TaskStartAfter(name="c", task=t3, value=0), t3._start <= 11],
    )
    ps.IfThenElse(
        name="ite",
        condition=t1._start == 4,
        then_list_of_constraints=[ps.TaskStartAt(name="d", task=t3, value=2)],
        else_list_of_constraints=[t3._start == 7, ps.TaskEndBefore(name="e", task=t2, value=10)],
    )
    ps.Implies(name="impl_empty", condition=True, list_of_constraints=[])
    ps.And(name="and_empty", list_of_constraints=[])
    return pb


def p_fol_optional_and_nested(horizon=6):
    pb = ps.SchedulingProblem(name="FolNested", horizon=horizon)
    t1 = ps.FixedDurationTask(name="t1", duration=3)
    t2 = ps.FixedDurationTask(name="t2", duration=3)
    w = ps.Worker(name="w")
    t1.add_required_resource(w)
    t2.add_required_resource(w)
    inner = ps.Or(
        name="inner_or",
        list_of_constraints=[
            ps.TaskStartAt(name="x", task=t1, value=1),
            ps.TaskStartAt(name="y", task=t2, value=1),
        ],
    )
    ps.And(name="outer_and", list_of_constraints=[inner, t1._start >= 0])
    n = ps.Not(
        name="opt_not", constraint=ps.TaskStartAt(name="z", task=t1, value=0), optional=True
    )
    ps.ForceApplyNOptionalConstraints(
        name="force_not", list_of_optional_constraints=[n], nb_constraints_to_apply=1, kind="min"
    )
    return pb


def p_buffer_infeasible():
    pb = ps.SchedulingProblem(name="BufferInfeasible", horizon=10)
    t1 = ps.FixedDurationTask(name="t1", duration=2)
    t2 = ps.FixedDurationTask(name="t2", duration=2)
    buf = ps.NonConcurrentBuffer(name="buf", initial_level=1, lower_bound=0)
    ps.TaskUnloadBuffer(name="un1", task=t1, buffer=buf, quantity=1)
    ps.TaskUnloadBuffer(name="un2", task=t2, buffer=buf, quantity=1)
    ps.And(
        name="both_early",
        list_of_constraints=[
            ps.TaskStartAt(name="b1", task=t1, value=0),
            ps.TaskStartAt(name="b2", task=t2, value=3),
        ],
    )
    return pb


def p_bad_operand():
    pb = ps.SchedulingProblem(name="BadOperand", horizon=10)
    ps.FixedDurationTask(name="t1", duration=2)
    ps.And(name="bad", list_of_constraints=[True, 3])
    return pb


CASES = [
    ("two_start_at", p_two_start_at),
    ("force_exact_2_conflict", make_force_apply("exact", 2, True)),
    ("force_exact_3_conflict", make_force_apply("exact", 3, True)),
    ("force_min_2_conflict", make_force_apply("min", 2, True)),
    ("force_min_3_noconflict", make_force_apply("min", 3, False)),
    ("force_max_1_noconflict", make_force_apply("max", 1, False)),
    ("force_exact_1_noconflict", make_force_apply("exact", 1, False)),
    ("force_not_optional", p_force_not_optional),
    ("force_zero", p_force_zero),
    ("force_empty_and_bad_kind", p_force_empty_and_bad_kind),
    ("fol_infeasible", p_fol_infeasible),
    ("fol_feasible", p_fol_feasible),
    ("fol_optional_and_nested_h6", p_fol_optional_and_nested),
    ("fol_optional_and_nested_h7", lambda: p_fol_optional_and_nested(7)),
    ("buffer_infeasible", p_buffer_infeasible),
    ("bad_operand", p_bad_operand),
]

if __name__ == "__main__":
    for label, builder in CASES:
        run(label, builder)
