"""Equivalence harness for the C19 refactoring (Constraint / first order logic helpers).

Run from the worktree root:  cd /tmp/t5_C19 && /venv/bin/python _twin/equiv.py
Prints a canonical description of the outcome of several small problems.
"""
import contextlib
import io
import os
import re
import sys

sys.path.insert(0, os.getcwd())

import z3  # noqa: E402

import processscheduler as ps  # noqa: E402
import processscheduler.base  # noqa: E402
from processscheduler import first_order_logic as fol  # noqa: E402

assert os.path.dirname(os.path.abspath(ps.__file__)).startswith(os.getcwd())


def mask(text):
    text = re.sub(r"asst_[0-9a-f]{8}", "asst_XXXXXXXX", text)
    text = re.sub(r"constraint_\d+_applied", "constraint_UID_applied", text)
    text = re.sub(r"(Selected_\w+?)_\d{20,}", r"\1_UID", text)
    text = re.sub(r"_\d{8}\b", "_UID8", text)
    return text


def canon(exprs):
    return sorted(mask(str(e)).replace("\n", " ") for e in exprs)


def describe_constraints(problem):
    for name, c in problem.constraints.items():
        print(
            "  constraint",
            mask(name),
            type(c).__name__,
            "optional=%s" % c.optional,
            "from_asst=%s" % c._created_from_assertion,
            "applied=%s" % mask(str(c._applied)),
        )
        for a in canon(c.get_z3_assertions()):
            print("     ", a)


def run(problem, debug):
    """solve, return a canonical description"""
    solver = ps.SchedulingSolver(problem=problem, debug=debug, max_time=30)
    out = io.StringIO()
    with contextlib.redirect_stdout(out):
        solution = solver.solve()
    print("  debug=%s" % debug)
    print("   nb solver assertions:", len(solver._solver.assertions()))
    for a in canon(solver._solver.assertions()):
        print("     ", a)
    if solution:
        print("   verdict: sat")
        for tname, t in sorted(solution.tasks.items()):
            print(
                "     task", tname, t.start, t.end, t.scheduled, sorted(t.assigned_resources)
            )
        for bname, b in sorted(solution.buffers.items()):
            print("     buffer", bname, b.level, b.level_change_times)
        for iname, v in sorted(solution.indicators.items()):
            print("     indicator", iname, v)
    else:
        print("   verdict: no solution")
        if debug:
            mapping = solver._map_boolrefs_to_constraints
            print("   tracked constraint names:", sorted(set(mask(v) for v in mapping.values())))
            print("   nb tracked assertions:", len(mapping))
            core = [str(a) for a in solver._solver.unsat_core()]
            named = sorted(set(mapping[a] for a in core if a in mapping))
            print("   core constraints:", [mask(n) for n in named])
            print("   all in problem:", all(n in problem.constraints for n in named))
            # the lines the library itself reports
            printed = [
                mask(l)
                for l in out.getvalue().splitlines()
                if "Unsatisfied constraints" in l or "No solution can be found" in l
            ]
            print("   reported:", printed)
    return solution


def case(title, builder, modes=(False, True)):
    print("=" * 70)
    print("CASE", title)
    try:
        for debug in modes:
            problem = builder()
            if debug == modes[0]:
                describe_constraints(problem)
            run(problem, debug)
    except Exception as exc:  # pylint: disable=broad-except
        print("  ERROR", type(exc).__name__, mask(str(exc)))


# 1. mandatory constraints contradicting each other
def b1():
    pb = ps.SchedulingProblem(name="P1", horizon=10)
    t1 = ps.FixedDurationTask(name="T1", duration=3)
    t2 = ps.FixedDurationTask(name="T2", duration=4)
    ps.TaskStartAt(name="c_start_t1_0", task=t1, value=0)
    ps.TaskStartAt(name="c_start_t1_2", task=t1, value=2)
    ps.TaskEndBefore(name="c_end_t2", task=t2, value=9)
    ps.TaskPrecedence(name="c_prec", task_before=t1, task_after=t2, offset=0)
    return pb


# 2. optional constraints + ForceApplyNOptionalConstraints (infeasible)
def b2():
    pb = ps.SchedulingProblem(name="P2", horizon=6)
    t1 = ps.FixedDurationTask(name="T1", duration=2)
    c1 = ps.TaskStartAt(name="opt_start_1", task=t1, value=1, optional=True)
    c2 = ps.TaskStartAt(name="opt_start_3", task=t1, value=3, optional=True)
    c3 = ps.TaskEndAt(name="opt_end_6", task=t1, value=6, optional=True)
    ps.ForceApplyNOptionalConstraints(
        name="force2", list_of_optional_constraints=[c1, c2, c3], nb_constraints_to_apply=2, kind="min"
    )
    ps.TaskEndBefore(name="end_before_4", task=t1, value=4)
    return pb


# 2b. the same, feasible (exactly one applied)
def b2b():
    pb = ps.SchedulingProblem(name="P2b", horizon=6)
    t1 = ps.FixedDurationTask(name="T1", duration=2)
    c1 = ps.TaskStartAt(name="opt_start_1", task=t1, value=1, optional=True)
    c2 = ps.TaskStartAt(name="opt_start_3", task=t1, value=3, optional=True)
    ps.ForceApplyNOptionalConstraints(
        name="force1", list_of_optional_constraints=[c1, c2], nb_constraints_to_apply=1, kind="exact"
    )
    ps.TaskEndBefore(name="end_before_4", task=t1, value=4)
    return pb


# 3. first order logic, nested constraints and raw BoolRef, infeasible
def b3():
    pb = ps.SchedulingProblem(name="P3", horizon=8)
    t1 = ps.FixedDurationTask(name="T1", duration=2)
    t2 = ps.VariableDurationTask(name="T2", min_duration=0, max_duration=3)
    z = ps.ZeroDurationTask(name="Z")
    ps.Not(name="not_start0", constraint=ps.TaskStartAt(name="in_start0", task=t1, value=0))
    ps.TaskEndBefore(name="t1_end_2", task=t1, value=2)
    ps.Or(
        name="or_mix",
        list_of_constraints=[
            ps.TaskStartAt(name="in_t2_5", task=t2, value=5),
            t2._start == 6,
            ps.TaskPrecedence(name="in_prec", task_before=t1, task_after=t2, kind="strict"),
        ],
    )
    ps.And(
        name="and_mix",
        list_of_constraints=[
            ps.TaskStartAfter(name="in_z_after", task=z, value=0),
            z._start <= 8,
            ps.TaskGroup(name="in_grp", list_of_tasks=[t1, t2], time_interval=(0, 8)),
        ],
    )
    return pb


# 4. Xor / Implies / IfThenElse, optional FOL constraints, feasible
def b4():
    pb = ps.SchedulingProblem(name="P4", horizon=9)
    t1 = ps.FixedDurationTask(name="T1", duration=3, release_date=0)
    t2 = ps.FixedDurationTask(name="T2", duration=2, optional=True, due_date=9)
    ps.Xor(
        name="xor",
        constraint_1=ps.TaskStartAt(name="in_a", task=t1, value=0),
        constraint_2=t1._start == 4,
    )
    ps.Implies(
        name="impl",
        condition=t1._start == 0,
        list_of_constraints=[ps.TaskStartAt(name="in_b", task=t2, value=5), t2._scheduled == True],
    )
    ps.IfThenElse(
        name="ite",
        condition=t1._start > 2,
        then_list_of_constraints=[ps.TaskEndAt(name="in_c", task=t1, value=7)],
        else_list_of_constraints=[t1._end <= 3, ps.TaskEndBefore(name="in_d", task=t1, value=3)],
        optional=True,
    )
    ps.Or(
        name="or_opt",
        list_of_constraints=[t1._start == 1, ps.TaskStartAt(name="in_e", task=t1, value=2)],
        optional=True,
    )
    ps.Not(name="not_opt", constraint=t1._start == 7, optional=True)
    return pb


# 5. infeasible because of the basic resource rules only, optional tasks forced
def b5():
    pb = ps.SchedulingProblem(name="P5", horizon=5)
    w = ps.Worker(name="W")
    t1 = ps.FixedDurationTask(name="T1", duration=3, optional=True)
    t2 = ps.FixedDurationTask(name="T2", duration=3, optional=True)
    t1.add_required_resource(w)
    t2.add_required_resource(w)
    ps.ForceScheduleNOptionalTasks(
        name="force_both", list_of_optional_tasks=[t1, t2], nb_tasks_to_schedule=2, kind="exact"
    )
    return pb


# 6. buffer: level can never be reached
def b6():
    pb = ps.SchedulingProblem(name="P6", horizon=6)
    t1 = ps.FixedDurationTask(name="T1", duration=2)
    t2 = ps.FixedDurationTask(name="T2", duration=2)
    buf = ps.NonConcurrentBuffer(name="B", initial_level=0, lower_bound=0, final_level=3)
    ps.TaskUnloadBuffer(name="unload", task=t1, buffer=buf, quantity=2)
    ps.TaskLoadBuffer(name="load", task=t2, buffer=buf, quantity=2)
    ps.TaskStartAt(name="t1_at_0", task=t1, value=0)
    return pb


# 7. feasible problem with select workers, an indicator and an optional constraint
def b7():
    pb = ps.SchedulingProblem(name="P7", horizon=7)
    w1 = ps.Worker(name="W1")
    w2 = ps.Worker(name="W2")
    t1 = ps.FixedDurationTask(name="T1", duration=3)
    t2 = ps.FixedDurationTask(name="T2", duration=4)
    t1.add_required_resource(ps.SelectWorkers(name="SW", list_of_workers=[w1, w2]))
    t2.add_required_resource(w1)
    ps.TasksDontOverlap(name="no_overlap", task_1=t1, task_2=t2, optional=True)
    ps.TaskStartAt(name="t2_at_0", task=t2, value=0)
    # T1 at 0 as well: the only schedule left assigns W2 to T1
    ps.TaskStartAt(name="t1_at_0", task=t1, value=0)
    ps.IndicatorResourceUtilization(resource=w1)
    return pb


# 8. nested constraint that is also optional, infeasible
def b8():
    pb = ps.SchedulingProblem(name="P8", horizon=4)
    t1 = ps.FixedDurationTask(name="T1", duration=4)
    inner = ps.TaskStartAt(name="inner_opt", task=t1, value=1, optional=True)
    ps.And(name="and_inner", list_of_constraints=[inner, inner._applied])
    return pb


case("1 contradicting mandatory constraints", b1)
case("2 optional constraints forced (infeasible)", b2)
case("2b optional constraints forced (feasible)", b2b)
case("3 first order logic, infeasible", b3)
case("4 xor / implies / ite, optional fol", b4)
case("5 basic resource rules only", b5)
case("6 buffer", b6)
case("7 feasible with select workers", b7)
case("8 nested optional constraint", b8)

# ---- errors and direct calls
print("=" * 70)
print("CASE errors / direct calls")


def attempt(title, fn):
    try:
        res = fn()
        print(" ", title, "->", mask(str(res)).replace("\n", " "))
    except Exception as exc:  # pylint: disable=broad-except
        print(" ", title, "-> ERROR", type(exc).__name__, mask(str(exc)).replace("\n", " "))


pb = ps.SchedulingProblem(name="PE", horizon=5)
t = ps.FixedDurationTask(name="T", duration=1)
c = ps.TaskStartAt(name="dup", task=t, value=0)
attempt("duplicate name", lambda: ps.TaskStartAt(name="dup", task=t, value=1))
attempt("get_assertions boolref", lambda: fol._get_assertions(t._start == 1))
attempt("get_assertions constraint", lambda: (fol._get_assertions(c), c._created_from_assertion))
attempt("get_assertions bool", lambda: fol._get_assertions(True))
attempt("get_assertions int", lambda: fol._get_assertions(0))
c2 = ps.TaskEndAt(name="c2", task=t, value=3)
attempt(
    "to list mixed",
    lambda: fol._constraints_to_list_of_assertions([t._start == 1, c2, t._end <= 4]),
)
attempt("to list empty", lambda: fol._constraints_to_list_of_assertions([]))
attempt("to list with bool", lambda: fol._constraints_to_list_of_assertions([t._start == 1, False]))
c3 = ps.TaskEndAt(name="c3", task=t, value=2)
attempt(
    "to list error halfway",
    lambda: fol._constraints_to_list_of_assertions([c3, None, c]),
)
print("  c3 flagged:", c3._created_from_assertion)


class OddConstraint(ps.Constraint):
    """a constraint whose get_z3_assertions returns neither a list nor a BoolRef"""

    def get_z3_assertions(self):
        return tuple(self._z3_assertions)


odd = OddConstraint(name="odd")
odd.set_z3_assertions(t._start == 2)
attempt("to list odd", lambda: fol._constraints_to_list_of_assertions([odd, t._end == 3]))
attempt("set twice same", lambda: odd.set_z3_assertions(t._start == 2))
oc = ps.Constraint(name="generic_opt", optional=True)
attempt("optional set list", lambda: oc.set_z3_assertions([t._start == 2, t._end == 3]))
attempt("optional set expr", lambda: (oc.set_z3_assertions(t._start == 2), oc.get_z3_assertions()))
nc = ps.Constraint(name="generic")
attempt("mandatory set list", lambda: (nc.set_z3_assertions([t._start == 2, t._end == 3]), nc.get_z3_assertions()))
attempt("applied values", lambda: (oc._applied, nc._applied, oc._created_from_assertion))
attempt("Not with bool", lambda: ps.Not(name="notbool", constraint=True))
attempt("unnamed constraint", lambda: ps.ConstraintFromExpression(expression=t._start == 0).name)
print("  constraint names:", [mask(n) for n in pb.constraints])
processscheduler.base.active_problem = None
attempt("no active problem", lambda: ps.Constraint(name="orphan"))
