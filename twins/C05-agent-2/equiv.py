"""Equivalence script for the refactoring of
  * SchedulingSolver.initialize (resource no-overlap pairs, work amount assertions)
  * SelectWorkers.__init__ (flattened worker list, selection booleans, Pb function)

Run from the worktree root:  cd /tmp/t4_C05 && /venv/bin/python _twin/equiv.py
For each small problem prints a canonical description: error raised, or the
sorted list of str() of the solver assertions, a digest of the assertions in
their original order, and the solution values.
"""
import contextlib
import hashlib
import io
import itertools
import os
import sys

sys.path.insert(0, os.getcwd())

import processscheduler as ps  # noqa: E402
import processscheduler.base  # noqa: E402

assert os.path.abspath(ps.__file__).startswith(os.getcwd()), ps.__file__


# deterministic uids so that the names Selected_<name>_<uid> are reproducible
class _FakeUuid:
    def __init__(self, value):
        self.int = value
        self.hex = f"{value:032x}"


_counter = itertools.count(1)


def _fake_uuid4():
    return _FakeUuid((10_000_000 + next(_counter)) * 10**22 + 777)


processscheduler.base.uuid4 = _fake_uuid4


def describe(problem, extra=None):
    """initialize + solve quietly, print canonical description"""
    solver = ps.SchedulingSolver(problem=problem, random_values=False)
    sink = io.StringIO()
    with contextlib.redirect_stdout(sink):
        solver.initialize()
        assertions = [str(a).replace("\n", " ") for a in solver._solver.assertions()]
        solution = solver.solve()
    ordered_digest = hashlib.sha256("\n".join(assertions).encode()).hexdigest()[:16]
    print(f"  nb assertions: {len(assertions)}  ordered digest: {ordered_digest}")
    for a in sorted(assertions):
        print("   A:", " ".join(a.split()))
    if not solution:
        print("  SOLUTION: none")
    else:
        print(f"  SOLUTION: horizon={solution.horizon}")
        for name in sorted(solution.tasks):
            t = solution.tasks[name]
            print(
                f"   T: {name} start={t.start} end={t.end} dur={t.duration} "
                f"sched={t.scheduled} res={sorted(t.assigned_resources)}"
            )
        for name in sorted(solution.resources):
            r = solution.resources[name]
            print(f"   R: {name} {sorted(r.assignments)}")
    if extra is not None:
        extra()


def case(title, fn):
    print("=" * 70)
    print("CASE", title)
    try:
        fn()
    except Exception as exc:  # canonical description of the error
        print(f"  ERROR: {type(exc).__name__}: {str(exc).splitlines()[0]}")


# ---------------------------------------------------------------------------
def c01_single_worker_three_tasks_tight():
    pb = ps.SchedulingProblem(name="c01", horizon=6)
    w = ps.Worker(name="W")
    for i, d in enumerate([1, 2, 3]):
        t = ps.FixedDurationTask(name=f"T{i}", duration=d)
        t.add_required_resource(w)
    describe(pb)


def c02_single_worker_infeasible():
    pb = ps.SchedulingProblem(name="c02", horizon=5)
    w = ps.Worker(name="W")
    for i, d in enumerate([1, 2, 3]):
        t = ps.FixedDurationTask(name=f"T{i}", duration=d)
        t.add_required_resource(w)
    describe(pb)


def c03_work_amount_variable_mandatory_and_optional():
    pb = ps.SchedulingProblem(name="c03", horizon=12)
    w1 = ps.Worker(name="W1", productivity=2)
    w2 = ps.Worker(name="W2", productivity=0)
    w3 = ps.Worker(name="W3", productivity=3)
    ta = ps.VariableDurationTask(name="TA", work_amount=10)
    ta.add_required_resources([w1, w2])
    tb = ps.VariableDurationTask(name="TB", work_amount=7, optional=True)
    tb.add_required_resources([w1, w3])
    tc = ps.VariableDurationTask(name="TC", work_amount=0, max_duration=2)
    tc.add_required_resource(w3)
    ps.ForceScheduleNOptionalTasks(list_of_optional_tasks=[tb], nb_tasks_to_schedule=1)
    describe(pb)


def c04_work_amount_without_resource_and_zero_productivity():
    pb = ps.SchedulingProblem(name="c04", horizon=4)
    ps.FixedDurationTask(name="NoRes", duration=2, work_amount=50)
    w = ps.Worker(name="Lazy", productivity=0)
    t = ps.VariableDurationTask(name="Hopeless", work_amount=1)
    t.add_required_resource(w)
    describe(pb)


def c05_select_workers_all_kinds():
    pb = ps.SchedulingProblem(name="c05", horizon=6)
    ws = [ps.Worker(name=f"W{i}", productivity=i) for i in range(3)]
    for kind, nb in [("exact", 1), ("min", 2), ("max", 1), ("exact", 3), ("max", 3)]:
        t = ps.FixedDurationTask(name=f"T_{kind}_{nb}", duration=2, work_amount=2)
        sel = ps.SelectWorkers(list_of_workers=ws, nb_workers_to_select=nb, kind=kind)
        print(
            f"  sel {kind}/{nb}: _list_of_workers={[w.name for w in sel._list_of_workers]}"
            f" dict={[(w.name, str(b)) for w, b in sel._selection_dict.items()]}"
            f" asst={sel._selection_assertion}"
        )
        t.add_required_resource(sel)
    describe(pb)


def c06_select_workers_default_and_errors():
    pb = ps.SchedulingProblem(name="c06", horizon=3)
    w1 = ps.Worker(name="W1")
    w2 = ps.Worker(name="W2")
    sel = ps.SelectWorkers(list_of_workers=[w1, w2])
    print("  default:", sel.kind, sel.nb_workers_to_select, sel._selection_assertion)
    print("  serialised:", sel.model_dump())
    for kwargs in [
        dict(list_of_workers=[w1, w2], nb_workers_to_select=3),
        dict(list_of_workers=[w1, w2], nb_workers_to_select=0),
        dict(list_of_workers=[w1], nb_workers_to_select=1),
        dict(list_of_workers=[w1, w2], nb_workers_to_select=1, kind="atleast"),
        dict(list_of_workers=[w1, w2], nb_workers_to_select=2, kind="max"),
    ]:
        try:
            s = ps.SelectWorkers(**kwargs)
            print("  ok:", s._selection_assertion)
        except Exception as exc:
            print(f"  ERROR: {type(exc).__name__}: {str(exc).splitlines()[0]}")
    print("  registered select workers:", len(pb.select_workers))
    t = ps.FixedDurationTask(name="T", duration=3, optional=True)
    t.add_required_resource(sel)
    describe(pb)


def c07_cumulative_worker():
    pb = ps.SchedulingProblem(name="c07", horizon=4)
    cw = ps.CumulativeWorker(name="M", size=2, productivity=5)
    for i in range(3):
        t = ps.FixedDurationTask(name=f"T{i}", duration=2, work_amount=3 * i)
        t.add_required_resource(cw)
    describe(pb)


def c08_cumulative_inside_select_workers():
    pb = ps.SchedulingProblem(name="c08", horizon=5)
    cw = ps.CumulativeWorker(name="Cu", size=3, productivity=4)
    w = ps.Worker(name="Solo", productivity=2)
    sel = ps.SelectWorkers(list_of_workers=[w, cw, w], nb_workers_to_select=1, kind="min")
    print("  flattened:", [x.name for x in sel._list_of_workers])
    print("  dict:", [(x.name, str(b)) for x, b in sel._selection_dict.items()])
    print("  asst:", sel._selection_assertion)
    t = ps.FixedDurationTask(name="T", duration=2)
    t.add_required_resource(w)
    describe(pb)


def c09_pinned_valid_schedule_accepted():
    pb = ps.SchedulingProblem(name="c09", horizon=7)
    w1 = ps.Worker(name="W1", productivity=1)
    w2 = ps.Worker(name="W2", productivity=2)
    t1 = ps.FixedDurationTask(name="T1", duration=3, work_amount=3)
    t2 = ps.VariableDurationTask(name="T2", work_amount=4, optional=True)
    t3 = ps.ZeroDurationTask(name="T3")
    sel1 = ps.SelectWorkers(list_of_workers=[w1, w2], nb_workers_to_select=1)
    sel2 = ps.SelectWorkers(list_of_workers=[w1, w2], nb_workers_to_select=1, kind="min")
    t1.add_required_resource(sel1)
    t2.add_required_resource(sel2)
    t3.add_required_resource(w1)
    # pin a hand-made valid schedule: T1 on W1 [0,3], T2 on W2 [1,3], T3 at 7
    ps.TaskStartAt(task=t1, value=0)
    ps.TaskStartAt(task=t2, value=1)
    ps.TaskEndAt(task=t2, value=3)
    ps.TaskStartAt(task=t3, value=7)
    ps.ConstraintFromExpression(expression=sel1._selection_dict[w1] == True)
    ps.ConstraintFromExpression(expression=sel2._selection_dict[w2] == True)
    ps.ConstraintFromExpression(expression=sel2._selection_dict[w1] == False)
    ps.ConstraintFromExpression(expression=t2._scheduled == True)
    describe(pb)


def c10_debug_mode_and_no_horizon():
    pb = ps.SchedulingProblem(name="c10")
    w = ps.Worker(name="W", productivity=3)
    t1 = ps.FixedDurationTask(name="T1", duration=2, work_amount=6, optional=True)
    t2 = ps.FixedDurationTask(name="T2", duration=1)
    t1.add_required_resource(w)
    t2.add_required_resource(w, dynamic=True)
    ps.OptionalTaskForceSchedule(task=t1, to_be_scheduled=True)
    solver = ps.SchedulingSolver(problem=pb, debug=True, random_values=False)
    with contextlib.redirect_stdout(io.StringIO()):
        solver.initialize()
        assertions = [str(a) for a in solver._solver.assertions()]
        solution = solver.solve()
    import re

    # the tracking literal names are random: mask them before sorting
    masked = [re.sub(r"asst_[0-9a-f]{8}", "asst_X", " ".join(a.split())) for a in assertions]
    for a in sorted(masked):
        print("   A:", a)
    print("  SOLUTION:", bool(solution))
    if solution:
        for name in sorted(solution.tasks):
            t = solution.tasks[name]
            print(f"   T: {name} start={t.start} end={t.end} sched={t.scheduled}")


CASES = [
    c01_single_worker_three_tasks_tight,
    c02_single_worker_infeasible,
    c03_work_amount_variable_mandatory_and_optional,
    c04_work_amount_without_resource_and_zero_productivity,
    c05_select_workers_all_kinds,
    c06_select_workers_default_and_errors,
    c07_cumulative_worker,
    c08_cumulative_inside_select_workers,
    c09_pinned_valid_schedule_accepted,
    c10_debug_mode_and_no_horizon,
]

if __name__ == "__main__":
    # each case runs in a fresh interpreter: the model z3 picks among the
    # valid ones depends on the z3 ast ids, which depend on everything that
    # was created (and garbage collected) before in the same process.
    if len(sys.argv) > 1:
        fn = {f.__name__: f for f in CASES}[sys.argv[1]]
        case(fn.__name__, fn)
    else:
        import subprocess

        for fn in CASES:
            res = subprocess.run(
                [sys.executable, os.path.abspath(__file__), fn.__name__],
                stdout=subprocess.PIPE,
                stderr=subprocess.DEVNULL,
                text=True,
                cwd=os.getcwd(),
            )
            sys.stdout.write(res.stdout)
            if res.returncode != 0:
                print(f"  SUBPROCESS EXIT CODE {res.returncode}")
