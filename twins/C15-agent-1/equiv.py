"""Equivalence check for the refactoring of SchedulingSolver.__init__ and
SchedulingSolver.create_objective (C15: solver options never change validity).

For a series of small problems and solver configurations, prints a canonical
description of: the z3 global options set by the constructor, the python RNG
state after construction, the kind of z3 solver, the sorted assertions, the
objectives handed to z3.Optimize, the solver's _objective, and the outcome of
solve().
"""
import contextlib
import hashlib
import io
import os
import random
import re
import sys
import warnings

sys.path.insert(0, os.getcwd())

import z3  # noqa: E402
import processscheduler as ps  # noqa: E402

Z3_PARAMS = [
    "verbose",
    "unsat_core",
    "parallel.enable",
    "sat.threads",
    "smt.threads",
    "sat.random_seed",
    "smt.random_seed",
    "smt.arith.random_initial_value",
    "timeout",
]

UUID_RE = re.compile(r"[0-9a-f]{8}(?![0-9a-f])")


def mask(text):
    return UUID_RE.sub("<ID>", text)


def quiet(fn, *args, **kwargs):
    """run fn silently (stdout, and z3 verbose on stderr is not captured)"""
    buf = io.StringIO()
    with contextlib.redirect_stdout(buf), warnings.catch_warnings():
        warnings.simplefilter("ignore")
        return fn(*args, **kwargs)


def rng_fingerprint():
    return hashlib.md5(repr(random.getstate()).encode()).hexdigest()[:12]


# ----------------------------------------------------------------- problems
def pb_two_objectives(kinds=("maximize", "maximize"), weights=(1, 1)):
    pb = ps.SchedulingProblem(name="TwoObj", horizon=20)
    t1 = ps.FixedDurationTask(name="task1", duration=3)
    t2 = ps.FixedDurationTask(name="task2", duration=3)
    ps.ConstraintFromExpression(expression=t1._end == 20 - t2._start)
    i1 = ps.IndicatorFromMathExpression(name="Task1End", expression=t1._end)
    i2 = ps.IndicatorFromMathExpression(name="Task2End", expression=t2._end)
    ps.Objective(name="Obj1", target=i1, kind=kinds[0], weight=weights[0])
    ps.Objective(name="Obj2", target=i2, kind=kinds[1], weight=weights[1])
    return pb


def pb_single_objective(kind="minimize", bounded=False):
    pb = ps.SchedulingProblem(name="OneObj", horizon=12)
    t1 = ps.FixedDurationTask(name="a", duration=2)
    t2 = ps.VariableDurationTask(name="b", min_duration=0, max_duration=4)
    t3 = ps.ZeroDurationTask(name="z")
    w = ps.Worker(name="w", productivity=1)
    t1.add_required_resource(w)
    t2.add_required_resource(w)
    ps.TaskPrecedence(task_before=t1, task_after=t2)
    ps.TaskPrecedence(task_before=t2, task_after=t3)
    extra = {"bounds": (2, 12)} if bounded else {}
    ind = ps.IndicatorFromMathExpression(
        name="Spread", expression=t3._end - t1._start + t2._duration, **extra
    )
    ps.Objective(name="ObjSpread", target=ind, kind=kind)
    return pb


def pb_makespan_optional():
    pb = ps.SchedulingProblem(name="Opt", horizon=10)
    t1 = ps.FixedDurationTask(name="m", duration=3)
    t2 = ps.FixedDurationTask(name="o", duration=2, optional=True)
    w = ps.Worker(name="w")
    t1.add_required_resource(w)
    t2.add_required_resource(w)
    ps.TaskStartAt(task=t1, value=0)
    ps.ObjectiveMinimizeMakespan()
    return pb


def pb_no_objective(feasible=True):
    pb = ps.SchedulingProblem(name="NoObj", horizon=5)
    t1 = ps.FixedDurationTask(name="x", duration=3)
    t2 = ps.FixedDurationTask(name="y", duration=2 if feasible else 3)
    w = ps.Worker(name="w")
    t1.add_required_resource(w)
    t2.add_required_resource(w)
    ps.TaskStartAt(task=t1, value=0, name="x_at_0")
    ps.TaskEndAt(task=t2, value=5, name="y_ends_5")
    return pb


def pb_three_objectives_with_zero_weight():
    pb = ps.SchedulingProblem(name="ThreeObj", horizon=9)
    t1 = ps.FixedDurationTask(name="t1", duration=2)
    t2 = ps.FixedDurationTask(name="t2", duration=4, optional=True)
    w = ps.Worker(name="w")
    t1.add_required_resource(w)
    t2.add_required_resource(w)
    i1 = ps.IndicatorFromMathExpression(name="I1", expression=t1._start)
    i2 = ps.IndicatorFromMathExpression(name="I2", expression=t2._end)
    i3 = ps.IndicatorFromMathExpression(name="I3", expression=t1._end + t2._start)
    ps.Objective(name="O1", target=i1, kind="minimize", weight=0)
    ps.Objective(name="O2", target=i2, kind="minimize", weight=2)
    ps.Objective(name="O3", target=i3, kind="minimize", weight=1)
    return pb


# ------------------------------------------------------------------ driver
def describe(title, make_problem, solve=True, full_solution=True, **cfg):
    print("=" * 78)
    print(title, "|", sorted((k, repr(v)) for k, v in cfg.items()))
    random.seed(12345)
    try:
        pb = make_problem()
        solver = quiet(ps.SchedulingSolver, problem=pb, **cfg)
        print("  z3 params:", [(p, z3.get_param(p)) for p in Z3_PARAMS])
        print("  rng after init:", rng_fingerprint())
        quiet(solver.initialize)
        print("  solver type:", type(solver._solver).__name__)
        print(
            "  flags:",
            solver._is_not_optimization_problem,
            solver._is_optimization_problem,
            solver._is_multi_objective_optimization_problem,
        )
        obj = solver._objective
        print(
            "  _objective:",
            None if obj is None else (obj.name, obj.kind, str(obj._target), obj._bounds),
        )
        if isinstance(solver._solver, z3.Optimize):
            print("  optimize objectives:", [mask(str(o)) for o in solver._solver.objectives()])
            print("  optimize sexpr objectives:", [
                mask(line) for line in solver._solver.sexpr().splitlines()
                if line.startswith("(minimize") or line.startswith("(maximize")
            ])
        assertions = sorted(mask(str(a)) for a in solver._solver.assertions())
        print("  nb assertions:", len(assertions))
        for a in assertions:
            print("    ", a.replace("\n", " "))
        print("  tracked constraints:", sorted(solver._map_boolrefs_to_constraints.values()))
        if solve:
            sol = quiet(solver.solve)
            if not sol:
                print("  outcome: NO SOLUTION", repr(sol))
            else:
                print("  outcome: indicators", sorted(sol.indicators.items()))
                if full_solution:
                    print("  horizon", sol.horizon)
                    for name in sorted(sol.tasks):
                        t = sol.tasks[name]
                        print(
                            "    task", name, t.start, t.end, t.duration,
                            t.scheduled, t.assigned_resources,
                        )
            print("  nb assertions after solve:", len(solver._solver.assertions()))
    except Exception as exc:  # canonical description of errors
        print("  ERROR:", type(exc).__name__, mask(str(exc)).splitlines()[0][:200])
    finally:
        # leave z3 in a quiet state for the next case
        z3.set_option("verbose", 0)


def main():
    # 1. multi objectives, every optimizer / priority combination
    describe("multi/incremental", pb_two_objectives, optimizer="incremental")
    for prio in ("pareto", "lex", "box", "weight"):
        describe(
            f"multi/optimize/{prio}", pb_two_objectives,
            optimizer="optimize", optimize_priority=prio,
        )
    describe(
        "multi/incremental/weight prio (ignored)", pb_two_objectives,
        optimizer="incremental", optimize_priority="weight", max_iter=50,
    )
    # mixed kinds and weights: the equivalent objective takes the kind of the last one
    describe(
        "multi mixed kinds/optimize/weight",
        lambda: pb_two_objectives(("maximize", "minimize"), (3, 1)),
        optimizer="optimize", optimize_priority="weight",
    )
    describe(
        "multi mixed kinds/optimize/lex",
        lambda: pb_two_objectives(("minimize", "maximize"), (1, 5)),
        optimizer="optimize", optimize_priority="lex",
    )
    describe(
        "multi mixed kinds/incremental",
        lambda: pb_two_objectives(("minimize", "maximize"), (2, 1)),
        optimizer="incremental",
    )
    # 2. three objectives, a 0 weight, optional task
    describe("three obj/incremental", pb_three_objectives_with_zero_weight)
    describe(
        "three obj/optimize/weight", pb_three_objectives_with_zero_weight,
        optimizer="optimize", optimize_priority="weight",
    )
    describe(
        "three obj/optimize/lex/QF_LIA ignored", pb_three_objectives_with_zero_weight,
        optimizer="optimize", optimize_priority="lex", logics="QF_LIA",
    )
    # 3. single objective
    describe("single min/incremental", pb_single_objective)
    describe("single min/optimize", pb_single_objective, optimizer="optimize")
    describe(
        "single max/optimize/box", lambda: pb_single_objective("maximize"),
        optimizer="optimize", optimize_priority="box",
    )
    describe(
        "single max bounded/incremental/logics", lambda: pb_single_objective("maximize", True),
        optimizer="incremental", logics="QF_LIA",
    )
    describe(
        "single min bounded/incremental/max_iter=1", lambda: pb_single_objective("minimize", True),
        optimizer="incremental", max_iter=1,
    )
    # 4. makespan with optional task under option variations
    describe("makespan/default", pb_makespan_optional)
    describe("makespan/random_values", pb_makespan_optional, random_values=True)
    describe(
        "makespan/random_values/optimize", pb_makespan_optional,
        random_values=True, optimizer="optimize", verbosity=0,
    )
    describe(
        "makespan/parallel", pb_makespan_optional, parallel=True, full_solution=False
    )
    describe(
        "makespan/parallel+random/optimize", pb_makespan_optional,
        parallel=True, random_values=True, optimizer="optimize", full_solution=False,
    )
    describe("makespan/max_time=0.5", pb_makespan_optional, max_time=0.5)
    # 5. no objective: optimizer option must be irrelevant; debug and verbosity
    describe("noobj/default", pb_no_objective)
    describe("noobj/optimize requested", pb_no_objective, optimizer="optimize")
    describe("noobj/logics QF_IDL", pb_no_objective, logics="QF_IDL")
    describe("noobj/verbosity=1 (init only)", pb_no_objective, verbosity=1, solve=False)
    describe("noobj/verbosity=0 explicit", pb_no_objective, verbosity=0)
    describe("noobj/debug (init only)", pb_no_objective, debug=True, solve=False)
    describe(
        "noobj/debug+verbosity=0+random (init only)", pb_no_objective,
        debug=True, verbosity=0, random_values=True, solve=False,
    )
    describe("noobj infeasible/default", lambda: pb_no_objective(False))
    describe(
        "noobj infeasible/optimize+parallel", lambda: pb_no_objective(False),
        optimizer="optimize", parallel=True,
    )
    # 6. errors
    describe("bad optimizer", pb_no_objective, optimizer="simplex")
    describe("bad priority", pb_two_objectives, optimize_priority="sum")
    describe("bad max_time=0", pb_no_objective, max_time=0)
    describe("bad logics", pb_no_objective, logics="QF_XYZ")

    # create_objective called directly on a non-initialized solver
    print("=" * 78)
    print("direct create_objective calls")
    for title, make, cfg in [
        ("no objective", pb_no_objective, {}),
        ("no objective/optimize", pb_no_objective, {"optimizer": "optimize"}),
        ("single/incremental", pb_single_objective, {}),
        ("single/optimize, solver is None", pb_single_objective, {"optimizer": "optimize"}),
        ("multi/optimize, flags not set", pb_two_objectives, {"optimizer": "optimize"}),
    ]:
        try:
            s = quiet(ps.SchedulingSolver, problem=make(), **cfg)
            r = s.create_objective()
            print(" ", title, "-> returned", r, "| _objective",
                  None if s._objective is None else s._objective.name)
        except Exception as exc:
            print(" ", title, "-> ERROR", type(exc).__name__, str(exc)[:120])

    # attributes changed after construction (no validation on assignment)
    for title, attrs in [
        ("optimizer set to unknown value after init", {"optimizer": "other"}),
        ("optimizer other + weight", {"optimizer": "other", "optimize_priority": "weight"}),
        ("optimizer switched to optimize after init", {"optimizer": "optimize"}),
    ]:
        for make in (pb_two_objectives, pb_single_objective):
            try:
                s = quiet(ps.SchedulingSolver, problem=make())
                for k, v in attrs.items():
                    setattr(s, k, v)
                quiet(s.initialize)
                print(" ", title, make.__name__, "-> initialized", type(s._solver).__name__,
                      None if s._objective is None else s._objective.name,
                      len(s._solver.assertions()))
            except Exception as exc:
                print(" ", title, make.__name__, "-> ERROR", type(exc).__name__, str(exc)[:120])


if __name__ == "__main__":
    main()
