"""Equivalence script for the C12 twin: exercises SchedulingSolver.solve,
append_z3_assertion (debug and regular mode) and the unsat-core report through
the find_another_solution / find_another_solution_for_variable entry points.

Run from /tmp/t4_C12:  /venv/bin/python _twin/equiv.py
"""
import contextlib
import io
import os
import re
import sys

sys.path.insert(0, os.getcwd())

import z3  # noqa: E402
import processscheduler as ps  # noqa: E402

assert ps.__file__.startswith(os.getcwd()), ps.__file__

MASKS = [
    (re.compile(r"asst_[0-9a-f]{8}"), "asst_XXXXXXXX"),
    (re.compile(r"[0-9a-f]{8}-[0-9a-f]{4}-[0-9a-f]{4}-[0-9a-f]{4}-[0-9a-f]{12}"), "UUID"),
    (re.compile(r"_[0-9a-f]{8}\b"), "_XXXXXXXX"),
    (re.compile(r"\d+\.\d+s"), "T.TTs"),
]


def mask(text):
    for rx, repl in MASKS:
        text = rx.sub(repl, text)
    return text


def describe(solution, pb_tasks):
    if not solution:
        return repr(solution)
    parts = []
    for name in sorted(solution.tasks):
        ts = solution.tasks[name]
        parts.append(
            f"{name}:s={ts.start},e={ts.end},d={ts.duration},sch={ts.scheduled},"
            f"res={sorted(ts.assigned_resources)}"
        )
    parts.append(f"horizon={solution.horizon}")
    parts.append(f"indicators={sorted(solution.indicators.items())}")
    return " | ".join(parts)


def assertions_of(solver):
    return sorted(mask(str(a)) for a in solver._solver.assertions())


def stdout_filter(text):
    """keep the library's own messages, drop the solver statistics block
    (z3 statistics are timing/memory dependent) and mask times / uuids"""
    kept = []
    skipping_stats = False
    for line in text.splitlines():
        if line.startswith("Solver statistics:"):
            skipping_stats = True
            continue
        if skipping_stats:
            # (rich's print expands the leading tab to spaces)
            if line[:1] in ("\t", " ") and not line.strip().startswith("->"):
                continue
            skipping_stats = False
        kept.append(mask(line))
    # the order of the "Solution:" dump (model.decls()) depends on the random
    # asst_<uuid> names of the tracked assertions: sort each such block
    result, block = [], None
    for line in kept:
        if line.startswith("Solution:"):
            result.append(line)
            block = []
            continue
        if block is not None:
            if line.strip().startswith("->"):
                block.append(line)
                continue
            result.extend(sorted(block))
            block = None
        result.append(line)
    if block is not None:
        result.extend(sorted(block))
    return result


def enumerate_all(solver, how, limit=60):
    """solve, then ask for other solutions until failure. Returns the list of
    descriptions in the order found + captured messages."""
    out = io.StringIO()
    found = []
    with contextlib.redirect_stdout(out):
        solution = solver.solve()
        n = 0
        while solution and n < limit:
            found.append(describe(solution, None))
            solution = how(solver)
            n += 1
        found.append(f"last={describe(solution, None)}")
    return found, stdout_filter(out.getvalue())


def report(title, found, messages, solver, show_assertions=True):
    print("=" * 70)
    print(title)
    print("-- solutions in order found (%d entries)" % len(found))
    for f in found:
        print("   ", f)
    print("-- distinct:", len(set(found)) == len(found))
    if show_assertions:
        print("-- final assertions (sorted, masked)")
        for a in assertions_of(solver):
            print("   ", a)
    print("-- messages")
    for m in messages:
        print("   ", m)


def run(title, fn):
    try:
        fn(title)
    except Exception as exc:  # canonical description of an error
        print("=" * 70)
        print(title)
        print(f"-- raised {type(exc).__name__}: {mask(str(exc))}")


# ---------------------------------------------------------------- scenarios
def sc1(title):
    ps.SchedulingProblem(name="OneFixed", horizon=3)
    ps.FixedDurationTask(name="T1", duration=2)
    s = ps.SchedulingSolver(problem=ps.base.active_problem)
    found, msgs = enumerate_all(s, lambda sv: sv.find_another_solution())
    report(title, found, msgs, s)


def sc2(title):
    pb = ps.SchedulingProblem(name="TwoPrecedence", horizon=4)
    t1 = ps.FixedDurationTask(name="T1", duration=1)
    t2 = ps.FixedDurationTask(name="T2", duration=2)
    ps.TaskPrecedence(task_before=t1, task_after=t2)
    s = ps.SchedulingSolver(problem=pb)
    found, msgs = enumerate_all(s, lambda sv: sv.find_another_solution())
    report(title, found, msgs, s)


def sc3(title):
    pb = ps.SchedulingProblem(name="Optional", horizon=2)
    ps.FixedDurationTask(name="Opt", duration=1, optional=True)
    ps.FixedDurationTask(name="Mand", duration=2)
    s = ps.SchedulingSolver(problem=pb)
    found, msgs = enumerate_all(s, lambda sv: sv.find_another_solution())
    report(title, found, msgs, s)


def sc4(title):
    pb = ps.SchedulingProblem(name="ZeroAndVariable", horizon=2)
    ps.ZeroDurationTask(name="Z")
    ps.VariableDurationTask(name="V", min_duration=0, max_duration=2)
    s = ps.SchedulingSolver(problem=pb)
    found, msgs = enumerate_all(s, lambda sv: sv.find_another_solution())
    report(title, found, msgs, s)


def sc5(title):
    pb = ps.SchedulingProblem(name="ForVariable", horizon=5)
    t1 = ps.FixedDurationTask(name="T1", duration=2)
    w = ps.Worker(name="W")
    t1.add_required_resource(w)
    s = ps.SchedulingSolver(problem=pb)
    found, msgs = enumerate_all(
        s, lambda sv: sv.find_another_solution_for_variable(t1._start)
    )
    report(title, found, msgs, s)


def sc6(title):
    # debug mode: assert_and_track, single assertions and lists, named constraint
    pb = ps.SchedulingProblem(name="DebugEnumerate", horizon=3)
    t1 = ps.FixedDurationTask(name="T1", duration=1)
    t2 = ps.FixedDurationTask(name="T2", duration=1, optional=True)
    ps.TaskStartAfter(task=t1, value=1)
    s = ps.SchedulingSolver(problem=pb, debug=True)
    found, msgs = enumerate_all(s, lambda sv: sv.find_another_solution())
    # the Solution:/Assertions: dumps are order sensitive only to the solver, keep them
    report(title, found, msgs, s)
    print(
        "-- map values",
        sorted(mask(v) for v in s._map_boolrefs_to_constraints.values()),
    )
    print("-- map size", len(s._map_boolrefs_to_constraints))


def sc7(title):
    # debug mode, unsatisfiable from the start: conflict report
    pb = ps.SchedulingProblem(name="DebugUnsat", horizon=4)
    t1 = ps.FixedDurationTask(name="T1", duration=2)
    t2 = ps.FixedDurationTask(name="T2", duration=2)
    ps.TaskStartAt(task=t1, value=0)
    ps.TaskEndAt(task=t1, value=4)
    ps.TaskPrecedence(task_before=t1, task_after=t2)
    s = ps.SchedulingSolver(problem=pb, debug=True)
    out = io.StringIO()
    with contextlib.redirect_stdout(out):
        res = s.solve()
    msgs = stdout_filter(out.getvalue())
    # the z3 unsat core itself may list the conflicts in the solver's order;
    # that order is the same code path in both versions, so keep it as is
    report(title, [f"solve={res!r}"], msgs, s)
    print(
        "-- map values",
        sorted(mask(v) for v in s._map_boolrefs_to_constraints.values()),
    )


def sc8(title):
    # regular mode, unsatisfiable; then request before any solution
    pb = ps.SchedulingProblem(name="PlainUnsat", horizon=1)
    ps.FixedDurationTask(name="T1", duration=2)
    s = ps.SchedulingSolver(problem=pb)
    out = io.StringIO()
    with contextlib.redirect_stdout(out):
        res = s.solve()
    report(title, [f"solve={res!r}"], stdout_filter(out.getvalue()), s)
    for call in (
        lambda: s.find_another_solution(),
        lambda: s.find_another_solution_for_variable(pb._horizon),
    ):
        try:
            r = call()
            print("-- returned", r)
        except Exception as exc:
            print(f"-- raised {type(exc).__name__}: {exc}")


def sc9(title):
    # no horizon + objective, incremental optimizer, then other solutions
    pb = ps.SchedulingProblem(name="IncrementalThenOthers")
    t1 = ps.FixedDurationTask(name="T1", duration=2)
    t2 = ps.FixedDurationTask(name="T2", duration=1)
    w = ps.Worker(name="W")
    t1.add_required_resource(w)
    t2.add_required_resource(w)
    ps.ObjectiveMinimizeMakespan()
    s = ps.SchedulingSolver(problem=pb, max_iter=10)
    found, msgs = enumerate_all(s, lambda sv: sv.find_another_solution(), limit=4)
    report(title, found, msgs, s)


def sc10(title):
    # z3 Optimize solver, horizon given, debug False; objective value print
    pb = ps.SchedulingProblem(name="OptimizeThenOthers", horizon=4)
    t1 = ps.FixedDurationTask(name="T1", duration=2)
    ps.ZeroDurationTask(name="T2")
    ps.ObjectiveMaximizeIndicator(
        target=ps.IndicatorFromMathExpression(name="StartT1", expression=t1._start),
        weight=1,
    )
    s = ps.SchedulingSolver(problem=pb, optimizer="optimize")
    found, msgs = enumerate_all(
        s, lambda sv: sv.find_another_solution_for_variable(t1._start)
    )
    report(title, found, msgs, s)


def sc11(title):
    # append_z3_assertion called directly, both modes, list / single / named
    for debug in (False, True):
        pb = ps.SchedulingProblem(name=f"Direct{debug}", horizon=3)
        t1 = ps.FixedDurationTask(name="T1", duration=1)
        c = ps.TaskEndBefore(task=t1, value=3)
        s = ps.SchedulingSolver(problem=pb, debug=debug)
        s.initialize()
        r1 = s.append_z3_assertion(t1._start >= 1)
        r2 = s.append_z3_assertion([t1._start <= 2, t1._end >= 0], c.name)
        r3 = s.append_z3_assertion([], "nothing")
        r4 = s.append_z3_assertion(t1._start != 2, None)
        print("=" * 70)
        print(title, "debug=", debug)
        print("-- returns", r1, r2, r3, r4)
        for a in assertions_of(s):
            print("   ", a)
        print(
            "-- map values",
            sorted(mask(v) for v in s._map_boolrefs_to_constraints.values()),
        )
        found, msgs = enumerate_all(s, lambda sv: sv.find_another_solution())
        for f in found:
            print("   ", f)
        for m in msgs:
            print("   ", m)


SCENARIOS = [
    ("1 one fixed task, horizon 3, exhaustive", sc1),
    ("2 two tasks with precedence, horizon 4, exhaustive", sc2),
    ("3 optional + mandatory, horizon 2, exhaustive", sc3),
    ("4 zero duration + variable duration (min 0), horizon 2", sc4),
    ("5 another value for a variable, worker assigned", sc5),
    ("6 debug mode enumeration with named constraint", sc6),
    ("7 debug mode unsat conflict report", sc7),
    ("8 plain unsat, then requests without a current solution", sc8),
    ("9 incremental optimiser then other solutions", sc9),
    ("10 z3 Optimize then another value for variable", sc10),
    ("11 append_z3_assertion directly in both modes", sc11),
]

if __name__ == "__main__":
    for title, fn in SCENARIOS:
        run(title, fn)
