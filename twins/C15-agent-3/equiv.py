"""Equivalence script for the C15 twin (objective.py: helper extraction).

Builds several small problems that use ObjectivePriorities,
ObjectiveTasksStartEarliest and ObjectiveMinimizeFlowtime, under many solver
configurations, and prints a canonical description of each outcome:
  * the sorted list of the s-expressions of the solver's assertions,
  * the indicator / objective definitions stored on the problem,
  * the solution (deterministic configurations) or only the optimal objective
    value (configurations that are random or multi-threaded by design),
  * or the error raised.
Run from the worktree:  cd /tmp/t4_C15 && /venv/bin/python _twin/equiv.py
Each solver configuration is run in its own python subprocess (see main()).
"""
import contextlib
import io
import os
import re
import sys
import warnings

sys.path.insert(0, os.getcwd())

import z3  # noqa: E402
import processscheduler as ps  # noqa: E402

assert ps.__file__.startswith(os.getcwd()), ps.__file__

warnings.simplefilter("ignore")

MASK = re.compile(r"[0-9a-f]{32}|[0-9a-f]{8}(?=\b)")


def mask(text):
    return re.sub(r"_[0-9a-f]{32}", "_<uid>", text)


# --------------------------------------------------------------------------
# problems
# --------------------------------------------------------------------------
def pb_priorities_mandatory():
    pb = ps.SchedulingProblem(name="PrioMandatory")
    w = ps.Worker(name="W")
    for i, (dur, prio) in enumerate([(3, 10), (2, 0), (4, 5), (1, 1)]):
        t = ps.FixedDurationTask(name=f"t{i}", duration=dur, priority=prio)
        t.add_required_resource(w)
    ps.ObjectivePriorities()
    return pb


def pb_priorities_optional():
    pb = ps.SchedulingProblem(name="PrioOptional", horizon=9)
    w = ps.Worker(name="W")
    tasks = []
    for i, (dur, prio, opt) in enumerate(
        [(3, 4, True), (2, 7, False), (4, 1, True), (2, 0, True)]
    ):
        t = ps.FixedDurationTask(
            name=f"t{i}", duration=dur, priority=prio, optional=opt
        )
        t.add_required_resource(w)
        tasks.append(t)
    ps.ForceScheduleNOptionalTasks(
        list_of_optional_tasks=[t for t in tasks if t.optional],
        nb_tasks_to_schedule=2,
    )
    ps.ObjectivePriorities()
    return pb


def pb_start_earliest():
    pb = ps.SchedulingProblem(name="StartEarliest", horizon=15)
    w = ps.Worker(name="W")
    t0 = ps.FixedDurationTask(name="t0", duration=3, priority=2, release_date=2)
    t1 = ps.VariableDurationTask(name="t1", min_duration=1, max_duration=4, priority=3)
    t2 = ps.FixedDurationTask(name="t2", duration=2, priority=5, optional=True)
    t3 = ps.ZeroDurationTask(name="t3")
    for t in (t0, t1, t2):
        t.add_required_resource(w)
    ps.TaskPrecedence(task_before=t0, task_after=t3)
    ps.ConstraintFromExpression(expression=t2._scheduled == True)  # noqa: E712
    ps.ObjectiveTasksStartEarliest()
    return pb


def pb_flowtime_all():
    pb = ps.SchedulingProblem(name="FlowtimeAll", horizon=12)
    w = ps.Worker(name="W")
    t0 = ps.FixedDurationTask(name="t0", duration=3)
    t1 = ps.FixedDurationTask(name="t1", duration=2, optional=True)
    t2 = ps.FixedDurationTask(name="t2", duration=4)
    for t in (t0, t1, t2):
        t.add_required_resource(w)
    ps.ConstraintFromExpression(expression=t1._scheduled == True)  # noqa: E712
    ps.ObjectiveMinimizeFlowtime()
    return pb


def pb_flowtime_subset():
    pb = ps.SchedulingProblem(name="FlowtimeSubset", horizon=12)
    w = ps.Worker(name="W")
    t0 = ps.FixedDurationTask(name="t0", duration=3)
    t1 = ps.FixedDurationTask(name="t1", duration=2, optional=True)
    t2 = ps.FixedDurationTask(name="t2", duration=4)
    for t in (t0, t1, t2):
        t.add_required_resource(w)
    ps.TaskStartAt(task=t0, value=0)
    ps.ConstraintFromExpression(expression=t1._scheduled == True)  # noqa: E712
    ps.ObjectiveMinimizeFlowtime(list_of_tasks=[t2, t1])
    return pb


def pb_flowtime_none_explicit():
    pb = ps.SchedulingProblem(name="FlowtimeNone", horizon=8)
    t0 = ps.FixedDurationTask(name="t0", duration=3)
    t1 = ps.FixedDurationTask(name="t1", duration=2)
    ps.TaskPrecedence(task_before=t0, task_after=t1, offset=1)
    ps.ObjectiveMinimizeFlowtime(list_of_tasks=None)
    return pb


def pb_flowtime_empty_list():
    pb = ps.SchedulingProblem(name="FlowtimeEmpty", horizon=8)
    ps.FixedDurationTask(name="t0", duration=3)
    ps.ObjectiveMinimizeFlowtime(list_of_tasks=[])
    return pb


def pb_flowtime_generator():
    pb = ps.SchedulingProblem(name="FlowtimeGen", horizon=10)
    ts = [ps.FixedDurationTask(name=f"t{i}", duration=i + 1) for i in range(3)]
    ps.TaskPrecedence(task_before=ts[2], task_after=ts[0])
    ps.ObjectiveMinimizeFlowtime(list_of_tasks=(t for t in ts if t.duration != 2))
    return pb


def pb_no_task_priorities():
    pb = ps.SchedulingProblem(name="NoTaskPrio", horizon=4)
    ps.ObjectivePriorities()
    return pb


def pb_no_task_start_earliest():
    pb = ps.SchedulingProblem(name="NoTaskStart", horizon=4)
    ps.ObjectiveTasksStartEarliest()
    return pb


def pb_flowtime_bad_element():
    pb = ps.SchedulingProblem(name="FlowtimeBad", horizon=4)
    t0 = ps.FixedDurationTask(name="t0", duration=1)
    ps.ObjectiveMinimizeFlowtime(list_of_tasks=[t0, "not a task"])
    return pb


def pb_flowtime_bad_type():
    pb = ps.SchedulingProblem(name="FlowtimeBadType", horizon=4)
    ps.FixedDurationTask(name="t0", duration=1)
    ps.ObjectiveMinimizeFlowtime(list_of_tasks=3)
    return pb


def pb_multi():
    pb = ps.SchedulingProblem(name="Multi", horizon=14)
    w = ps.Worker(name="W")
    t0 = ps.FixedDurationTask(name="t0", duration=3, priority=3)
    t1 = ps.FixedDurationTask(name="t1", duration=2, priority=6, optional=True)
    t2 = ps.FixedDurationTask(name="t2", duration=4, priority=0)
    for t in (t0, t1, t2):
        t.add_required_resource(w)
    ps.ConstraintFromExpression(expression=t1._scheduled == True)  # noqa: E712
    ps.ObjectivePriorities()
    ps.ObjectiveMinimizeFlowtime(list_of_tasks=[t0, t1])
    ps.ObjectiveTasksStartEarliest()
    ps.ObjectiveMinimizeMakespan()
    return pb


def pb_unsat():
    pb = ps.SchedulingProblem(name="Unsat", horizon=4)
    w = ps.Worker(name="W")
    for i in range(2):
        t = ps.FixedDurationTask(name=f"t{i}", duration=3, priority=i)
        t.add_required_resource(w)
    ps.ObjectivePriorities()
    return pb


PROBLEMS = [
    pb_priorities_mandatory,
    pb_priorities_optional,
    pb_start_earliest,
    pb_flowtime_all,
    pb_flowtime_subset,
    pb_flowtime_none_explicit,
    pb_flowtime_empty_list,
    pb_flowtime_generator,
    pb_no_task_priorities,
    pb_no_task_start_earliest,
    pb_flowtime_bad_element,
    pb_flowtime_bad_type,
    pb_multi,
    pb_unsat,
]

# (label, solver kwargs, deterministic?)
CONFIGS = [
    ("incremental", dict(), True),
    ("incremental-debug", dict(debug=True), False),
    ("incremental-QF_LIA", dict(logics="QF_LIA"), True),
    ("incremental-QF_UFLIA", dict(logics="QF_UFLIA"), True),
    ("incremental-maxiter2", dict(max_iter=2), True),
    ("optimize-pareto", dict(optimizer="optimize"), True),
    ("optimize-lex", dict(optimizer="optimize", optimize_priority="lex"), True),
    ("optimize-box", dict(optimizer="optimize", optimize_priority="box"), True),
    ("optimize-weight", dict(optimizer="optimize", optimize_priority="weight"), True),
    ("optimize-verbose", dict(optimizer="optimize", verbosity=1), True),
    ("incremental-random", dict(random_values=True), False),
    ("optimize-random", dict(optimizer="optimize", random_values=True), False),
    ("incremental-parallel", dict(parallel=True), False),
    ("optimize-parallel", dict(optimizer="optimize", parallel=True), False),
]


def describe_problem(pb):
    lines = []
    for name, ind in pb.indicators.items():
        lines.append(f"  indicator {name!r} var={ind._indicator_variable.sexpr()}")
        lines.append(f"    bounds={ind.bounds}")
        for a in ind.get_z3_assertions():
            lines.append(f"    asst {a.sexpr()}")
    for name, obj in pb.objectives.items():
        lines.append(
            f"  objective {name!r} kind={obj.kind} weight={obj.weight} "
            f"target={obj._target.sexpr()} bounds={obj._bounds}"
        )
    return lines


def describe_solution(sol, deterministic, pb):
    if sol is False or sol is None:
        return [f"  solution: {sol!r}"]
    lines = []
    single = len(pb.objectives) == 1
    if deterministic:
        lines.append(f"  horizon={sol.horizon}")
        for name in sorted(sol.tasks):
            t = sol.tasks[name]
            lines.append(
                f"  task {name}: start={t.start} end={t.end} duration={t.duration} "
                f"scheduled={t.scheduled} assigned={sorted(t.assigned_resources)}"
            )
        for name in sorted(sol.indicators):
            lines.append(f"  indicator {name!r} = {sol.indicators[name]}")
    elif single:
        # random / parallel search: only the optimum is configuration independent
        for name, obj in pb.objectives.items():
            tgt = obj.target
            if hasattr(tgt, "name"):
                lines.append(f"  optimum {tgt.name!r} = {sol.indicators[tgt.name]}")
            else:
                lines.append(f"  optimum horizon = {sol.horizon}")
    else:
        lines.append("  solution found (multi objective, random/parallel: not compared)")
    return lines


def run_one(builder, label, kwargs, deterministic):
    out = [f"=== {builder.__name__} / {label}"]
    sink = io.StringIO()
    try:
        with contextlib.redirect_stdout(sink), contextlib.redirect_stderr(sink):
            pb = builder()
    except Exception as exc:  # noqa: BLE001
        out.append(f"  build error: {type(exc).__name__}: {mask(str(exc))[:300]}")
        return out
    out.extend(describe_problem(pb))
    try:
        with contextlib.redirect_stdout(sink), contextlib.redirect_stderr(sink):
            solver = ps.SchedulingSolver(problem=pb, **kwargs)
            solver.initialize()
            assts = sorted(mask(a.sexpr()) for a in solver._solver.assertions())
            if isinstance(solver._solver, z3.Optimize):
                objs = [mask(o.sexpr()) for o in solver._solver.objectives()]
            else:
                objs = []
            sol = solver.solve()
            assts_after = sorted(mask(a.sexpr()) for a in solver._solver.assertions())
    except Exception as exc:  # noqa: BLE001
        out.append(f"  solve error: {type(exc).__name__}: {mask(str(exc))[:300]}")
        return out
    if kwargs.get("debug"):
        # assert_and_track: the tracking literal names are random
        assts = sorted(re.sub(r"asst_[0-9a-f]{8}", "asst_<id>", a) for a in assts)
        assts_after = sorted(
            re.sub(r"asst_[0-9a-f]{8}", "asst_<id>", a) for a in assts_after
        )
    out.append(f"  {len(assts)} assertions after initialize:")
    out.extend(f"    {a}" for a in assts)
    out.append(f"  optimize objectives: {objs}")
    out.append(f"  assertions unchanged after solve: {assts == assts_after}")
    out.extend(describe_solution(sol, deterministic, pb))
    return out


def main():
    # One fresh python process per solver configuration: the debug (random
    # uuid tracking names), random and multi-threaded configurations leave the
    # z3 process in a run-dependent state (symbol table, ast ids) that can
    # change how later searches break ties between equally good schedules.
    import random
    import subprocess

    if len(sys.argv) == 3 and sys.argv[1] == "--config":
        random.seed(12345)  # SchedulingSolver draws the z3 seeds from `random`
        for label, kwargs, deterministic in CONFIGS:
            if label == sys.argv[2]:
                for builder in PROBLEMS:
                    for line in run_one(builder, label, kwargs, deterministic):
                        print(line)
        return
    for label, _, _ in CONFIGS:
        proc = subprocess.run(
            [sys.executable, os.path.abspath(__file__), "--config", label],
            stdout=subprocess.PIPE,
            stderr=subprocess.DEVNULL,
            text=True,
            check=True,
            env=dict(os.environ, PYTHONHASHSEED="0"),
        )
        sys.stdout.write(proc.stdout)


if __name__ == "__main__":
    main()
