"""Equivalence script for the refactoring of the 'optional tasks only'
constraints of task_constraint.py (OptionalTaskForceSchedule,
OptionalTaskConditionSchedule, OptionalTasksDependency).

For every case it prints the constraint's own assertions, the sorted list of
the solver's assertions and the solution values (or the error raised).
Random parts of names (uuids) are masked.
"""
import os
import re
import sys

sys.path.insert(0, os.getcwd())

import z3  # noqa: E402
import processscheduler as ps  # noqa: E402

assert os.path.dirname(os.path.abspath(ps.__file__)).startswith(os.getcwd()), ps.__file__

_MASK = re.compile(r"\d{6,}|asst_[0-9a-f]{8}")


_TIME = re.compile(r"\d+\.\d+s")


def mask(txt):
    return _MASK.sub("<N>", " ".join(str(txt).split()))


class _MaskedStdout:
    """The library prints timings and random assertion identifiers (debug mode)
    on stdout: mask them so that two runs can be compared."""

    def __init__(self, stream):
        self._stream = stream

    def write(self, txt):
        return self._stream.write(_TIME.sub("<T>s", _MASK.sub("<N>", txt)))

    def flush(self):
        self._stream.flush()


def describe_constraint(cstr):
    print("  constraint", cstr.name, type(cstr).__name__, "optional:", cstr.optional)
    for asst in cstr.get_z3_assertions():
        print("    asst:", mask(asst), "| sexpr:", mask(asst.sexpr()))


def solve_and_describe(pb, **solver_args):
    solver = ps.SchedulingSolver(problem=pb, **solver_args)
    solver.initialize()
    for line in sorted(mask(a) for a in solver._solver.assertions()):
        print("  solver:", line)
    solution = solver.solve()
    if not solution:
        print("  solution: NONE")
        return
    print("  horizon:", solution.horizon)
    for name in sorted(solution.tasks):
        tsk = solution.tasks[name]
        print(
            "  task", name, "scheduled:", tsk.scheduled, "start:", tsk.start,
            "end:", tsk.end, "duration:", tsk.duration, "optional:", tsk.optional,
        )
    print("  indicators:", sorted(solution.indicators.items()))


def case(title, builder):
    print("=== " + title)
    try:
        builder()
    except Exception as exc:  # the error is part of the behaviour
        print("  ERROR:", type(exc).__name__, mask(exc))
    # the constraint is registered in the problem even when __init__ raises later
    pb = ps.base.active_problem
    print("  registered constraints:", sorted(mask(n) for n in pb.constraints))


# ---------------------------------------------------------------- force schedule
def force_true():
    pb = ps.SchedulingProblem(name="ForceTrue", horizon=7)
    t1 = ps.FixedDurationTask(name="t1", duration=3, optional=True)
    t2 = ps.FixedDurationTask(name="t2", duration=2)
    c = ps.OptionalTaskForceSchedule(name="force_t1", task=t1, to_be_scheduled=True)
    ps.TaskStartAt(task=t1, value=4)
    ps.TaskPrecedence(task_before=t2, task_after=t1, offset=0, kind="tight")
    describe_constraint(c)
    solve_and_describe(pb)


def force_false():
    pb = ps.SchedulingProblem(name="ForceFalse", horizon=5)
    t1 = ps.FixedDurationTask(name="t1", duration=3, optional=True)
    t2 = ps.ZeroDurationTask(name="t2", optional=True)
    c1 = ps.OptionalTaskForceSchedule(name="force_t1", task=t1, to_be_scheduled=False)
    c2 = ps.OptionalTaskForceSchedule(name="force_t2", task=t2, to_be_scheduled=True)
    ps.TaskEndAt(task=t2, value=0)
    describe_constraint(c1)
    describe_constraint(c2)
    solve_and_describe(pb)


def force_mandatory_task_error():
    ps.SchedulingProblem(name="ForceError", horizon=5)
    t1 = ps.FixedDurationTask(name="t1_mandatory", duration=3)
    ps.OptionalTaskForceSchedule(name="force_bad", task=t1, to_be_scheduled=True)


def force_optional_constraint():
    """the constraint itself is optional: Implies(applied, ...)"""
    pb = ps.SchedulingProblem(name="ForceOptCstr", horizon=6)
    t1 = ps.VariableDurationTask(name="t1", optional=True, min_duration=1, max_duration=2)
    c = ps.OptionalTaskForceSchedule(
        name="force_opt", task=t1, to_be_scheduled=True, optional=True
    )
    ps.ConstraintFromExpression(expression=c._applied == True)
    ps.TaskStartAfter(task=t1, value=3, kind="strict")
    describe_constraint(c)
    solve_and_describe(pb)


def force_contradiction_unsat():
    pb = ps.SchedulingProblem(name="ForceUnsat", horizon=6)
    t1 = ps.FixedDurationTask(name="t1", duration=1, optional=True)
    ps.OptionalTaskForceSchedule(name="f_a", task=t1, to_be_scheduled=True)
    ps.OptionalTaskForceSchedule(name="f_b", task=t1, to_be_scheduled=False)
    solve_and_describe(pb)


# ------------------------------------------------------------ condition schedule
def condition_true_no_horizon():
    pb = ps.SchedulingProblem(name="CondTrue")
    t1 = ps.FixedDurationTask(name="t1", duration=13)
    t2 = ps.FixedDurationTask(name="t2", duration=4, optional=True)
    c = ps.OptionalTaskConditionSchedule(name="cond", task=t2, condition=pb._horizon > 10)
    ps.TaskPrecedence(task_before=t1, task_after=t2, offset=2, kind="lax")
    ps.ObjectiveMinimizeMakespan()
    describe_constraint(c)
    solve_and_describe(pb)


def condition_false_fixed_horizon():
    pb = ps.SchedulingProblem(name="CondFalse", horizon=9)
    t1 = ps.FixedDurationTask(name="t1", duration=9)
    t2 = ps.FixedDurationTask(name="t2", duration=4, optional=True)
    c = ps.OptionalTaskConditionSchedule(name="cond", task=t2, condition=pb._horizon > 10)
    ps.TasksDontOverlap(task_1=t1, task_2=t2)
    describe_constraint(c)
    solve_and_describe(pb)


def condition_on_other_task():
    pb = ps.SchedulingProblem(name="CondOther", horizon=10)
    t1 = ps.FixedDurationTask(name="t1", duration=2)
    t2 = ps.FixedDurationTask(name="t2", duration=3, optional=True)
    ps.TaskStartAt(task=t1, value=0)
    c = ps.OptionalTaskConditionSchedule(
        name="cond", task=t2, condition=z3.And(t1._start == 0, t1._end <= 2), optional=True
    )
    ps.ForceApplyNOptionalConstraints(
        list_of_optional_constraints=[c], nb_constraints_to_apply=1
    )
    ps.TasksStartSynced(task_1=t1, task_2=t2)
    describe_constraint(c)
    solve_and_describe(pb)


def condition_mandatory_task_error():
    pb = ps.SchedulingProblem(name="CondError", horizon=5)
    t1 = ps.VariableDurationTask(name="t1_var_mandatory")
    ps.OptionalTaskConditionSchedule(name="cond_bad", task=t1, condition=pb._horizon > 1)


def condition_wrong_type_error():
    ps.SchedulingProblem(name="CondTypeError", horizon=5)
    t1 = ps.FixedDurationTask(name="t1", duration=1, optional=True)
    ps.OptionalTaskConditionSchedule(name="cond_bad", task=t1, condition=True)


def condition_inside_not():
    """used as an operand of a first order logic operator"""
    pb = ps.SchedulingProblem(name="CondNot", horizon=8)
    t1 = ps.FixedDurationTask(name="t1", duration=2, optional=True)
    inner = ps.OptionalTaskConditionSchedule(name="inner", task=t1, condition=pb._horizon > 3)
    outer = ps.Not(name="outer", constraint=inner)
    describe_constraint(inner)
    describe_constraint(outer)
    solve_and_describe(pb)


# -------------------------------------------------------------------- dependency
def dependency_mandatory_first():
    pb = ps.SchedulingProblem(name="Dep1", horizon=14)
    t1 = ps.FixedDurationTask(name="t1", duration=9)
    t2 = ps.FixedDurationTask(name="t2", duration=4, optional=True)
    c = ps.OptionalTasksDependency(name="dep", task_1=t1, task_2=t2)
    ps.TasksContiguous(list_of_tasks=[t1, t2])
    ps.TaskEndBefore(task=t2, value=13, kind="lax")
    describe_constraint(c)
    solve_and_describe(pb)


def dependency_chain():
    pb = ps.SchedulingProblem(name="Dep2", horizon=9)
    t1 = ps.FixedDurationTask(name="t1", duration=5)
    t2 = ps.FixedDurationTask(name="t2", duration=4, optional=True)
    t3 = ps.FixedDurationTask(name="t3", duration=1, optional=True)
    c1 = ps.OptionalTaskConditionSchedule(name="cond", task=t2, condition=pb._horizon > 10)
    c2 = ps.OptionalTasksDependency(name="dep", task_1=t2, task_2=t3)
    ps.TasksEndSynced(task_1=t2, task_2=t3)
    describe_constraint(c1)
    describe_constraint(c2)
    solve_and_describe(pb)


def dependency_both_optional_forced():
    pb = ps.SchedulingProblem(name="Dep3", horizon=6)
    t1 = ps.FixedDurationTask(name="t1", duration=2, optional=True)
    t2 = ps.ZeroDurationTask(name="t2", optional=True)
    c = ps.OptionalTasksDependency(name="dep", task_1=t1, task_2=t2, optional=True)
    ps.OptionalTaskForceSchedule(name="force", task=t1, to_be_scheduled=True)
    ps.ConstraintFromExpression(expression=c._applied == True)
    ps.TaskPrecedence(task_before=t1, task_after=t2, offset=1, kind="strict")
    ps.ScheduleNTasksInTimeIntervals(
        list_of_tasks=[t1, t2],
        nb_tasks_to_schedule=1,
        list_of_time_intervals=[(0, 3)],
        kind="exact",
    )
    describe_constraint(c)
    solve_and_describe(pb)


def dependency_second_mandatory_error():
    ps.SchedulingProblem(name="DepError", horizon=6)
    t1 = ps.FixedDurationTask(name="t1", duration=2, optional=True)
    t2 = ps.FixedDurationTask(name="t2_mandatory", duration=2)
    ps.OptionalTasksDependency(name="dep_bad", task_1=t1, task_2=t2)


def dependency_both_mandatory_error():
    ps.SchedulingProblem(name="DepError2", horizon=6)
    t1 = ps.ZeroDurationTask(name="z1")
    t2 = ps.ZeroDurationTask(name="z2")
    ps.OptionalTasksDependency(task_1=t1, task_2=t2)


def dependency_same_task():
    pb = ps.SchedulingProblem(name="DepSame", horizon=3)
    t1 = ps.FixedDurationTask(name="t1", duration=0 + 1, optional=True)
    c = ps.OptionalTasksDependency(name="dep", task_1=t1, task_2=t1)
    describe_constraint(c)
    solve_and_describe(pb)


def missing_field_error():
    ps.SchedulingProblem(name="Missing", horizon=3)
    t1 = ps.FixedDurationTask(name="t1", duration=1, optional=True)
    ps.OptionalTaskForceSchedule(task=t1)


CASES = [
    force_true,
    force_false,
    force_mandatory_task_error,
    force_optional_constraint,
    force_contradiction_unsat,
    condition_true_no_horizon,
    condition_false_fixed_horizon,
    condition_on_other_task,
    condition_mandatory_task_error,
    condition_wrong_type_error,
    condition_inside_not,
    dependency_mandatory_first,
    dependency_chain,
    dependency_both_optional_forced,
    dependency_second_mandatory_error,
    dependency_both_mandatory_error,
    dependency_same_task,
    missing_field_error,
]

if __name__ == "__main__":
    sys.stdout = _MaskedStdout(sys.stdout)
    for fn in CASES:
        case(fn.__name__, fn)
