"""Equivalence witness for the refactoring of Task.set_assertions,
Task.add_required_resource (Worker branch) and util.sort_no_duplicates.

Run from the worktree root:  /venv/bin/python _twin/equiv.py
Prints, for each small problem, the sorted assertions handed to the solver and
the values of the returned schedule (or the error raised).
"""
import contextlib
import io
import os
import re
import sys

sys.path.insert(0, os.getcwd())

import z3  # noqa: E402
import processscheduler as ps  # noqa: E402
from processscheduler.util import sort_no_duplicates  # noqa: E402

assert os.path.dirname(os.path.abspath(ps.__file__)).startswith(os.getcwd())

MASKS = [(re.compile(r"\b[0-9a-f]{32}\b"), "<UUID>"),
         (re.compile(r"\d{15,}"), "<UID>"),
         (re.compile(r"_[0-9a-f]{8}\b"), "_<HEX8>")]


def mask(text):
    for rgx, repl in MASKS:
        text = rgx.sub(repl, text)
    return " ".join(text.split())


def describe(pb, **solver_args):
    out = []
    buf = io.StringIO()
    with contextlib.redirect_stdout(buf):
        solver = ps.SchedulingSolver(problem=pb, **solver_args)
        solver.initialize()
        assertions = [mask(str(a)) for a in solver._solver.assertions()]
        solution = solver.solve()
    out.append("  #assertions = %d" % len(assertions))
    out.append("  in order  : " + " || ".join(assertions))
    out.append("  sorted    : " + " || ".join(sorted(assertions)))
    if not solution:
        out.append("  solution  : NONE")
    else:
        out.append("  horizon   : %s" % solution.horizon)
        for name in sorted(solution.tasks):
            t = solution.tasks[name]
            out.append("  task %s: start=%s end=%s duration=%s scheduled=%s optional=%s res=%s" % (
                name, t.start, t.end, t.duration, t.scheduled, t.optional,
                sorted(t.assigned_resources)))
        for name in sorted(solution.resources):
            r = solution.resources[name]
            out.append("  resource %s: %s" % (name, sorted(r.assignments)))
        for name in sorted(solution.indicators):
            out.append("  indicator %s = %s" % (name, solution.indicators[name]))
    return "\n".join(out)


CASES = []


def case(fn):
    CASES.append(fn)
    return fn


@case
def c01_non_delay_three_mandatory():
    pb = ps.SchedulingProblem(name="c01", horizon=12)
    w = ps.Worker(name="W")
    for i, d in enumerate((3, 2, 4)):
        t = ps.FixedDurationTask(name=f"T{i}", duration=d)
        t.add_required_resource(w)
    ps.ResourceNonDelay(resource=w)
    ps.TaskStartAt(task=pb.tasks["T1"], value=2)
    return describe(pb)


@case
def c02_non_delay_optional_and_select():
    pb = ps.SchedulingProblem(name="c02", horizon=10)
    w1, w2 = ps.Worker(name="W1"), ps.Worker(name="W2")
    t0 = ps.FixedDurationTask(name="T0", duration=2)
    t1 = ps.FixedDurationTask(name="T1", duration=3, optional=True)
    t2 = ps.VariableDurationTask(name="T2", optional=True, min_duration=1, max_duration=4)
    t3 = ps.ZeroDurationTask(name="T3", optional=True)
    t0.add_required_resource(w1)
    t1.add_required_resource(ps.SelectWorkers(list_of_workers=[w1, w2], nb_workers_to_select=1))
    t2.add_required_resource(w1)
    t3.add_required_resource(w2)
    ps.ResourceNonDelay(resource=w1)
    ps.ForceScheduleNOptionalTasks(list_of_optional_tasks=[t1, t2, t3], nb_tasks_to_schedule=2)
    return describe(pb)


@case
def c03_non_delay_single_task_and_no_task():
    pb = ps.SchedulingProblem(name="c03", horizon=5)
    w, idle = ps.Worker(name="W"), ps.Worker(name="Idle")
    t = ps.FixedDurationTask(name="T", duration=2)
    t.add_required_resource(w)
    ps.ResourceNonDelay(resource=w)
    ps.ResourceNonDelay(resource=idle)
    return describe(pb)


@case
def c04_distance_modes():
    res = []
    for mode, dist, intervals in (("exact", 0, None), ("min", 2, [(0, 6)]),
                                  ("max", 1, [(0, 4), (8, 14)]), ("exact", 3, None)):
        pb = ps.SchedulingProblem(name="c04_" + mode, horizon=16)
        w = ps.Worker(name="W")
        a = ps.FixedDurationTask(name="A", duration=2)
        b = ps.VariableDurationTask(name="B", min_duration=0, allowed_durations=[1, 3])
        c = ps.FixedDurationTask(name="C", duration=1, optional=True, release_date=1, due_date=15)
        a.add_required_resource(w, delay_in=0, early_out=0)
        b.add_required_resource(w)
        c.add_required_resource(w)
        extra = {} if intervals is None else {"list_of_time_intervals": intervals}
        ps.ResourceTasksDistance(resource=w, distance=dist, mode=mode, **extra)
        ps.TaskStartAt(task=a, value=1)
        res.append("  -- mode=%s distance=%s intervals=%s\n%s" % (mode, dist, intervals, describe(pb)))
    return "\n".join(res)


@case
def c05_distance_too_few_tasks():
    pb = ps.SchedulingProblem(name="c05")
    w = ps.Worker(name="W")
    t = ps.FixedDurationTask(name="T", duration=1, optional=True)
    t.add_required_resource(w)
    try:
        ps.ResourceTasksDistance(resource=w, distance=0)
    except Exception as exc:  # pylint: disable=broad-except
        return "  %s: %s\n  task assertions: %s" % (
            type(exc).__name__, exc, [str(x) for x in t.get_z3_assertions()])
    return "  no error"


@case
def c06_delay_in_early_out_combinations():
    res = []
    for delay_in, early_out, dynamic in ((0, 0, False), (2, 0, False), (0, 1, False),
                                         (2, 1, False), (-1, -3, False), (2, 1, True),
                                         (True, False, False)):
        pb = ps.SchedulingProblem(name="c06", horizon=18)
        w = ps.Worker(name="W")
        a = ps.FixedDurationTask(name="A", duration=5)
        b = ps.FixedDurationTask(name="B", duration=4, optional=True)
        a.add_required_resource(w, dynamic=dynamic, delay_in=delay_in, early_out=early_out)
        b.add_required_resource(w, dynamic, delay_in, early_out)
        ps.ResourceUnavailable(resource=w, list_of_time_intervals=[(0, 2)])
        ps.ResourcePeriodicallyUnavailable(resource=w, list_of_time_intervals=[(0, 1)], period=6, offset=5)
        ps.ForceScheduleNOptionalTasks(list_of_optional_tasks=[b], nb_tasks_to_schedule=1)
        res.append("  -- delay_in=%r early_out=%r dynamic=%r\n  A: %s\n  B: %s\n%s" % (
            delay_in, early_out, dynamic,
            [str(x) for x in a.get_z3_assertions()],
            [str(x) for x in b.get_z3_assertions()], describe(pb)))
    return "\n".join(res)


@case
def c07_optional_variable_workload_interrupted():
    pb = ps.SchedulingProblem(name="c07", horizon=14)
    w = ps.Worker(name="W")
    v = ps.VariableDurationTask(name="V", optional=True, min_duration=2, max_duration=6,
                                release_date=1, due_date=12, work_amount=0)
    f = ps.FixedDurationTask(name="F", duration=3, release_date=0, due_date=14,
                             due_date_is_deadline=False)
    g = ps.FixedDurationTask(name="G", duration=2, optional=True, release_date=4)
    for t in (v, f, g):
        t.add_required_resource(w)
    ps.WorkLoad(resource=w, dict_time_intervals_and_bound={(0, 6): 4}, kind="max")
    ps.WorkLoad(resource=w, dict_time_intervals_and_bound={(6, 14): 3}, kind="min")
    ps.ResourceInterrupted(resource=w, list_of_time_intervals=[(3, 4)])
    ps.ForceScheduleNOptionalTasks(list_of_optional_tasks=[v, g], nb_tasks_to_schedule=2)
    return describe(pb)


@case
def c08_sort_no_duplicates_direct():
    res = []
    for n in (0, 1, 2, 4):
        values = [z3.Int(f"v{n}_{i}") for i in range(n)]
        sorted_vars, constraints = sort_no_duplicates(values)
        s = z3.Solver()
        s.add(constraints)
        s.add([v == 10 - 3 * i for i, v in enumerate(values)])
        verdict = s.check()
        got = [s.model()[x].as_long() for x in sorted_vars] if verdict == z3.sat else None
        res.append("  n=%d vars=%s\n    constraints=%s\n    %s sorted=%s" % (
            n, [str(x) for x in sorted_vars], [mask(str(c)) for c in constraints], verdict, got))
    # equal values cannot be strictly sorted
    values = [z3.Int("d0"), z3.Int("d1")]
    _, constraints = sort_no_duplicates(values)
    s = z3.Solver()
    s.add(constraints + [values[0] == 3, values[1] == 3])
    res.append("  duplicates: %s" % s.check())
    # python integers mixed with variables, and an unsized argument
    sv, cs = sort_no_duplicates([z3.Int("m0"), 5, -2])
    res.append("  mixed: %s %s" % ([str(x) for x in sv], [mask(str(c)) for c in cs]))
    try:
        sort_no_duplicates(iter([z3.Int("g0")]))
    except Exception as exc:  # pylint: disable=broad-except
        res.append("  generator: %s: %s" % (type(exc).__name__, exc))
    return "\n".join(res)


@case
def c09_errors_in_add_required_resource():
    res = []
    pb = ps.SchedulingProblem(name="c09", horizon=6)
    w = ps.Worker(name="W")
    t = ps.FixedDurationTask(name="T", duration=2)
    for label, call in (
        ("not a resource", lambda: t.add_required_resource("W")),
        ("bad delay_in", lambda: t.add_required_resource(w, delay_in="x", early_out=1)),
        ("twice", lambda: t.add_required_resource(w)),
        ("bad early_out", lambda: t.add_required_resource(ps.Worker(name="W2"), early_out=None)),
    ):
        try:
            call()
            res.append("  %s: no error" % label)
        except Exception as exc:  # pylint: disable=broad-except
            res.append("  %s: %s: %s" % (label, type(exc).__name__, exc))
        res.append("    assertions: %s" % [str(x) for x in t.get_z3_assertions()])
        res.append("    required: %s busy(W): %s" % (
            [r.name for r in t._required_resources],
            [(k.name, str(v[0]), str(v[1])) for k, v in w._busy_intervals.items()]))
    # the same assertion twice is refused
    t2 = ps.FixedDurationTask(name="T2", duration=1)
    try:
        t2.set_assertions([t2._start >= 0])
    except Exception as exc:  # pylint: disable=broad-except
        res.append("  set_assertions twice: %s: %s" % (type(exc).__name__, exc))
    try:
        ps.FixedDurationTask(name="T3", duration=1, release_date=0, due_date=0)
        res.append("  release 0 / due 0: %s" % [str(x) for x in pb.tasks["T3"].get_z3_assertions()])
    except Exception as exc:  # pylint: disable=broad-except
        res.append("  T3: %s: %s" % (type(exc).__name__, exc))
    processscheduler_base = sys.modules["processscheduler.base"]
    processscheduler_base.active_problem = None
    try:
        ps.FixedDurationTask(name="Orphan", duration=1, optional=True)
    except Exception as exc:  # pylint: disable=broad-except
        res.append("  no problem: %s: %s" % (type(exc).__name__, exc))
    return "\n".join(res)


@case
def c10_same_and_distinct_workers_with_optional_tasks():
    pb = ps.SchedulingProblem(name="c10", horizon=9)
    w = [ps.Worker(name=f"W{i}") for i in range(3)]
    a = ps.FixedDurationTask(name="A", duration=2, optional=True)
    b = ps.FixedDurationTask(name="B", duration=3)
    c = ps.VariableDurationTask(name="C", optional=True, max_duration=3)
    sa = ps.SelectWorkers(list_of_workers=[w[0], w[1]], nb_workers_to_select=1)
    sb = ps.SelectWorkers(list_of_workers=[w[0], w[1]], nb_workers_to_select=1)
    sc = ps.SelectWorkers(list_of_workers=w, nb_workers_to_select=2, kind="min")
    a.add_required_resource(sa)
    b.add_required_resource(sb)
    c.add_required_resource(sc)
    ps.SameWorkers(select_workers_1=sa, select_workers_2=sb)
    ps.DistinctWorkers(select_workers_1=sb, select_workers_2=sc)
    ps.ResourceTasksDistance(resource=w[0], distance=1, mode="min")
    ps.ForceScheduleNOptionalTasks(list_of_optional_tasks=[a, c], nb_tasks_to_schedule=2)
    return "  counter after build: %s\n%s" % (pb._unique_integer, describe(pb))


@case
def c11_periodically_interrupted_and_cumulative():
    pb = ps.SchedulingProblem(name="c11", horizon=20)
    cw = ps.CumulativeWorker(name="CW", size=2)
    t1 = ps.VariableDurationTask(name="V1", min_duration=3)
    t2 = ps.FixedDurationTask(name="F1", duration=2, optional=True)
    t3 = ps.FixedDurationTask(name="F2", duration=2)
    for t in (t1, t2, t3):
        t.add_required_resource(cw)
    ps.ResourcePeriodicallyInterrupted(resource=cw, list_of_time_intervals=[(1, 2)], period=5,
                                       start=0, end=15)
    ps.ResourceNonDelay(resource=cw)
    ps.ObjectiveMinimizeMakespan()
    return describe(pb)


if __name__ == "__main__":
    for fn in CASES:
        print("=" * 20, fn.__name__)
        try:
            print(fn())
        except Exception as exc:  # pylint: disable=broad-except
            print("  CASE RAISED %s: %s" % (type(exc).__name__, mask(str(exc))))
