"""Equivalence script for the refactoring of NamedUIDObject (base.py),
ZeroDurationTask (task.py) and SchedulingSolution (solution.py).

Run from the worktree root:  /venv/bin/python _twin/equiv.py
Prints a canonical description of the outcome of several small problems.
"""
import contextlib
import io
import os
import re
import sys

sys.path.insert(0, os.getcwd())

import z3  # noqa: E402

import processscheduler as ps  # noqa: E402
from processscheduler.base import NamedUIDObject  # noqa: E402
from processscheduler.solution import SchedulingSolution, TaskSolution  # noqa: E402

assert os.path.dirname(os.path.abspath(ps.__file__)).startswith(os.getcwd())

MASK = re.compile(r"\d{12,}|(?<=asst_)[0-9a-f]{8}|(?<=[A-Za-z]_)\d{8}\b")


def mask(text):
    return MASK.sub("<UID>", str(text))


def show(title, lines):
    print("=" * 70)
    print(title)
    print("-" * 70)
    for line in lines:
        print(mask(line))


def object_assertions(obj):
    """assertions stored on an object, in storage order, plus the hash bookkeeping"""
    out = [f"  [{i}] {a}" for i, a in enumerate(obj.get_z3_assertions())]
    hashes_ok = [hash(a) for a in obj._z3_assertions] == obj._z3_assertion_hashes
    out.append(f"  hashes consistent with assertions: {hashes_ok}")
    return out


def run(problem, tasks=(), **solver_args):
    """initialize + solve, return the lines describing everything observable"""
    lines = []
    for t in tasks:
        lines.append(f"task {t.name} ({type(t).__name__}) stored assertions:")
        lines.extend(object_assertions(t))
        lines.append(f"  release/due assertions: {t._release_due_assertions}")
        lines.append(f"  scheduled flag: {t._scheduled}")
    solver = ps.SchedulingSolver(problem=problem, **solver_args)
    sink = io.StringIO()
    try:
        with contextlib.redirect_stdout(sink):
            solution = solver.solve()
    except Exception as exc:  # noqa: BLE001
        lines.append(f"solve raised {type(exc).__name__}: {exc}")
        return lines
    lines.append("solver assertions (sorted):")
    # masked before sorting: in debug mode the tracking names are random
    lines.extend(
        sorted("  " + mask(" ".join(str(a).split())) for a in solver._solver.assertions())
    )
    if not solution:
        lines.append(f"solution: {solution!r}")
        return lines
    lines.append(f"horizon: {solution.horizon}")
    for name, ts in solution.tasks.items():
        lines.append(
            f"  {name}: start={ts.start} end={ts.end} duration={ts.duration} "
            f"scheduled={ts.scheduled} optional={ts.optional} release={ts.release_date} "
            f"due={ts.due_date} deadline={ts.due_date_is_deadline} res={ts.assigned_resources}"
        )
    lines.append(f"indicators: {solution.indicators}")
    lines.append(f"buffers: { {n: (b.level_change_times, b.level) for n, b in solution.buffers.items()} }")
    scheduled = solution.get_scheduled_tasks()
    lines.append(f"get_scheduled_tasks keys: {list(scheduled)}")
    lines.append(
        "get_scheduled_tasks values identical objects: "
        f"{all(scheduled[k] is solution.tasks[k] for k in scheduled)}"
    )
    frame = solution.to_df()
    lines.append("to_df:")
    lines.extend("  " + l for l in frame.to_string().splitlines())
    lines.append(f"to_df dtypes: {[(c, str(d)) for c, d in frame.dtypes.items()]}")
    lines.append(f"to_df columns: {list(frame.columns)} index: {list(frame.index)}")
    lines.append("to_csv:")
    lines.extend("  " + l for l in solution.to_csv(separator=";").splitlines())
    lines.append("str(solution):")
    lines.extend("  " + l for l in str(solution).splitlines())
    lines.append("json:")
    lines.extend("  " + l for l in solution.to_json(compact=True).splitlines())
    return lines


# ---------------------------------------------------------------------------
def case_1():
    """mandatory fixed duration tasks, release, deadline, due date that is no deadline"""
    pb = ps.SchedulingProblem(name="c1", horizon=12)
    t1 = ps.FixedDurationTask(name="t1", duration=3, release_date=2, due_date=9)
    t2 = ps.FixedDurationTask(
        name="t2", duration=4, release_date=0, due_date=5, due_date_is_deadline=False
    )
    t3 = ps.FixedDurationTask(name="t3", duration=1, due_date=1)
    w = ps.Worker(name="w1")
    for t in (t1, t2, t3):
        t.add_required_resource(w)
    return run(pb, (t1, t2, t3))


def case_2():
    """zero duration tasks, mandatory and optional, with release date / deadline, edge 0"""
    pb = ps.SchedulingProblem(name="c2", horizon=7)
    z1 = ps.ZeroDurationTask(name="z1")
    z2 = ps.ZeroDurationTask(name="z2", release_date=3, due_date=3)
    z3_ = ps.ZeroDurationTask(name="z3", release_date=0, due_date=0)
    z4 = ps.ZeroDurationTask(name="z4", optional=True, release_date=5, due_date=6)
    z5 = ps.ZeroDurationTask(name="z5", optional=True, release_date=9)
    ps.OptionalTaskForceSchedule(name="force_z4", task=z4, to_be_scheduled=True)
    ps.TaskPrecedence(name="prec", task_before=z2, task_after=z1, offset=2, kind="strict")
    return run(pb, (z1, z2, z3_, z4, z5))


def case_3():
    """variable duration tasks: min/max/allowed durations, optional, select workers"""
    pb = ps.SchedulingProblem(name="c3", horizon=20)
    v1 = ps.VariableDurationTask(name="v1", min_duration=2, max_duration=5, release_date=1)
    v2 = ps.VariableDurationTask(name="v2", allowed_durations=[3, 7], due_date=10)
    v3 = ps.VariableDurationTask(name="v3", optional=True, min_duration=0, work_amount=6)
    v4 = ps.VariableDurationTask(name="v4", optional=True, max_duration=4, release_date=4, due_date=6)
    wa = ps.Worker(name="wa", productivity=2)
    wb = ps.Worker(name="wb", productivity=3)
    v3.add_required_resource(ps.SelectWorkers(name="sel", list_of_workers=[wa, wb]))
    v1.add_required_resource(wa, dynamic=True)
    v2.add_required_resource(wb)
    ps.ForceScheduleNOptionalTasks(
        name="force2", list_of_optional_tasks=[v3, v4], nb_tasks_to_schedule=2
    )
    return run(pb, (v1, v2, v3, v4))


def case_4():
    """no horizon, makespan objective, mix of the three task kinds"""
    pb = ps.SchedulingProblem(name="c4")
    a = ps.FixedDurationTask(name="a", duration=2, release_date=3)
    b = ps.VariableDurationTask(name="b", min_duration=1, max_duration=3, due_date=12)
    c = ps.ZeroDurationTask(name="c", release_date=8)
    d = ps.FixedDurationTask(name="d", duration=5, optional=True, due_date=7)
    ps.TaskPrecedence(name="p_ab", task_before=a, task_after=b)
    ps.TaskPrecedence(name="p_bc", task_before=b, task_after=c)
    ps.ObjectiveMinimizeMakespan(name="mk")
    return run(pb, (a, b, c, d))


def case_5():
    """infeasible: the deadline is before release date + duration"""
    pb = ps.SchedulingProblem(name="c5", horizon=10)
    t = ps.FixedDurationTask(name="t", duration=4, release_date=3, due_date=6)
    z = ps.ZeroDurationTask(name="z", release_date=11)
    return run(pb, (t, z))


def case_6():
    """buffers, optional constraint, flowtime objective, optimize solver, cumulative worker"""
    pb = ps.SchedulingProblem(name="c6", horizon=15)
    t1 = ps.FixedDurationTask(name="t1", duration=3, release_date=1)
    t2 = ps.FixedDurationTask(name="t2", duration=2, due_date=14)
    t3 = ps.ZeroDurationTask(name="t3", due_date=13, release_date=2)
    buf = ps.NonConcurrentBuffer(name="buf", initial_level=5, lower_bound=0)
    ps.TaskUnloadBuffer(name="ul", task=t1, buffer=buf, quantity=3)
    ps.TaskLoadBuffer(name="ld", task=t2, buffer=buf, quantity=2)
    ps.TaskUnloadBuffer(name="ul3", task=t3, buffer=buf, quantity=4)
    cw = ps.CumulativeWorker(name="cw", size=2)
    t1.add_required_resource(cw)
    t2.add_required_resource(cw)
    ps.TaskStartAt(name="opt_start", task=t2, value=6, optional=True)
    ps.ObjectiveMinimizeFlowtime(name="ft")
    return run(pb, (t1, t2, t3), optimizer="optimize")


def case_7():
    """debug mode (assert_and_track), zero duration optional task not forced"""
    pb = ps.SchedulingProblem(name="c7", horizon=4)
    z = ps.ZeroDurationTask(name="z", optional=True, due_date=2)
    f = ps.FixedDurationTask(name="f", duration=4)
    ps.TasksDontOverlap(name="no_ov", task_1=z, task_2=f)
    return run(pb, (z, f), debug=True)


def case_8():
    """the assertion store of NamedUIDObject: duplicates, lists, partial storage"""
    pb = ps.SchedulingProblem(name="c8", horizon=5)
    lines = []
    x, y = z3.Ints("x y")
    obj = ps.FixedDurationTask(name="holder", duration=1)
    lines.append(f"append returns {obj.append_z3_assertion(x > 0)!r}")
    try:
        obj.append_z3_assertion(x > 0)
    except Exception as exc:  # noqa: BLE001
        lines.append(f"duplicate: {type(exc).__name__}: {exc}")
    lines.extend(object_assertions(obj))
    try:
        lines.append(f"list returns {obj.append_z3_list_of_assertions([y > 1, x + y == 3, y > 1, y > 7])!r}")
    except Exception as exc:  # noqa: BLE001
        lines.append(f"list with duplicate: {type(exc).__name__}: {exc}")
    lines.extend(object_assertions(obj))
    lines.append(f"empty list returns {obj.append_z3_list_of_assertions([])!r}")
    lines.append(f"generator returns {obj.append_z3_list_of_assertions(c for c in [y > 7])!r}")
    for bad in ([x > 5], None, True, True, "text"):
        try:
            lines.append(f"append {bad!r} returns {obj.append_z3_assertion(bad)!r}")
        except Exception as exc:  # noqa: BLE001
            lines.append(f"append {bad!r}: {type(exc).__name__}: {exc}")
    try:
        obj.append_z3_list_of_assertions(None)
    except Exception as exc:  # noqa: BLE001
        lines.append(f"append list None: {type(exc).__name__}: {exc}")
    lines.extend(object_assertions(obj))
    # the same on the problem itself and on a constraint
    lines.append(f"problem append {pb.append_z3_assertion(x < 4)!r}")
    try:
        pb.append_z3_list_of_assertions([x < 4])
    except Exception as exc:  # noqa: BLE001
        lines.append(f"problem duplicate: {type(exc).__name__}: {exc}")
    lines.extend(object_assertions(pb))
    cstr = ps.ConstraintFromExpression(name="cfe", expression=y <= 9)
    try:
        cstr.set_z3_assertions(y <= 9)
    except Exception as exc:  # noqa: BLE001
        lines.append(f"constraint duplicate: {type(exc).__name__}: {exc}")
    lines.extend(object_assertions(cstr))
    lines.append(
        "helper names on NamedUIDObject not shadowing public ones: "
        f"{sorted(n for n in vars(NamedUIDObject) if n.startswith('append') or n.startswith('get'))}"
    )
    lines.append(f"private attributes: {sorted(NamedUIDObject.__private_attributes__)}")
    return lines


def case_9():
    """SchedulingSolution built by hand: no task, unscheduled tasks, tardy values, key != name"""
    pb = ps.SchedulingProblem(name="c9", horizon=3)
    lines = []
    sol = SchedulingSolution(problem=pb)
    frame = sol.to_df()
    lines.append(f"empty to_df shape {frame.shape} columns {list(frame.columns)}")
    lines.append(f"empty dtypes {[(c, str(d)) for c, d in frame.dtypes.items()]}")
    lines.append(f"empty csv {sol.to_csv()!r}")
    lines.append(f"empty scheduled {sol.get_scheduled_tasks()!r}")
    a = TaskSolution(name="a", start=4, end=6, duration=2, due_date=1, scheduled=True,
                     assigned_resources=["r1", "r2"])
    b = TaskSolution(name="b", start=-2, end=-2, duration=0, scheduled=False, optional=True)
    c = TaskSolution(name="c", start=0, end=0, duration=0, due_date=0, scheduled=True)
    sol.add_task_solution(b)
    sol.add_task_solution(a)
    sol.tasks["alias_of_c"] = c
    frame = sol.to_df()
    lines.extend("  " + l for l in frame.to_string().splitlines())
    lines.append(f"dtypes {[(c_, str(d)) for c_, d in frame.dtypes.items()]}")
    lines.append(f"tardy python types {[type(v).__name__ for v in frame['Tardy']]}")
    lines.append(
        f"resources are the same list objects {frame['Allocated Resources'][1] is a.assigned_resources}"
    )
    lines.append(f"csv {sol.to_csv()!r}")
    scheduled = sol.get_scheduled_tasks()
    lines.append(f"scheduled {[(k, v.name) for k, v in scheduled.items()]} type {type(scheduled).__name__}")
    lines.append(f"str {str(sol)!r}")
    return lines


if __name__ == "__main__":
    for case in (case_1, case_2, case_3, case_4, case_5, case_6, case_7, case_8, case_9):
        try:
            result = case()
        except Exception as exc:  # noqa: BLE001
            result = [f"CASE RAISED {type(exc).__name__}: {exc}"]
        show(f"{case.__name__}: {case.__doc__}", result)
