"""Equivalence script for the C07 refactoring (objective.py: ObjectiveTasksStartLatest,
ObjectiveMinimizeGreatestStartTime, ObjectiveMinimizeFlowtime and the helpers they share).

Run from the worktree:  cd /tmp/t5_C07 && /venv/bin/python _twin/equiv.py
Prints a canonical description of each case; the output must be the same with and
without the patch."""
import contextlib
import io
import os
import re
import sys

sys.path.insert(0, os.getcwd())

import z3  # noqa: E402
import processscheduler as ps  # noqa: E402
import processscheduler.base  # noqa: E402

assert os.path.abspath(ps.__file__).startswith(os.getcwd()), ps.__file__

MASK = re.compile(r"[0-9a-f]{32}")


def mask(text):
    return MASK.sub("<uid>", str(text))


def describe_problem(problem):
    """indicators and objectives in registration order, with their assertions in order"""
    print("  indicators:")
    for name, indic in problem.indicators.items():
        print(f"    {name} var={indic._indicator_variable} bounds={indic.bounds}")
        for asst in indic.get_z3_assertions():
            print("      " + mask(asst).replace("\n", " "))
    print("  objectives:")
    for name, obj in problem.objectives.items():
        tgt = obj.target.name if isinstance(obj.target, ps.Indicator) else obj.target
        print(
            f"    {name} type={obj.type} kind={obj.kind} weight={obj.weight} "
            f"target={tgt} _target={obj._target} _bounds={obj._bounds}"
        )


def solve(problem, **solver_args):
    buf = io.StringIO()
    try:
        with contextlib.redirect_stdout(buf):
            solver = ps.SchedulingSolver(problem=problem, **solver_args)
            solution = solver.solve()
    except Exception as exc:  # pylint: disable=broad-except
        print(f"  solve{solver_args}: raised {type(exc).__name__}: {mask(exc)}")
        return
    assts = sorted(mask(a).replace("\n", " ") for a in solver._solver.assertions())
    print(f"  solve{solver_args}: {len(assts)} solver assertions")
    for a in assts:
        print("      | " + a)
    if not solution:
        print(f"    -> no solution ({solution!r})")
        return
    print(f"    -> horizon={solution.horizon} indicators={dict(solution.indicators)}")
    for name in sorted(solution.tasks):
        t = solution.tasks[name]
        print(f"       {name}: start={t.start} end={t.end} scheduled={t.scheduled}")


def attempt(label, func):
    try:
        obj = func()
    except Exception as exc:  # pylint: disable=broad-except
        print(f"  {label}: raised {type(exc).__name__}: {mask(exc)}")
        return None
    print(f"  {label}: ok name={obj.name} kind={obj.kind} weight={obj.weight}")
    return obj


def case(title):
    print("=" * 70)
    print(title)


# ---------------------------------------------------------------------------
case("1. start latest, all tasks, fixed horizon, both optimizers")
pb = ps.SchedulingProblem(name="c1", horizon=51)
t1 = ps.FixedDurationTask(name="t1", duration=2)
t2 = ps.FixedDurationTask(name="t2", duration=3)
ps.TaskPrecedence(task_before=t1, task_after=t2)
attempt("ObjectiveTasksStartLatest()", ps.ObjectiveTasksStartLatest)
describe_problem(pb)
solve(pb)
solve(pb, optimizer="optimize")

case("2. start latest on a sub list holding an optional task; list_of_tasks=None; ignored kwargs")
pb = ps.SchedulingProblem(name="c2", horizon=20)
t1 = ps.FixedDurationTask(name="t1", duration=4)
t2 = ps.FixedDurationTask(name="t2", duration=3, optional=True)
t3 = ps.ZeroDurationTask(name="t3")
ps.TaskEndBefore(task=t1, value=9)
attempt(
    "StartLatest(list_of_tasks=[t1, t2], weight=3, name='zzz')",
    lambda: ps.ObjectiveTasksStartLatest(list_of_tasks=[t1, t2], weight=3, name="zzz"),
)
describe_problem(pb)
solve(pb)
solve(pb, optimizer="optimize")
pb = ps.SchedulingProblem(name="c2b", horizon=20)
t1 = ps.FixedDurationTask(name="t1", duration=4)
t3 = ps.ZeroDurationTask(name="t3")
attempt(
    "StartLatest(list_of_tasks=None)",
    lambda: ps.ObjectiveTasksStartLatest(list_of_tasks=None),
)
describe_problem(pb)
solve(pb)

case("3. errors: empty list, problem without task, duplicates, twice the same objective")
pb = ps.SchedulingProblem(name="c3")
attempt("StartLatest() without task", ps.ObjectiveTasksStartLatest)
describe_problem(pb)
attempt("GreatestStartTime() without task", ps.ObjectiveMinimizeGreatestStartTime)
describe_problem(pb)
attempt("Flowtime() without task", ps.ObjectiveMinimizeFlowtime)
describe_problem(pb)
solve(pb)
pb = ps.SchedulingProblem(name="c3b")
t1 = ps.FixedDurationTask(name="t1", duration=1)
attempt("StartLatest(list_of_tasks=[])", lambda: ps.ObjectiveTasksStartLatest(list_of_tasks=[]))
attempt(
    "GreatestStartTime(list_of_tasks=())",
    lambda: ps.ObjectiveMinimizeGreatestStartTime(list_of_tasks=()),
)
attempt("Flowtime(list_of_tasks=[])", lambda: ps.ObjectiveMinimizeFlowtime(list_of_tasks=[]))
describe_problem(pb)
pb = ps.SchedulingProblem(name="c3c")
t1 = ps.FixedDurationTask(name="t1", duration=1)
attempt(
    "GreatestStartTime(list_of_tasks=[t1, t1])",
    lambda: ps.ObjectiveMinimizeGreatestStartTime(list_of_tasks=[t1, t1]),
)
attempt(
    "StartLatest(list_of_tasks=[t1, t1])",
    lambda: ps.ObjectiveTasksStartLatest(list_of_tasks=[t1, t1]),
)
attempt(
    "Flowtime(list_of_tasks=[t1, t1])",
    lambda: ps.ObjectiveMinimizeFlowtime(list_of_tasks=[t1, t1]),
)
attempt("Flowtime() again", ps.ObjectiveMinimizeFlowtime)
attempt("StartLatest() again", ps.ObjectiveTasksStartLatest)
attempt("StartLatest(list_of_tasks=[1, 2])", lambda: ps.ObjectiveTasksStartLatest(list_of_tasks=[1, 2]))
attempt("Flowtime(list_of_tasks=3)", lambda: ps.ObjectiveMinimizeFlowtime(list_of_tasks=3))
describe_problem(pb)

case("4. minimize greatest start time, all tasks / generator of tasks, free horizon")
pb = ps.SchedulingProblem(name="c4")
t1 = ps.FixedDurationTask(name="t1", duration=2)
t2 = ps.FixedDurationTask(name="t2", duration=3)
t3 = ps.VariableDurationTask(name="t3", min_duration=0, max_duration=4)
ps.TaskPrecedence(task_before=t2, task_after=t1)
ps.TaskStartAt(task=t2, value=8)
attempt("GreatestStartTime()", ps.ObjectiveMinimizeGreatestStartTime)
describe_problem(pb)
solve(pb)
solve(pb, optimizer="optimize")
pb = ps.SchedulingProblem(name="c4b")
t1 = ps.FixedDurationTask(name="t1", duration=2)
t2 = ps.FixedDurationTask(name="t2", duration=3)
t3 = ps.FixedDurationTask(name="t3", duration=1, optional=True)
w = ps.Worker(name="w")
for t in (t1, t2, t3):
    t.add_required_resource(w)
ps.TaskStartAfter(task=t3, value=20)
attempt(
    "GreatestStartTime(list_of_tasks=<generator t1 t2>)",
    lambda: ps.ObjectiveMinimizeGreatestStartTime(list_of_tasks=(t for t in (t1, t2))),
)
describe_problem(pb)
solve(pb)
solve(pb, optimizer="optimize")

case("5. flowtime with optional, zero duration and mandatory tasks; sub list; empty list solved")
pb = ps.SchedulingProblem(name="c5", horizon=12)
t1 = ps.FixedDurationTask(name="t1", duration=3)
t2 = ps.FixedDurationTask(name="t2", duration=2, optional=True)
t3 = ps.ZeroDurationTask(name="t3")
t4 = ps.VariableDurationTask(name="t4", min_duration=1, optional=True)
w = ps.Worker(name="w")
for t in (t1, t2, t4):
    t.add_required_resource(w)
ps.ForceScheduleNOptionalTasks(list_of_optional_tasks=[t2, t4], nb_tasks_to_schedule=1)
ps.TaskStartAfter(task=t3, value=1)
attempt("Flowtime()", ps.ObjectiveMinimizeFlowtime)
describe_problem(pb)
solve(pb)
solve(pb, optimizer="optimize")
pb = ps.SchedulingProblem(name="c5b", horizon=12)
t1 = ps.FixedDurationTask(name="t1", duration=3)
t2 = ps.FixedDurationTask(name="t2", duration=2, optional=True)
t3 = ps.FixedDurationTask(name="t3", duration=5)
ps.TaskPrecedence(task_before=t3, task_after=t1)
attempt(
    "Flowtime(list_of_tasks=[t2, t1])",
    lambda: ps.ObjectiveMinimizeFlowtime(list_of_tasks=[t2, t1]),
)
describe_problem(pb)
solve(pb)
solve(pb, optimizer="optimize")
pb = ps.SchedulingProblem(name="c5c", horizon=6)
t1 = ps.FixedDurationTask(name="t1", duration=3)
attempt("Flowtime(list_of_tasks=[])", lambda: ps.ObjectiveMinimizeFlowtime(list_of_tasks=[]))
describe_problem(pb)
solve(pb)

case("6. several objectives of the same direction (weighted sum), both optimizers")
def build_c6(name):
    pb6 = ps.SchedulingProblem(name=name, horizon=30)
    a = ps.FixedDurationTask(name="t1", duration=3)
    b = ps.FixedDurationTask(name="t2", duration=4)
    c = ps.FixedDurationTask(name="t3", duration=2, optional=True)
    w6 = ps.Worker(name="w")
    for t6 in (a, b, c):
        t6.add_required_resource(w6)
    ps.TaskStartAfter(task=a, value=2)
    attempt("Flowtime()", ps.ObjectiveMinimizeFlowtime)
    attempt(
        "GreatestStartTime([t1, t2])",
        lambda: ps.ObjectiveMinimizeGreatestStartTime(list_of_tasks=[a, b]),
    )
    attempt("Makespan()", ps.ObjectiveMinimizeMakespan)
    describe_problem(pb6)
    return pb6


solve(build_c6("c6a"))
solve(build_c6("c6b"), optimizer="optimize", optimize_priority="weight")
pb = build_c6("c6c")
solve(pb, optimizer="optimize", optimize_priority="lex")
solve(pb)  # second solver on the same problem: the equivalent indicator exists already

case("7. early stop: max_iter on the incremental optimizer")
for max_iter in (1, 2, 50):
    pb = ps.SchedulingProblem(name=f"c7_{max_iter}", horizon=40)
    tasks = [ps.FixedDurationTask(name=f"t{i}", duration=i + 1) for i in range(4)]
    w = ps.Worker(name="w")
    for t in tasks:
        t.add_required_resource(w)
    attempt("StartLatest(tasks[1:])", lambda: ps.ObjectiveTasksStartLatest(list_of_tasks=tasks[1:]))
    solve(pb, max_iter=max_iter)

case("8. no active problem")
processscheduler.base.active_problem = None
attempt("StartLatest()", ps.ObjectiveTasksStartLatest)
attempt("GreatestStartTime()", ps.ObjectiveMinimizeGreatestStartTime)
attempt("Flowtime()", ps.ObjectiveMinimizeFlowtime)
attempt("StartLatest([t1])", lambda: ps.ObjectiveTasksStartLatest(list_of_tasks=[t1]))
attempt("GreatestStartTime([t1])", lambda: ps.ObjectiveMinimizeGreatestStartTime(list_of_tasks=[t1]))
attempt("Flowtime([t1])", lambda: ps.ObjectiveMinimizeFlowtime(list_of_tasks=[t1]))
attempt("Flowtime([])", lambda: ps.ObjectiveMinimizeFlowtime(list_of_tasks=[]))
