"""Equivalence script for the refactoring of SchedulingSolver.build_solution,
util.sort_no_duplicates and util.clean_buffer_levels.

Prints a canonical description of the outcome of several small problems.
Run from the worktree root: cd /tmp/t6_C08 && /venv/bin/python _twin/equiv.py
"""
import io
import os
import re
import sys
import contextlib
from datetime import datetime, timedelta

sys.path.insert(0, os.getcwd())

import z3  # noqa: E402
import processscheduler as ps  # noqa: E402
from processscheduler.util import sort_no_duplicates, clean_buffer_levels  # noqa: E402

assert os.path.dirname(os.path.abspath(ps.__file__)).startswith(os.getcwd()), ps.__file__

UUID_RE = re.compile(r"[0-9a-f]{8}-?[0-9a-f]{4}-?[0-9a-f]{4}-?[0-9a-f]{4}-?[0-9a-f]{12}")
HEX8_RE = re.compile(r"_[0-9a-f]{8}\b")


def mask(text):
    text = UUID_RE.sub("<uuid>", text)
    return HEX8_RE.sub("_<id>", text)


def describe_solution(solution):
    lines = []
    if not solution:
        return ["NO SOLUTION: %r" % (solution,)]
    lines.append("horizon=%r" % solution.horizon)
    for name in sorted(solution.tasks):
        t = solution.tasks[name]
        lines.append(
            "task %s type=%s start=%r end=%r duration=%r optional=%r scheduled=%r(%s) "
            "release=%r due=%r deadline=%r work=%r prio=%r start_time=%r end_time=%r "
            "duration_time=%r assigned=%r"
            % (
                name,
                t.type,
                t.start,
                t.end,
                t.duration,
                t.optional,
                t.scheduled,
                type(t.scheduled).__name__,
                t.release_date,
                t.due_date,
                t.due_date_is_deadline,
                t.work_amount,
                t.priority,
                t.start_time,
                t.end_time,
                t.duration_time,
                t.assigned_resources,
            )
        )
    for name in solution.resources:  # keep insertion order: it is part of the outcome
        r = solution.resources[name]
        lines.append("resource %s type=%s assignments=%r" % (name, r.type, r.assignments))
    for name in solution.buffers:
        b = solution.buffers[name]
        lines.append(
            "buffer %s level=%r change_times=%r" % (name, b.level, b.level_change_times)
        )
    for name in solution.indicators:
        v = solution.indicators[name]
        lines.append("indicator %s=%r(%s)" % (name, v, type(v).__name__))
    return lines


def run(title, builder, with_assertions=False, **solver_args):
    print("=" * 70)
    print("CASE", title)
    try:
        with contextlib.redirect_stdout(io.StringIO()):
            problem = builder()
            solver = ps.SchedulingSolver(problem=problem, **solver_args)
            solution = solver.solve()
        for line in describe_solution(solution):
            print(mask(line))
        if with_assertions:
            print("-- assertions")
            for a in sorted(mask(str(a)) for a in solver._solver.assertions()):
                print(a)
    except Exception as exc:  # the error is part of the outcome
        print("ERROR %s: %s" % (type(exc).__name__, mask(str(exc))))


# ----------------------------------------------------------------------------
# 1. mandatory tasks, one worker, utilisation / nb tasks / cost, no calendar
def case_basic():
    pb = ps.SchedulingProblem(name="basic", horizon=10)
    w = ps.Worker(name="W", cost=ps.ConstantFunction(value=3))
    t1 = ps.FixedDurationTask(name="T1", duration=3)
    t2 = ps.FixedDurationTask(name="T2", duration=2)
    t1.add_required_resource(w)
    t2.add_required_resource(w)
    ps.TaskStartAt(task=t1, value=1)
    ps.TaskStartAt(task=t2, value=6)
    ps.IndicatorResourceUtilization(resource=w)
    ps.IndicatorNumberTasksAssigned(resource=w)
    ps.IndicatorResourceCost(list_of_resources=[w])
    ps.IndicatorResourceIdle(resource=w)
    return pb


# 2. calendar with start_time: optional tasks (scheduled and not), variable and zero
def case_calendar(with_origin=True, delta=timedelta(minutes=15)):
    def build():
        kwargs = {"delta_time": delta}
        if with_origin:
            kwargs["start_time"] = datetime(2024, 1, 1, 8, 0)
        pb = ps.SchedulingProblem(name="calendar", horizon=12, **kwargs)
        w = ps.Worker(name="W")
        t_opt_no = ps.FixedDurationTask(name="OptNo", duration=4, optional=True)
        t_opt_yes = ps.FixedDurationTask(name="OptYes", duration=2, optional=True)
        t_var = ps.VariableDurationTask(
            name="Var", min_duration=1, max_duration=5, due_date=11, due_date_is_deadline=False
        )
        t_zero = ps.ZeroDurationTask(name="Zero")
        t_fix = ps.FixedDurationTask(
            name="Fix", duration=3, due_date=4, due_date_is_deadline=False, priority=2
        )
        for t in (t_opt_no, t_opt_yes, t_var, t_fix):
            t.add_required_resource(w)
        ps.OptionalTaskForceSchedule(task=t_opt_no, to_be_scheduled=False)
        ps.ForceScheduleNOptionalTasks(
            list_of_optional_tasks=[t_opt_yes], nb_tasks_to_schedule=1
        )
        ps.TaskStartAt(task=t_opt_yes, value=0)
        ps.TaskStartAt(task=t_fix, value=2)
        ps.TaskStartAt(task=t_var, value=5)
        ps.TaskEndAt(task=t_var, value=9)
        ps.TaskStartAt(task=t_zero, value=11)
        due = [t_fix, t_var]
        ps.IndicatorTardiness(list_of_tasks=due)
        ps.IndicatorEarliness(list_of_tasks=due)
        ps.IndicatorNumberOfTardyTasks(list_of_tasks=due)
        ps.IndicatorMaximumLateness(list_of_tasks=due)
        ps.IndicatorResourceUtilization(resource=w)
        ps.IndicatorNumberTasksAssigned(resource=w)
        return pb

    return build


# 3. idle indicator: a worker with one task, a worker with three, optional task
def case_idle():
    pb = ps.SchedulingProblem(name="idle", horizon=20)
    w1 = ps.Worker(name="W1")
    w3 = ps.Worker(name="W3")
    only = ps.FixedDurationTask(name="Only", duration=2)
    only.add_required_resource(w1)
    ps.TaskStartAt(task=only, value=3)
    a = ps.FixedDurationTask(name="A", duration=2)
    b = ps.FixedDurationTask(name="B", duration=3)
    c = ps.FixedDurationTask(name="C", duration=1, optional=True)
    for t in (a, b, c):
        t.add_required_resource(w3)
    ps.TaskStartAt(task=a, value=10)
    ps.TaskStartAt(task=b, value=1)
    ps.ForceScheduleNOptionalTasks(list_of_optional_tasks=[c], nb_tasks_to_schedule=1)
    ps.TaskStartAt(task=c, value=6)
    ps.IndicatorResourceIdle(resource=w1)
    ps.IndicatorResourceIdle(resource=w3)
    ps.IndicatorResourceUtilization(resource=w3)
    return pb


# 4. buffers with level extrema, concurrent loading at the same instant
def case_buffers():
    pb = ps.SchedulingProblem(name="buffers", horizon=12)
    b1 = ps.NonConcurrentBuffer(name="B1", initial_level=10)
    b2 = ps.ConcurrentBuffer(name="B2", initial_level=0)
    t1 = ps.FixedDurationTask(name="T1", duration=2)
    t2 = ps.FixedDurationTask(name="T2", duration=2)
    t3 = ps.FixedDurationTask(name="T3", duration=3)
    ps.TaskStartAt(task=t1, value=1)
    ps.TaskStartAt(task=t2, value=1)
    ps.TaskStartAt(task=t3, value=5)
    ps.TaskUnloadBuffer(task=t1, buffer=b1, quantity=4)
    ps.TaskUnloadBuffer(task=t3, buffer=b1, quantity=5)
    ps.TaskLoadBuffer(task=t1, buffer=b2, quantity=3)
    ps.TaskLoadBuffer(task=t2, buffer=b2, quantity=2)
    ps.TaskLoadBuffer(task=t3, buffer=b2, quantity=1)
    ps.IndicatorMaxBufferLevel(buffer=b1)
    ps.IndicatorMinBufferLevel(buffer=b1)
    ps.IndicatorMaxBufferLevel(buffer=b2)
    ps.IndicatorMinBufferLevel(buffer=b2)
    return pb


# 5. cumulative worker, worker selection, math expression, target and bounds
def case_cumulative_select(cw_cost=None):
    pb = ps.SchedulingProblem(name="cumul", horizon=8)
    cw = ps.CumulativeWorker(
        name="CW", size=2, cost=cw_cost if cw_cost else ps.ConstantFunction(value=4)
    )
    wa = ps.Worker(name="WA", cost=ps.ConstantFunction(value=5))
    wb = ps.Worker(name="WB", cost=ps.ConstantFunction(value=0))
    t1 = ps.FixedDurationTask(name="T1", duration=3)
    t2 = ps.FixedDurationTask(name="T2", duration=3)
    t3 = ps.FixedDurationTask(name="T3", duration=2)
    t1.add_required_resource(cw)
    t2.add_required_resource(cw)
    t3.add_required_resource(ps.SelectWorkers(list_of_workers=[wa, wb], nb_workers_to_select=1))
    ps.TaskStartAt(task=t1, value=0)
    ps.TaskStartAt(task=t2, value=1)
    ps.TaskStartAt(task=t3, value=4)
    ps.IndicatorResourceUtilization(resource=cw)
    ps.IndicatorNumberTasksAssigned(resource=cw)
    cost = ps.IndicatorResourceCost(list_of_resources=[wa, wb])
    ps.IndicatorTarget(indicator=cost, value=0)
    expr = ps.IndicatorFromMathExpression(
        name="expr", expression=t1._end + 2 * t3._start, bounds=(0, 100)
    )
    ps.IndicatorBounds(indicator=expr, lower_bound=0, upper_bound=50)
    ps.IndicatorFromMathExpression(name="zero", expression=0)
    return pb


# 6. optimisation without declared horizon: makespan / flowtime, horizon from the model
def case_objective(objective):
    def build():
        pb = ps.SchedulingProblem(name="obj_" + objective)
        w = ps.Worker(name="W")
        tasks = [
            ps.FixedDurationTask(
                name="T%d" % i,
                duration=d,
                priority=i + 1,
                due_date=3,
                due_date_is_deadline=False,
            )
            for i, d in enumerate((2, 1, 3))
        ]
        for t in tasks:
            t.add_required_resource(w)
        ps.TaskPrecedence(task_before=tasks[0], task_after=tasks[1])
        ps.TaskPrecedence(task_before=tasks[1], task_after=tasks[2])
        ps.IndicatorTardiness()
        ps.IndicatorNumberOfTardyTasks()
        getattr(ps, objective)()
        return pb

    return build


# 7. constraints that sort: non delay and contiguous over one / several tasks
def case_sorting_constraints(nb_tasks):
    def build():
        pb = ps.SchedulingProblem(name="sort%d" % nb_tasks, horizon=15)
        w = ps.Worker(name="W")
        tasks = []
        for i in range(nb_tasks):
            t = ps.FixedDurationTask(name="T%d" % i, duration=i + 1)
            t.add_required_resource(w)
            tasks.append(t)
        ps.ResourceNonDelay(resource=w)
        ps.TasksContiguous(list_of_tasks=tasks)
        ps.IndicatorResourceIdle(resource=w)
        ps.TaskStartAt(task=tasks[0], value=2)
        return pb

    return build


# 8. an unsatisfiable indicator target
def case_unsat_target():
    pb = ps.SchedulingProblem(name="unsat", horizon=5)
    w = ps.Worker(name="W")
    t = ps.FixedDurationTask(name="T", duration=5)
    t.add_required_resource(w)
    ind = ps.IndicatorResourceUtilization(resource=w)
    ps.IndicatorTarget(indicator=ind, value=50)
    return pb


def direct_util_calls():
    print("=" * 70)
    print("CASE direct util calls")
    for n in (0, 1, 2, 4):
        values = [z3.Int("v%d_%d" % (n, i)) for i in range(n)]
        before = list(values)
        sorted_vars, constraints = sort_no_duplicates(values)
        print(
            "sort_no_duplicates n=%d -> %d vars, %d constraints, input untouched=%r"
            % (n, len(sorted_vars), len(constraints), all(x is y for x, y in zip(values, before)))
        )
        # fresh names are numbered by a process-wide counter: print them relative
        names = {str(v): "s%d" % i for i, v in enumerate(sorted_vars)}
        for c in constraints:
            text = str(c)
            for name, alias in sorted(names.items(), key=lambda kv: -len(kv[0])):
                text = text.replace(name, alias)
            print("   ", " ".join(text.split()))
        if n:
            s = z3.Solver()
            s.add(constraints)
            s.add([v == 10 - 3 * i for i, v in enumerate(values)])
            print("    check:", s.check(), [s.model()[v].as_long() for v in sorted_vars])
    # python ints and a tuple as input
    sorted_vars, constraints = sort_no_duplicates((7, 3, 5))
    s = z3.Solver()
    s.add(constraints)
    print("sort_no_duplicates ints:", s.check(), [s.model()[v].as_long() for v in sorted_vars])
    # equal values: no strict order exists
    x, y = z3.Ints("x y")
    sorted_vars, constraints = sort_no_duplicates([x, y])
    s = z3.Solver()
    s.add(constraints)
    s.add(x == 1, y == 1)
    print("sort_no_duplicates equal values:", s.check())

    for levels, times in (
        ([100, 21, 21, 21], [7, 7, 7]),
        ([0], []),
        ([5, 4, 3, 2], [1, 2, 3]),
        ([5, 4, 3, 2, 9, 9], [1, 2, 1, 0, 2]),
        ([1, 2, 3], [1, 2, 3]),
        ([], []),
        ([1.5, 2.5, 3.5], [float("nan"), float("nan")]),
    ):
        levels_in, times_in = list(levels), list(times)
        try:
            result = clean_buffer_levels(levels_in, times_in)
            print("clean_buffer_levels%r -> %r ; inputs now %r %r" % ((levels, times), result, levels_in, times_in))
        except Exception as exc:
            print("clean_buffer_levels%r -> ERROR %s: %s ; inputs now %r %r"
                  % ((levels, times), type(exc).__name__, exc, levels_in, times_in))


if __name__ == "__main__":
    run("1 basic mandatory", case_basic, with_assertions=True)
    run("2a calendar with origin", case_calendar(True))
    run("2b calendar without origin", case_calendar(False))
    run("2c calendar delta zero", case_calendar(True, timedelta(0)))
    run("3 idle one task / three tasks", case_idle, with_assertions=True)
    run("4 buffers", case_buffers)
    run("5 cumulative, selection, expression, target, bounds", case_cumulative_select)
    run(
        "5b cumulative worker with a linear cost (refused)",
        lambda: case_cumulative_select(ps.LinearFunction(slope=1, intercept=2)),
    )
    run("6a makespan, no horizon", case_objective("ObjectiveMinimizeMakespan"))
    run("6b flowtime, no horizon", case_objective("ObjectiveMinimizeFlowtime"))
    run("6c makespan with optimize", case_objective("ObjectiveMinimizeMakespan"), optimizer="optimize")
    run("7a sorting constraints, one task", case_sorting_constraints(1), with_assertions=True)
    run("7b sorting constraints, three tasks", case_sorting_constraints(3), with_assertions=True)
    run("8 unsatisfiable target", case_unsat_target)
    direct_util_calls()
