"""Equivalence script for the C11 refactoring (excel_io helpers, get_scheduled_tasks).

Prints a canonical description of: the colours computed from strings, the solution
of several small problems, get_scheduled_tasks(), and the full content of the Excel
workbooks written with and without colours (every xml part except the creation
date of docProps/core.xml), plus the sequence of worksheet calls recorded with a
fake xlsxwriter module.
"""
import os
import sys

sys.path.insert(0, os.getcwd())

import hashlib
import re
import tempfile
import zipfile

import processscheduler as ps
import processscheduler.excel_io as excel_io
from processscheduler.excel_io import (
    _get_color_from_string,
    export_solution_to_excel_file,
)


def section(title):
    print("=" * 10, title)


#
# 1. colours
#
section("colours")
strings = ["", "a", "b", "t", "T1", "W1", "W1,W2", "task_1", "é", "CumulW_CumulativeWorker_1"]
# strings whose crc32 is a small number are the edge: search some
from binascii import crc32

short = []
for n in range(200000):
    txt = f"s{n}"
    if len(str(crc32(txt.encode("utf-8")))) < 8:
        short.append(txt)
    if len(short) >= 12:
        break
strings += short
for txt in strings:
    print(repr(txt), _get_color_from_string(txt, True), _get_color_from_string(txt, False))
# non-bool flags
for flag in (0, 1, None, "yes", ""):
    print(repr(flag), _get_color_from_string("abc", flag))
try:
    _get_color_from_string(None, True)
except Exception as exc:
    print("error", type(exc).__name__, exc)
print("None without colours", _get_color_from_string(None, False))


#
# 2. problems
#
def pb_fixed_single_worker():
    pb = ps.SchedulingProblem(name="FixedSingle", horizon=10)
    t0 = ps.ZeroDurationTask(name="T0")
    t1 = ps.FixedDurationTask(name="T1", duration=1)
    t2 = ps.FixedDurationTask(name="T2", duration=2)
    t3 = ps.FixedDurationTask(name="T3", duration=3)
    w = ps.Worker(name="W1")
    for t in (t0, t1, t2, t3):
        t.add_required_resource(w)
    ps.TaskStartAt(task=t0, value=0)
    ps.TaskStartAt(task=t1, value=0)
    ps.TaskStartAt(task=t2, value=1)
    ps.TaskStartAt(task=t3, value=5)
    return pb


def pb_optional():
    pb = ps.SchedulingProblem(name="Optional", horizon=8)
    t1 = ps.FixedDurationTask(name="Mand", duration=3)
    t2 = ps.FixedDurationTask(name="OptYes", duration=2, optional=True)
    # longer than the horizon: cannot be scheduled
    t3 = ps.FixedDurationTask(name="OptNo", duration=9, optional=True)
    w = ps.Worker(name="W1")
    w2 = ps.Worker(name="W2")
    t1.add_required_resource(w)
    t2.add_required_resource(w)
    t3.add_required_resource(w2)
    ps.TaskStartAt(task=t1, value=0)
    ps.TaskStartAt(task=t2, value=4)
    ps.ForceScheduleNOptionalTasks(list_of_optional_tasks=[t2], nb_tasks_to_schedule=1)
    return pb


def pb_cumulative():
    pb = ps.SchedulingProblem(name="Cumulative", horizon=6)
    cw = ps.CumulativeWorker(name="CumulW", size=2)
    t1 = ps.FixedDurationTask(name="A", duration=3)
    t2 = ps.FixedDurationTask(name="B", duration=3)
    t3 = ps.FixedDurationTask(name="C", duration=1)
    for t in (t1, t2, t3):
        t.add_required_resource(cw)
    ps.TaskStartAt(task=t1, value=0)
    ps.TaskStartAt(task=t2, value=0)
    ps.TaskStartAt(task=t3, value=4)
    return pb


def pb_cumulative_sequential():
    """a cumulative worker whose tasks do not overlap: the workbook can be written"""
    pb = ps.SchedulingProblem(name="CumulativeSeq", horizon=6)
    cw = ps.CumulativeWorker(name="CumulW", size=3)
    t1 = ps.FixedDurationTask(name="A", duration=3)
    t2 = ps.FixedDurationTask(name="B", duration=2)
    t3 = ps.ZeroDurationTask(name="C")
    t1.add_required_resource(cw)
    t2.add_required_resource(cw)
    t3.add_required_resource(cw)
    ps.TaskStartAt(task=t1, value=0)
    ps.TaskStartAt(task=t2, value=3)
    ps.TaskStartAt(task=t3, value=5)
    return pb


def pb_select_workers():
    pb = ps.SchedulingProblem(name="Select", horizon=7)
    w1 = ps.Worker(name="W1")
    w2 = ps.Worker(name="W2")
    w3 = ps.Worker(name="W3")
    t1 = ps.FixedDurationTask(name="T1", duration=4)
    t2 = ps.VariableDurationTask(name="T2", min_duration=2, max_duration=2)
    sel = ps.SelectWorkers(list_of_workers=[w1, w2, w3], nb_workers_to_select=2)
    t1.add_required_resource(sel)
    t2.add_required_resource(w3)
    ps.ResourceUnavailable(resource=w1, list_of_time_intervals=[(0, 7)])
    ps.TaskStartAt(task=t1, value=2)
    ps.TaskStartAt(task=t2, value=0)
    return pb


def pb_dynamic_and_indicator():
    pb = ps.SchedulingProblem(name="Dynamic", horizon=9)
    w1 = ps.Worker(name="W1")
    w2 = ps.Worker(name="W2")
    t1 = ps.FixedDurationTask(name="T1", duration=5)
    t1.add_required_resource(w1)
    t1.add_required_resource(w2, dynamic=True)
    t2 = ps.FixedDurationTask(name="T2", duration=2)
    t2.add_required_resource(w2)
    ps.TaskStartAt(task=t1, value=0)
    ps.TaskStartAt(task=t2, value=0)
    ps.IndicatorResourceUtilization(resource=w1)
    ps.IndicatorNumberTasksAssigned(resource=w2)
    ps.ObjectiveMinimizeMakespan()
    return pb


def pb_no_resource_with_buffer():
    pb = ps.SchedulingProblem(name="BufferNoResource", horizon=6)
    t1 = ps.FixedDurationTask(name="Load", duration=2)
    t2 = ps.FixedDurationTask(name="Unload", duration=1)
    buf = ps.NonConcurrentBuffer(name="Buf", initial_level=3)
    ps.TaskLoadBuffer(task=t1, buffer=buf, quantity=2)
    ps.TaskUnloadBuffer(task=t2, buffer=buf, quantity=1)
    ps.TaskStartAt(task=t1, value=1)
    ps.TaskStartAt(task=t2, value=4)
    return pb


def pb_calendar():
    from datetime import datetime, timedelta

    pb = ps.SchedulingProblem(
        name="Calendar",
        horizon=6,
        start_time=datetime(2024, 1, 1, 8, 0),
        delta_time=timedelta(minutes=30),
    )
    w = ps.Worker(name="W1")
    t1 = ps.FixedDurationTask(name="T1", duration=2)
    # longer than the horizon: cannot be scheduled
    t2 = ps.FixedDurationTask(name="T2", duration=7, optional=True)
    t3 = ps.ZeroDurationTask(name="Z")
    t1.add_required_resource(w)
    t2.add_required_resource(w)
    ps.TaskStartAt(task=t1, value=3)
    ps.TaskStartAt(task=t3, value=0)
    return pb


def pb_empty():
    pb = ps.SchedulingProblem(name="OnlyOneZero", horizon=2)
    ps.ZeroDurationTask(name="Z")
    return pb


def describe_solution(sol):
    print("horizon", sol.horizon)
    for name, t in sol.tasks.items():
        print(
            " task",
            name,
            t.type,
            t.start,
            t.end,
            t.duration,
            t.scheduled,
            t.optional,
            t.assigned_resources,
            t.start_time,
            t.end_time,
            t.duration_time,
        )
    for name, r in sol.resources.items():
        print(" resource", name, r.type, r.assignments)
    for name, b in sol.buffers.items():
        print(" buffer", name, b.level_change_times, b.level)
    print(" indicators", sol.indicators)
    scheduled = sol.get_scheduled_tasks()
    print(" scheduled keys", list(scheduled.keys()))
    print(" scheduled same objects", all(scheduled[k] is sol.tasks[k] for k in scheduled))
    print(" scheduled type", type(scheduled).__name__)


MASK = re.compile(rb"<dcterms:(created|modified)[^>]*>[^<]*</dcterms:(created|modified)>")


def describe_workbook(path):
    with zipfile.ZipFile(path) as zf:
        for member in sorted(zf.namelist()):
            data = MASK.sub(b"<date/>", zf.read(member))
            digest = hashlib.sha256(data).hexdigest()[:16]
            print("  part", member, len(data), digest)
            if member.startswith("xl/worksheets/") or member in (
                "xl/sharedStrings.xml",
                "xl/styles.xml",
            ):
                print("   ", data.decode("utf-8"))


class Recorder:
    """Fake xlsxwriter: records every call in order."""

    def __init__(self):
        self.calls = []
        self.counter = 0

    def Workbook(self, filename):
        self.calls.append(("Workbook", os.path.basename(filename)))
        return _Obj(self, "workbook")


class _Obj:
    def __init__(self, rec, label):
        self._rec = rec
        self._label = label

    def __repr__(self):
        return f"<{self._label}>"

    def __getattr__(self, attr):
        def call(*args, **kwargs):
            self._rec.calls.append((self._label, attr, repr(args), repr(sorted(kwargs.items()))))
            if attr in ("add_worksheet", "add_format"):
                self._rec.counter += 1
                return _Obj(self._rec, f"{attr}#{self._rec.counter}")
            return None

        return call


def export_all(sol, tmpdir, label):
    for colors in (False, True):
        path = os.path.join(tmpdir, f"{label}_{colors}.xlsx")
        # through the public method of the solution
        ret = sol.to_excel_file(path, colors)
        print(" to_excel_file", colors, "returns", ret)
        describe_workbook(path)
        # the sequence of calls on the workbook
        rec = Recorder()
        real = excel_io.xlsxwriter
        excel_io.xlsxwriter = rec
        try:
            export_solution_to_excel_file(sol, path, colors)
        finally:
            excel_io.xlsxwriter = real
        print(" recorded calls", colors, len(rec.calls))
        for call in rec.calls:
            print("   ", call)
    # default value of colors
    path = os.path.join(tmpdir, f"{label}_default.xlsx")
    sol.to_excel_file(path)
    describe_workbook(path)


problems = [
    pb_fixed_single_worker,
    pb_optional,
    pb_cumulative,
    pb_cumulative_sequential,
    pb_select_workers,
    pb_dynamic_and_indicator,
    pb_no_resource_with_buffer,
    pb_calendar,
    pb_empty,
]

with tempfile.TemporaryDirectory() as tmpdir:
    for builder in problems:
        section(builder.__name__)
        try:
            pb = builder()
            solver = ps.SchedulingSolver(problem=pb, random_values=False)
            sol = solver.solve()
            if not sol:
                print("no solution")
                continue
            describe_solution(sol)
            export_all(sol, tmpdir, builder.__name__)
        except Exception as exc:  # the error is part of the outcome
            print("error", type(exc).__name__, str(exc)[:300])

    #
    # 3. hand made solutions: edge intervals the solver does not produce
    #
    section("hand made solution")
    from processscheduler.solution import (
        SchedulingSolution,
        TaskSolution,
        ResourceSolution,
    )

    pb = ps.SchedulingProblem(name="HandMade", horizon=10)
    sol = SchedulingSolution(problem=pb)
    sol.add_task_solution(
        TaskSolution(name="Ta", start=0, end=0, duration=0, scheduled=True, assigned_resources=[])
    )
    sol.add_task_solution(
        TaskSolution(name="Tb", start=2, end=3, duration=1, scheduled=True, assigned_resources=["R1"])
    )
    sol.add_task_solution(
        TaskSolution(name="Tc", start=3, end=5, duration=2, scheduled=True, assigned_resources=["R1", "R2"])
    )
    sol.add_task_solution(
        TaskSolution(name="Td", start=-3, end=-3, duration=4, scheduled=False, optional=True)
    )
    sol.add_resource_solution(
        ResourceSolution(name="R1", type="Worker", assignments=[("Tb", 2, 3), ("Tc", 3, 5), ("Ta", 0, 0)])
    )
    sol.add_resource_solution(ResourceSolution(name="R2", type="Worker", assignments=[("Tc", 3, 5)]))
    sol.add_resource_solution(ResourceSolution(name="R3", type="Worker", assignments=[]))
    sol.add_indicator_solution("Ind", 7)
    describe_solution(sol)
    export_all(sol, tmpdir, "handmade")

    section("empty solution")
    sol = SchedulingSolution(problem=ps.SchedulingProblem(name="EmptySol", horizon=1))
    print(sol.get_scheduled_tasks())
    export_all(sol, tmpdir, "emptysol")

    section("xlsxwriter missing")
    excel_io.HAVE_XLSXWRITER = False
    try:
        sol.to_excel_file(os.path.join(tmpdir, "x.xlsx"))
    except Exception as exc:
        print("error", type(exc).__name__, exc)
    excel_io.HAVE_XLSXWRITER = True
