"""Equivalence harness for the refactoring of SchedulingSolver.build_solution.

Run from the worktree root:  cd /tmp/t4_C16 && /venv/bin/python _twin/equiv.py
Prints, for each scenario, a canonical description of what build_solution
reports (tasks, resources, buffers, indicators), the JSON / CSV / data frame
exports, the excel export success flag and the sorted solver assertions.
"""
import contextlib
import io
import os
import re
import sys
import json
import tempfile
import traceback
from datetime import datetime, timedelta

sys.path.insert(0, os.getcwd())

import random
import uuid

# names of z3 variables embed uuids, and z3's model may depend on the names:
# make the uuids reproducible (patched before the library is imported, as
# base.py does `from uuid import uuid4`); reseeded at the start of each scenario
_RNG = random.Random(0)


def _deterministic_uuid4():
    return uuid.UUID(int=_RNG.getrandbits(128), version=4)


uuid.uuid4 = _deterministic_uuid4


def reseed():
    _RNG.seed(12345)
    random.seed(12345)


import z3
import processscheduler as ps
import processscheduler.solver as ps_solver

assert ps.__file__.startswith(os.getcwd()), ps.__file__

UID = re.compile(r"\d{8,}")
TIMING = re.compile(r"\d+\.\d+s")


def mask(text):
    return TIMING.sub("<T>s", UID.sub("<UID>", text))


def describe_solution(solution):
    out = []
    if not solution:
        return [f"NO SOLUTION: {solution!r}"]
    out.append(f"horizon={solution.horizon}")
    for name, t in solution.tasks.items():
        out.append(
            f"task {name}: type={t.type} start={t.start} end={t.end} dur={t.duration} "
            f"optional={t.optional} scheduled={t.scheduled!r} "
            f"assigned={t.assigned_resources!r} rel={t.release_date} due={t.due_date} "
            f"deadline={t.due_date_is_deadline} wa={t.work_amount} prio={t.priority} "
            f"start_time={t.start_time!r} end_time={t.end_time!r} "
            f"duration_time={t.duration_time!r}"
        )
    for name, r in solution.resources.items():
        out.append(f"resource {name}: name={r.name} type={r.type} assignments={r.assignments!r}")
    for name, b in solution.buffers.items():
        out.append(f"buffer {name}: level={b.level!r} times={b.level_change_times!r}")
    for name, v in solution.indicators.items():
        out.append(f"indicator {name}: {v!r}")
    # exports
    import warnings

    with warnings.catch_warnings():
        warnings.simplefilter("ignore")
        out.append("json=" + json.dumps(json.loads(solution.to_json()), sort_keys=True))
    out.append("df=\n" + str(solution.to_df()))
    out.append("csv=\n" + solution.to_csv())
    with tempfile.TemporaryDirectory() as d:
        for colors in (False, True):
            try:
                res = solution.to_excel_file(os.path.join(d, f"s{colors}.xlsx"), colors=colors)
                out.append(f"excel(colors={colors}) -> {res!r}")
            except Exception as exc:  # pragma: no cover
                out.append(f"excel(colors={colors}) raised {type(exc).__name__}: {exc}")
    return out


def run(title, builder, **solver_kwargs):
    print("=" * 70)
    print(title)
    print("=" * 70)
    reseed()
    try:
        problem = builder()
        solver = ps.SchedulingSolver(problem=problem, **solver_kwargs)
        captured = io.StringIO()
        with contextlib.redirect_stdout(captured):
            solution = solver.solve()
        # what the library prints (timings masked below)
        lines = captured.getvalue().splitlines()
        lines.extend(describe_solution(solution))
        lines.append("assertions:")
        lines.extend(sorted(mask(str(a)) for a in solver._solver.assertions()))
        with tempfile.TemporaryDirectory() as d:
            smt = os.path.join(d, "pb.smt2")
            solver.export_to_smt2(smt)
            chk = z3.Solver()
            chk.from_file(smt)
            lines.append(f"smt2 check: {chk.check()}")
    except Exception as exc:
        lines = [f"RAISED {type(exc).__name__}: {exc}", traceback.format_exc(limit=1)]
    print(mask("\n".join(lines)))


# ---------------------------------------------------------------- scenarios
def pb_basic():
    pb = ps.SchedulingProblem(name="Basic", horizon=7)
    t1 = ps.FixedDurationTask(name="T1", duration=3, priority=2, work_amount=0)
    t2 = ps.FixedDurationTask(name="T2", duration=2, release_date=1, due_date=6)
    t0 = ps.ZeroDurationTask(name="Z0")
    w = ps.Worker(name="W1", productivity=0)
    idle = ps.Worker(name="Idle")  # never required: empty assignments
    t1.add_required_resource(w)
    t2.add_required_resource(w)
    ps.TaskPrecedence(task_before=t1, task_after=t2)
    ps.TaskStartAt(task=t0, value=0)
    return pb


def pb_optional():
    pb = ps.SchedulingProblem(name="Optional", horizon=6)
    t1 = ps.FixedDurationTask(name="Opt1", duration=4, optional=True)
    t2 = ps.FixedDurationTask(name="Opt2", duration=4, optional=True)
    t3 = ps.VariableDurationTask(name="Var3", min_duration=1, max_duration=3)
    w = ps.Worker(name="W")
    for t in (t1, t2, t3):
        t.add_required_resource(w)
    ps.ForceScheduleNOptionalTasks(list_of_optional_tasks=[t1, t2], nb_tasks_to_schedule=1)
    ps.OptionalTaskConditionSchedule(task=t1, condition=t3._duration > 0)
    ps.TaskEndAt(task=t3, value=6)
    return pb


def pb_cumulative():
    pb = ps.SchedulingProblem(name="Cumul", horizon=5)
    c = ps.CumulativeWorker(name="Machine", size=3)
    w = ps.Worker(name="Op")
    ts = [ps.FixedDurationTask(name=f"T{i}", duration=2) for i in range(4)]
    for t in ts:
        t.add_required_resource(c)
    ts[0].add_required_resource(w)
    ts[3].add_required_resource(w)
    ps.TaskStartAt(task=ts[1], value=1)
    ps.TasksStartSynced(task_1=ts[0], task_2=ts[2])
    return pb


def pb_select():
    pb = ps.SchedulingProblem(name="Select", horizon=8)
    ws = [ps.Worker(name=f"W{i}") for i in range(3)]
    c = ps.CumulativeWorker(name="Pool", size=2)
    t1 = ps.FixedDurationTask(name="A", duration=3)
    t2 = ps.FixedDurationTask(name="B", duration=3, optional=True)
    t3 = ps.VariableDurationTask(name="C", work_amount=0, max_duration=2)
    t1.add_required_resource(ps.SelectWorkers(list_of_workers=ws, nb_workers_to_select=2))
    t2.add_required_resource(
        ps.SelectWorkers(list_of_workers=[ws[0], c], nb_workers_to_select=1, kind="min")
    )
    t3.add_required_resource(ps.SelectWorkers(list_of_workers=[ws[1], ws[2]], kind="max"))
    ps.ForceScheduleNOptionalTasks(list_of_optional_tasks=[t2], nb_tasks_to_schedule=1)
    return pb


def pb_buffers_dates():
    pb = ps.SchedulingProblem(
        name="BufDates",
        horizon=12,
        delta_time=timedelta(minutes=15),
        start_time=datetime(2024, 2, 29, 8, 0),
    )
    t1 = ps.FixedDurationTask(name="Load", duration=2)
    t2 = ps.FixedDurationTask(name="Unload", duration=3)
    t3 = ps.FixedDurationTask(name="Unload2", duration=3, due_date=4, due_date_is_deadline=False)
    w = ps.Worker(name="Crane", cost=ps.ConstantFunction(value=0))
    for t in (t1, t2, t3):
        t.add_required_resource(w)
    b1 = ps.NonConcurrentBuffer(name="B1", initial_level=5)
    b2 = ps.ConcurrentBuffer(name="B2", initial_level=0)
    ps.TaskLoadBuffer(task=t1, buffer=b1, quantity=2)
    ps.TaskUnloadBuffer(task=t2, buffer=b1, quantity=4)
    ps.TaskLoadBuffer(task=t2, buffer=b2, quantity=1)
    ps.TaskLoadBuffer(task=t3, buffer=b2, quantity=1)
    ps.TaskStartAt(task=t1, value=0)
    ps.IndicatorTardiness(list_of_tasks=[t3])
    ps.IndicatorResourceUtilization(resource=w)
    ps.IndicatorResourceCost(list_of_resources=[w])
    return pb


def pb_delta_only_no_horizon():
    pb = ps.SchedulingProblem(name="DeltaOnly", delta_time=timedelta(hours=1))
    t1 = ps.FixedDurationTask(name="T1", duration=1)
    t2 = ps.VariableDurationTask(name="T2", min_duration=0, max_duration=1)
    c = ps.CumulativeWorker(name="M", size=2)
    t1.add_required_resource(c)
    t2.add_required_resource(c)
    ps.TaskStartAt(task=t1, value=2)
    ps.TaskStartAt(task=t2, value=2)
    ps.TaskEndAt(task=t2, value=2)
    ps.ObjectiveMinimizeMakespan()
    return pb


def pb_unsat():
    pb = ps.SchedulingProblem(name="Unsat", horizon=2)
    t1 = ps.FixedDurationTask(name="T1", duration=3)
    t1.add_required_resource(ps.Worker(name="W"))
    return pb


def pb_no_tasks_resources():
    pb = ps.SchedulingProblem(name="OnlyOptional", horizon=1)
    t = ps.FixedDurationTask(name="Never", duration=2, optional=True)
    c = ps.CumulativeWorker(name="CM", size=2)
    w = ps.Worker(name="W")
    t.add_required_resources([c, w])
    return pb


# ------------------------------------------------ direct calls with a fake model
class FakeModel:
    """A mapping from z3 variables to fixed values, standing in for a z3 model;
    lets build_solution be driven through combinations a solver would not pick
    by itself (negative ends, duplicated triples, ...)."""

    def __init__(self, default, overrides):
        self.default = default
        self.overrides = {str(k): v for k, v in overrides.items()}

    def __getitem__(self, var):
        v = self.overrides.get(str(var), self.default)
        if isinstance(v, bool):
            return z3.BoolVal(v)
        return z3.IntVal(v)


def fake_scenarios():
    print("=" * 70)
    print("fake models driven directly through build_solution")
    print("=" * 70)
    reseed()
    pb = ps.SchedulingProblem(name="Fake", horizon=9)
    t1 = ps.FixedDurationTask(name="F1", duration=2)
    t2 = ps.FixedDurationTask(name="F2", duration=2, optional=True)
    t3 = ps.ZeroDurationTask(name="F3", optional=True)
    c = ps.CumulativeWorker(name="CW", size=3)
    w = ps.Worker(name="Solo")
    # a plain worker whose name equals the reported name of a cumulative one is
    # impossible (names are unique) but one that merely contains the prefix is fine
    w2 = ps.Worker(name="CW_helper")
    for t in (t1, t2, t3):
        t.add_required_resource(c)
        t.add_required_resource(w)
    t1.add_required_resource(w2)
    solver = ps.SchedulingSolver(problem=pb)
    solver.initialize()

    def intervals(res, task):
        return res._busy_intervals[task]

    sub = c._cumulative_workers
    cases = {}
    # everything at 1 : every sub worker reports the same triple -> deduplicated
    cases["all ones"] = FakeModel(1, {t2._scheduled: True, t3._scheduled: False})
    # everything negative: nothing is assigned
    cases["all negative"] = FakeModel(-1, {t2._scheduled: False, t3._scheduled: False})
    # zero is a valid time
    cases["all zero"] = FakeModel(0, {t2._scheduled: True, t3._scheduled: True})
    # start >= 0 but end < 0, and the reverse, on selected intervals
    ov = {t2._scheduled: True, t3._scheduled: True}
    ov[intervals(sub[0], t1)[0]] = 3
    ov[intervals(sub[0], t1)[1]] = -1
    ov[intervals(sub[1], t1)[0]] = -1
    ov[intervals(sub[1], t1)[1]] = 5
    ov[intervals(sub[2], t1)[0]] = 3
    ov[intervals(sub[2], t1)[1]] = 5
    ov[intervals(sub[0], t2)[0]] = 0
    ov[intervals(sub[0], t2)[1]] = 2
    ov[intervals(sub[1], t2)[0]] = 0
    ov[intervals(sub[1], t2)[1]] = 2
    ov[intervals(w, t3)[0]] = 4
    ov[intervals(w, t3)[1]] = 4
    ov[intervals(w2, t1)[0]] = 0
    ov[intervals(w2, t1)[1]] = -1
    cases["mixed signs"] = FakeModel(-1, ov)
    cases["mixed signs, default 7"] = FakeModel(7, ov)
    for label, model in cases.items():
        print("--", label)
        try:
            sol = solver.build_solution(model)
            print(mask("\n".join(describe_solution(sol))))
        except Exception as exc:
            print(f"RAISED {type(exc).__name__}: {exc}")
    # a model without value for the variables: the error must be the same
    print("-- model returning None")

    class NoneModel:
        def __getitem__(self, var):
            return None

    try:
        solver.build_solution(NoneModel())
    except Exception as exc:
        print(f"RAISED {type(exc).__name__}: {exc}")


if __name__ == "__main__":
    run("1 basic, fixed + zero duration, idle worker, productivity 0", pb_basic)
    run("2 optional tasks + variable duration", pb_optional)
    run("3 cumulative worker size 3 + plain worker", pb_cumulative)
    run("4 select workers (exact/min/max) over workers and a cumulative", pb_select)
    run("5 buffers, indicators, delta_time and start_time", pb_buffers_dates)
    run("6 delta_time only, no horizon, optimizer, zero durations", pb_delta_only_no_horizon)
    run("7 unsatisfiable", pb_unsat)
    run("8 unscheduled optional task on cumulative + worker", pb_no_tasks_resources)
    run("9 cumulative again with the incremental optimizer off", pb_cumulative, optimizer="optimize")
    fake_scenarios()
