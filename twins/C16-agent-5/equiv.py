"""Equivalence driver for the refactoring of SchedulingSolver.build_solution.

Builds several small problems, solves them, and prints a canonical description of
everything build_solution produces and of what the exporters make of it (JSON,
data frame, CSV, Excel sheets, SMT-LIB).  Run it with the change applied and with the
change reversed: the two outputs must be identical.
"""
import contextlib
import io
import os
import random
import re
import sys
import tempfile
import uuid
import zipfile
from datetime import datetime, timedelta

sys.path.insert(0, os.getcwd())

import z3  # noqa: E402
import processscheduler as ps  # noqa: E402
import processscheduler.solver as ps_solver  # noqa: E402

assert os.path.dirname(ps.__file__).startswith(os.getcwd()), ps.__file__

TMP = tempfile.mkdtemp(prefix="equiv_c16_")

# The uid of every object is uuid4().int and some z3 names contain it, so that the
# search of the solver (and the model it returns) changes from one process to the
# next.  The driver replaces uuid4 by a seeded generator, re-seeded for each problem,
# to make the runs reproducible; the library itself is untouched.
_RNG = random.Random()


def _seeded_uuid4():
    return uuid.UUID(int=_RNG.getrandbits(128), version=4)


uuid.uuid4 = _seeded_uuid4
ps.base.uuid4 = _seeded_uuid4


def mask(text):
    """hide the random part of generated names (uuid fragments)"""
    text = re.sub(r"[0-9a-f]{8}-[0-9a-f]{4}-[0-9a-f]{4}-[0-9a-f]{4}-[0-9a-f]{12}", "UUID", text)
    text = re.sub(r"_[0-9a-f]{8}\b", "_HEX8", text)
    return text


def mask_uids(text, numbered=False):
    """the uid of an object is uuid4().int (up to 39 decimal digits) and is part of
    some z3 names: replace it by UID (or by UID<rank of first appearance>), and
    normalise the white space, since the pretty printers break the lines according
    to the length of the names"""
    seen = {}

    def sub(m):
        if not numbered:
            return "UID"
        return "UID%d" % seen.setdefault(m.group(0), len(seen))

    text = re.sub(r"\d{25,}", sub, text)
    return re.sub(r"\s+", " ", text)


def rebase_fresh(texts):
    """z3 numbers its fresh constants x!<n> with a counter of the whole process:
    count from the smallest one of the problem"""
    numbers = [int(n) for t in texts for n in re.findall(r"\bx!(\d+)", t)]
    if not numbers:
        return texts
    low = min(numbers)
    return [
        re.sub(r"\bx!(\d+)", lambda m: "x!+%d" % (int(m.group(1)) - low), t)
        for t in texts
    ]


def quiet(fn, *args, **kwargs):
    """call fn with stdout captured; return (result or exception, captured)"""
    buf = io.StringIO()
    with contextlib.redirect_stdout(buf):
        try:
            res = fn(*args, **kwargs)
        except Exception as exc:  # noqa: BLE001
            res = exc
    return res, buf.getvalue()


def xlsx_content(path):
    """the sheets, shared strings and styles of a workbook (not the timestamps)"""
    out = []
    with zipfile.ZipFile(path) as z:
        for n in sorted(z.namelist()):
            if n.startswith("xl/worksheets/") or n in (
                "xl/sharedStrings.xml",
                "xl/styles.xml",
                "xl/workbook.xml",
            ):
                out.append(f"{n}: {z.read(n).decode('utf-8')}")
    return out


def describe_solution(solution):
    lines = []
    lines.append(f"horizon={solution.horizon!r}")
    for name, t in solution.tasks.items():
        lines.append(
            f"task {name}: type={t.type!r} start={t.start!r} end={t.end!r} "
            f"duration={t.duration!r} optional={t.optional!r} scheduled={t.scheduled!r} "
            f"({type(t.scheduled).__name__}) release={t.release_date!r} due={t.due_date!r} "
            f"deadline={t.due_date_is_deadline!r} work={t.work_amount!r} prio={t.priority!r} "
            f"start_time={t.start_time!r} end_time={t.end_time!r} "
            f"duration_time={t.duration_time!r} assigned={t.assigned_resources!r} "
            f"fields_set={sorted(t.model_fields_set)!r}"
        )
    for name, r in solution.resources.items():
        lines.append(
            f"resource {name}: name={r.name!r} type={r.type!r} assignments={r.assignments!r} "
            f"fields_set={sorted(r.model_fields_set)!r}"
        )
    for name, b in solution.buffers.items():
        lines.append(
            f"buffer {name}: level={b.level!r} change_times={b.level_change_times!r}"
        )
    for name, v in solution.indicators.items():
        lines.append(f"indicator {name}: {v!r}")
    lines.append(f"scheduled tasks={sorted(solution.get_scheduled_tasks())!r}")
    return lines


def exports(solution, tag):
    lines = []
    lines.append("JSON: " + solution.to_json(compact=True))
    lines.append("JSON-indent:\n" + solution.to_json())
    lines.append("DF:\n" + str(solution.to_df()))
    lines.append("STR:\n" + str(solution))
    lines.append("CSV:\n" + solution.to_csv())
    lines.append("CSV;:\n" + solution.to_csv(separator=";"))
    csv_file = os.path.join(TMP, f"{tag}.csv")
    solution.to_csv(csv_filename=csv_file)
    lines.append("CSV-file:\n" + open(csv_file).read())
    json_file = os.path.join(TMP, f"{tag}.json")
    lines.append(f"JSON-file ok: {solution.to_json_file(json_file)}")
    lines.append("JSON-file:\n" + open(json_file).read())
    for colors in (False, True):
        xl = os.path.join(TMP, f"{tag}_{colors}.xlsx")
        res, _ = quiet(solution.to_excel_file, xl, colors)
        if isinstance(res, Exception):
            lines.append(f"XLSX colors={colors}: ERROR {type(res).__name__}: {res}")
        else:
            lines.append(f"XLSX colors={colors}:")
            lines.extend(xlsx_content(xl))
    return lines


def smt_export(solver, tag):
    lines = []
    smt_file = os.path.join(TMP, f"{tag}.smt2")
    res, _ = quiet(solver.export_to_smt2, smt_file)
    if isinstance(res, Exception):
        return [f"SMT2 ERROR {type(res).__name__}: {res}"]
    text = open(smt_file).read()
    # the let-bindings and their names ($x12, ?x7) depend on the ids of the terms in
    # the process: describe the text by its declarations, its commands other than
    # declare-fun / assert, and the assertions z3 reads back from it
    decls = re.findall(r"\(declare-fun\s+(\S+)\s+\(([^)]*)\)\s+([^()\s]+|\([^)]*\))\)", text)
    decl_lines = rebase_fresh([mask_uids(" ".join(d)) for d in decls])
    lines.append(f"SMT2 declarations ({len(decl_lines)}): {sorted(decl_lines)!r}")
    commands = [
        c
        for c in re.findall(r"^\((\S+)", text, flags=re.M)
        if c not in ("declare-fun", "assert", "let")
    ]
    lines.append(f"SMT2 other commands: {commands!r} asserts={text.count('(assert')}")
    s = z3.Solver()
    s.from_string(text)
    parsed = rebase_fresh([mask_uids(str(a)) for a in s.assertions()])
    lines.append(f"SMT2 parsed assertions ({len(parsed)}): {sorted(parsed)!r}")
    lines.append(f"SMT2 check={s.check()}")
    return lines


def run(tag, build, solver_kwargs=None, another=0):
    print("=" * 30, tag)
    _RNG.seed(tag)
    try:
        problem = build()
        solver = ps.SchedulingSolver(problem=problem, **(solver_kwargs or {}))
        solution, _ = quiet(solver.solve)
        out = []
        if isinstance(solution, Exception):
            out.append(f"SOLVE ERROR {type(solution).__name__}: {solution}")
        elif not solution:
            out.append(f"NO SOLUTION: {solution!r}")
        else:
            out.extend(describe_solution(solution))
            out.extend(exports(solution, tag))
            for i in range(another):
                solution, _ = quiet(solver.find_another_solution)
                if isinstance(solution, Exception) or not solution:
                    out.append(f"another[{i}]: {solution!r}")
                    break
                out.append(f"another[{i}]:")
                out.extend(describe_solution(solution))
                out.append("JSON: " + solution.to_json(compact=True))
        out.append(
            "ASSERTIONS: "
            + repr(
                sorted(
                    rebase_fresh(
                        [mask_uids(str(a)) for a in solver._solver.assertions()]
                    )
                )
            )
        )
        out.extend(smt_export(solver, tag))
    except Exception as exc:  # noqa: BLE001
        out = [f"ERROR {type(exc).__name__}: {exc}"]
    print(mask("\n".join(out)))


# ---------------------------------------------------------------------------
# problems
# ---------------------------------------------------------------------------
def p1_three_kinds_datetime():
    """fixed, variable and zero duration tasks, delta_time and start_time"""
    pb = ps.SchedulingProblem(
        name="P1",
        horizon=10,
        delta_time=timedelta(minutes=15),
        start_time=datetime(2024, 2, 29, 23, 30),
    )
    t1 = ps.FixedDurationTask(
        name="T1", duration=3, release_date=1, due_date=6, priority=2, work_amount=0
    )
    t2 = ps.VariableDurationTask(name="T2", min_duration=0, max_duration=4)
    t3 = ps.ZeroDurationTask(name="T3")
    w1 = ps.Worker(name="W1", productivity=2)
    w2 = ps.Worker(name="W2")
    t1.add_required_resource(w1)
    t2.add_required_resources([w1, w2])
    t3.add_required_resource(w2)
    ps.TaskPrecedence(task_before=t1, task_after=t2, offset=1)
    ps.TaskStartAt(task=t3, value=0)
    ps.TaskEndAt(task=t2, value=9)
    return pb


def p2_delta_only():
    """delta_time without start_time: times are timedeltas; a duration 0... edge"""
    pb = ps.SchedulingProblem(name="P2", horizon=7, delta_time=timedelta(hours=2))
    t1 = ps.FixedDurationTask(name="A", duration=1)
    t2 = ps.FixedDurationTask(name="B", duration=4, due_date=3, due_date_is_deadline=False)
    t3 = ps.VariableDurationTask(name="C", max_duration=2, work_amount=2)
    w = ps.Worker(name="W", productivity=1)
    t3.add_required_resource(w)
    t1.add_required_resource(w)
    ps.TaskStartAt(task=t1, value=0)
    ps.TaskStartAt(task=t2, value=2)
    ps.TaskStartAt(task=t3, value=5)
    return pb


def p3_optional_unscheduled():
    """optional tasks, one of them cannot be scheduled; datetimes on"""
    pb = ps.SchedulingProblem(
        name="P3",
        horizon=6,
        delta_time=timedelta(days=1),
        start_time=datetime(2023, 12, 30, 8, 0),
    )
    t1 = ps.FixedDurationTask(name="opt_in", duration=3, optional=True)
    t2 = ps.FixedDurationTask(name="opt_out", duration=4, optional=True)
    t3 = ps.VariableDurationTask(name="opt_var", optional=True, max_duration=3)
    t4 = ps.FixedDurationTask(name="mand", duration=2)
    w = ps.Worker(name="Solo")
    for t in (t1, t2, t3, t4):
        t.add_required_resource(w)
    ps.TaskStartAt(task=t4, value=0)
    ps.TaskStartAt(task=t1, value=2)
    ps.OptionalTaskConditionSchedule(task=t1, condition=pb._horizon > 1)
    ps.OptionalTaskConditionSchedule(task=t2, condition=pb._horizon > 100)
    ps.OptionalTaskConditionSchedule(task=t3, condition=pb._horizon > 100)
    return pb


def p4_cumulative():
    """a cumulative worker shared by several tasks, plus a plain worker"""
    pb = ps.SchedulingProblem(name="P4", horizon=5)
    t1 = ps.FixedDurationTask(name="T1", duration=2)
    t2 = ps.FixedDurationTask(name="T2", duration=2)
    t3 = ps.FixedDurationTask(name="T3", duration=3)
    t4 = ps.FixedDurationTask(name="T4", duration=1, optional=True)
    m = ps.CumulativeWorker(name="Machine", size=2)
    w = ps.Worker(name="Op")
    for t in (t1, t2, t3, t4):
        t.add_required_resource(m)
    t1.add_required_resource(w)
    t3.add_required_resource(w)
    ps.TaskStartAt(task=t2, value=0)
    ps.TaskStartAt(task=t1, value=0)
    ps.OptionalTaskConditionSchedule(task=t4, condition=pb._horizon > 2)
    return pb


def p5_select_workers():
    """alternative workers (unselected ones are parked on negative points)"""
    pb = ps.SchedulingProblem(name="P5", horizon=8, delta_time=timedelta(seconds=90))
    t1 = ps.FixedDurationTask(name="T1", duration=2)
    t2 = ps.FixedDurationTask(name="T2", duration=3, optional=True)
    t3 = ps.VariableDurationTask(name="T3", min_duration=1, max_duration=2)
    w1 = ps.Worker(name="W1")
    w2 = ps.Worker(name="W2")
    w3 = ps.Worker(name="W3")
    cw = ps.CumulativeWorker(name="Pool", size=3)
    s1 = ps.SelectWorkers(list_of_workers=[w1, w2, w3], nb_workers_to_select=2)
    s2 = ps.SelectWorkers(list_of_workers=[w1, w2], nb_workers_to_select=1, kind="min")
    s3 = ps.SelectWorkers(list_of_workers=[w3, cw], nb_workers_to_select=1)
    t1.add_required_resource(s1)
    t2.add_required_resource(s2)
    t3.add_required_resource(s3)
    t3.add_required_resource(w1)
    ps.TaskStartAt(task=t1, value=1)
    ps.OptionalTaskConditionSchedule(task=t2, condition=pb._horizon > 3)
    return pb


def p6_buffers_indicators():
    """buffers, indicators and an objective"""
    pb = ps.SchedulingProblem(name="P6")
    t1 = ps.FixedDurationTask(name="load", duration=2)
    t2 = ps.FixedDurationTask(
        name="unload", duration=3, due_date=2, due_date_is_deadline=False
    )
    t3 = ps.FixedDurationTask(name="both", duration=1)
    w = ps.Worker(name="Crane", cost=ps.ConstantFunction(value=3))
    for t in (t1, t2, t3):
        t.add_required_resource(w)
    b1 = ps.NonConcurrentBuffer(name="B1", initial_level=5)
    b2 = ps.ConcurrentBuffer(name="B2", initial_level=0)
    ps.TaskLoadBuffer(task=t1, buffer=b1, quantity=4)
    ps.TaskUnloadBuffer(task=t2, buffer=b1, quantity=5)
    ps.TaskLoadBuffer(task=t3, buffer=b2, quantity=1)
    ps.TaskLoadBuffer(task=t1, buffer=b2, quantity=0)
    ps.IndicatorResourceUtilization(resource=w)
    ps.IndicatorNumberTasksAssigned(resource=w)
    ps.IndicatorTardiness(list_of_tasks=[t2])
    ps.IndicatorResourceCost(list_of_resources=[w])
    ps.IndicatorMaxBufferLevel(buffer=b1)
    ps.IndicatorFromMathExpression(name="zero", expression=t1._start * 0)
    ps.ObjectiveMinimizeMakespan()
    return pb


def p7_marker_in_names():
    """plain workers whose names contain the cumulative marker / collide with the
    base name of another one"""
    pb = ps.SchedulingProblem(name="P7", horizon=6)
    t1 = ps.FixedDurationTask(name="T1", duration=2)
    t2 = ps.FixedDurationTask(name="T2", duration=2)
    t3 = ps.FixedDurationTask(name="T3", duration=1)
    wa = ps.Worker(name="X_CumulativeWorker_9")
    wb = ps.Worker(name="X")
    wc = ps.Worker(name="_CumulativeWorker_")
    wd = ps.Worker(name="X_CumulativeWorker_1_CumulativeWorker_2")
    we = ps.Worker(name="Y_CumulativeWorker_1")
    wf = ps.Worker(name="Y")
    t1.add_required_resources([wa, wb, wc])
    t2.add_required_resources([wb, wd, wa])
    t3.add_required_resources([wf, we, wc])
    ps.TaskStartAt(task=t1, value=0)
    ps.TaskStartAt(task=t2, value=3)
    return pb


def p8_no_resources_no_tasks_with_resources():
    """no worker at all, horizon free, a zero length variable task, priorities"""
    pb = ps.SchedulingProblem(name="P8", delta_time=timedelta(0))
    t1 = ps.VariableDurationTask(name="V0", min_duration=0, max_duration=1)
    t2 = ps.ZeroDurationTask(name="Z", optional=True)
    t3 = ps.FixedDurationTask(name="F", duration=1, priority=0, release_date=0)
    ps.TaskPrecedence(task_before=t1, task_after=t3)
    ps.TaskStartAt(task=t2, value=0)
    ps.ObjectiveMinimizeMakespan()
    return pb


def p9_unsat():
    """no solution: the exporter of the problem still works"""
    pb = ps.SchedulingProblem(name="P9", horizon=2)
    t1 = ps.FixedDurationTask(name="T1", duration=2)
    t2 = ps.FixedDurationTask(name="T2", duration=2)
    w = ps.Worker(name="W")
    t1.add_required_resource(w)
    t2.add_required_resource(w)
    return pb


def p10_cumulative_optimize():
    """cumulative worker + plain worker with the z3.Optimize back end and the
    datetime fields"""
    pb = ps.SchedulingProblem(
        name="P10",
        delta_time=timedelta(minutes=1),
        start_time=datetime(2025, 1, 1, 0, 0, 0),
    )
    tasks = [ps.FixedDurationTask(name=f"J{i}", duration=i) for i in range(1, 5)]
    m = ps.CumulativeWorker(name="M", size=2)
    m2 = ps.CumulativeWorker(name="N", size=3)
    for t in tasks:
        t.add_required_resource(m)
    tasks[0].add_required_resource(m2)
    tasks[3].add_required_resource(m2)
    ps.ObjectiveMinimizeMakespan()
    return pb


def direct_helper_checks():
    """the new helper, if present, against the expression it replaces"""
    print("=" * 30, "helper")
    names = [
        "",
        "W",
        "M_CumulativeWorker_1",
        "_CumulativeWorker_",
        "a_CumulativeWorker_b_CumulativeWorker_c",
        "_cumulativeworker_",
        "X_CumulativeWorker",
    ]
    fn = getattr(ps_solver, "_base_resource_name", None)
    for n in names:
        expected = n.split("_CumulativeWorker_")[0]
        got = fn(n) if fn is not None else expected
        print(repr(n), "->", repr(got), "same as split:", got == expected)


if __name__ == "__main__":
    run("P1", p1_three_kinds_datetime, another=2)
    run("P2", p2_delta_only)
    run("P3", p3_optional_unscheduled, another=1)
    run("P4", p4_cumulative, another=2)
    run("P5", p5_select_workers, another=2)
    run("P6", p6_buffers_indicators)
    run("P6opt", p6_buffers_indicators, {"optimizer": "optimize"})
    run("P7", p7_marker_in_names)
    run("P8", p8_no_resources_no_tasks_with_resources)
    run("P9", p9_unsat)
    run("P10", p10_cumulative_optimize, {"optimizer": "optimize"})
    run("P4dbg", p4_cumulative, {"debug": True})
    direct_helper_checks()
