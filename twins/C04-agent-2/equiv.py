"""Equivalence check for the refactoring of ResourceUnavailable,
ResourcePeriodicallyUnavailable and ResourceNonDelay.

Run from the worktree root:  cd /tmp/t4_C04 && /venv/bin/python _twin/equiv.py
For each small problem, prints the assertions carried by the constraint (in creation
order), the sorted assertions of the solver, and the solution (or the error raised).
uuid-derived parts of names are masked.
"""
import contextlib
import io
import os
import re
import sys

sys.path.insert(0, os.getcwd())

import z3  # noqa: E402
import processscheduler as ps  # noqa: E402

assert os.path.dirname(os.path.abspath(ps.__file__)).startswith(os.getcwd()), ps.__file__


def mask(text):
    # uuid ints (long digit runs) and hex fragments
    text = re.sub(r"\d{9,}", "<UID>", text)
    text = re.sub(r"(?<=_)[0-9a-f]{8}(?![0-9a-f])", "<HEX>", text)
    return " ".join(text.split())


def show_constraint(label, constraint):
    print(f"  [{label}] constraint assertions (creation order):")
    for asst in constraint.get_z3_assertions():
        print("     ", mask(str(asst)))
        print("      sexpr:", mask(asst.sexpr()))


def solve_and_show(pb):
    solver = ps.SchedulingSolver(problem=pb, random_values=False)
    with contextlib.redirect_stdout(io.StringIO()):
        solution = solver.solve()
    print("  solver assertions (sorted):")
    for line in sorted(mask(str(a)) for a in solver._solver.assertions()):
        print("     ", line)
    if not solution:
        print("  solution: NONE")
        return
    print("  solution:")
    for name in sorted(solution.tasks):
        t = solution.tasks[name]
        print(
            f"      {name}: scheduled={t.scheduled} start={t.start} end={t.end} "
            f"duration={t.duration} resources={sorted(t.assigned_resources)}"
        )
    for name in sorted(solution.indicators):
        print(f"      indicator {name} = {solution.indicators[name]}")


def registered(pb):
    print(
        "  constraints registered:",
        [(mask(n), len(c.get_z3_assertions())) for n, c in pb.constraints.items()],
    )


def case(title):
    def deco(fn):
        print("=" * 70)
        print("CASE", title)
        try:
            fn()
        except Exception as exc:  # pylint: disable=broad-except
            print(f"  RAISED {type(exc).__name__}: {mask(str(exc))}")
        return fn

    return deco


# ----------------------------------------------------------------------
# ResourceUnavailable
# ----------------------------------------------------------------------
@case("RU-1 single worker, two intervals, a mandatory and an optional task")
def _():
    pb = ps.SchedulingProblem(name="RU1", horizon=12)
    t1 = ps.FixedDurationTask(name="t1", duration=3)
    t2 = ps.FixedDurationTask(name="t2", duration=2, optional=True)
    w = ps.Worker(name="W")
    t1.add_required_resource(w)
    t2.add_required_resource(w)
    c = ps.ResourceUnavailable(
        name="ru", resource=w, list_of_time_intervals=[(1, 3), (6, 8)]
    )
    show_constraint("ru", c)
    ps.ObjectiveMinimizeMakespan()
    solve_and_show(pb)


@case("RU-2 cumulative worker size 2, optional constraint, interval starting at 0")
def _():
    pb = ps.SchedulingProblem(name="RU2", horizon=10)
    t1 = ps.FixedDurationTask(name="t1", duration=3)
    t2 = ps.VariableDurationTask(name="t2", min_duration=1, max_duration=4)
    cw = ps.CumulativeWorker(name="CW", size=2)
    t1.add_required_resource(cw)
    t2.add_required_resource(cw)
    c = ps.ResourceUnavailable(
        name="ru", resource=cw, list_of_time_intervals=[(0, 2), (4, 5), (9, 10)],
        optional=True,
    )
    show_constraint("ru", c)
    solve_and_show(pb)


@case("RU-3 worker reached through SelectWorkers, zero-length interval (3, 3)")
def _():
    pb = ps.SchedulingProblem(name="RU3", horizon=8)
    t1 = ps.FixedDurationTask(name="t1", duration=4)
    w1 = ps.Worker(name="W1")
    w2 = ps.Worker(name="W2")
    t1.add_required_resource(
        ps.SelectWorkers(list_of_workers=[w1, w2], nb_workers_to_select=1, kind="exact")
    )
    c1 = ps.ResourceUnavailable(name="ru1", resource=w1, list_of_time_intervals=[(0, 8)])
    c2 = ps.ResourceUnavailable(
        name="ru2", resource=w2, list_of_time_intervals=[(3, 3), (0, 1)]
    )
    show_constraint("ru1", c1)
    show_constraint("ru2", c2)
    solve_and_show(pb)


@case("RU-4 error: resource not assigned")
def _():
    pb = ps.SchedulingProblem(name="RU4", horizon=8)
    ps.FixedDurationTask(name="t1", duration=4)
    w1 = ps.Worker(name="W1")
    try:
        ps.ResourceUnavailable(name="ru1", resource=w1, list_of_time_intervals=[(0, 8)])
    finally:
        registered(pb)


@case("RU-5 error: assigned resource but empty list of intervals")
def _():
    pb = ps.SchedulingProblem(name="RU5", horizon=8)
    t1 = ps.FixedDurationTask(name="t1", duration=4)
    w1 = ps.Worker(name="W1")
    t1.add_required_resource(w1)
    try:
        ps.ResourceUnavailable(name="ru1", resource=w1, list_of_time_intervals=[])
    finally:
        registered(pb)


@case("RU-6 error: cumulative worker without task; duplicated interval")
def _():
    pb = ps.SchedulingProblem(name="RU6", horizon=8)
    cw = ps.CumulativeWorker(name="CW", size=3)
    try:
        ps.ResourceUnavailable(name="ru1", resource=cw, list_of_time_intervals=[(1, 2)])
    except AssertionError as exc:
        print("  first:", exc)
    t1 = ps.FixedDurationTask(name="t1", duration=2)
    w = ps.Worker(name="W")
    t1.add_required_resource(w)
    try:
        ps.ResourceUnavailable(
            name="ru2", resource=w, list_of_time_intervals=[(1, 2), (4, 5), (1, 2)]
        )
    finally:
        registered(pb)


@case("RU-7 error: wrong resource type / malformed interval")
def _():
    pb = ps.SchedulingProblem(name="RU7", horizon=8)
    t1 = ps.FixedDurationTask(name="t1", duration=2)
    w = ps.Worker(name="W")
    t1.add_required_resource(w)
    for kwargs in (
        dict(resource=t1, list_of_time_intervals=[(1, 2)]),
        dict(resource=w, list_of_time_intervals=[(1, 2, 3)]),
        dict(resource=w),
    ):
        try:
            ps.ResourceUnavailable(**kwargs)
            print("  no error")
        except Exception as exc:  # pylint: disable=broad-except
            print("  RAISED", type(exc).__name__, mask(str(exc).splitlines()[0]))


# ----------------------------------------------------------------------
# ResourcePeriodicallyUnavailable
# ----------------------------------------------------------------------
def periodic(title, horizon=20, **kw):
    @case(title)
    def _():
        pb = ps.SchedulingProblem(name="RPU", horizon=horizon)
        t1 = ps.FixedDurationTask(name="t1", duration=3)
        t2 = ps.VariableDurationTask(name="t2", min_duration=2, max_duration=5)
        t3 = ps.FixedDurationTask(name="t3", duration=1, optional=True)
        w = ps.Worker(name="W")
        for t in (t1, t2, t3):
            t.add_required_resource(w)
        c = ps.ResourcePeriodicallyUnavailable(name="rpu", resource=w, **kw)
        show_constraint("rpu", c)
        ps.ObjectiveMinimizeMakespan()
        solve_and_show(pb)


periodic("RPU-1 defaults (start 0, no end)", list_of_time_intervals=[(2, 4)], period=5)
periodic("RPU-2 start > 0", list_of_time_intervals=[(0, 2), (6, 7)], period=7, start=3)
periodic("RPU-3 end only, end = 0", list_of_time_intervals=[(1, 3)], period=4, end=0)
periodic(
    "RPU-4 start, end and offset, optional constraint",
    list_of_time_intervals=[(1, 3)], period=6, start=2, offset=2, end=14, optional=True,
)
periodic("RPU-5 negative start, offset only", list_of_time_intervals=[(0, 1)],
         period=3, start=-1, offset=1)
periodic("RPU-6 period 1, interval (0, 0)", list_of_time_intervals=[(0, 0)], period=1,
         horizon=8)
periodic("RPU-7 duplicated interval -> error", list_of_time_intervals=[(1, 2), (1, 2)],
         period=4)
periodic("RPU-8 empty list -> error", list_of_time_intervals=[], period=4)


@case("RPU-9 cumulative worker, start and end")
def _():
    pb = ps.SchedulingProblem(name="RPU9", horizon=15)
    t1 = ps.FixedDurationTask(name="t1", duration=3)
    t2 = ps.FixedDurationTask(name="t2", duration=2)
    cw = ps.CumulativeWorker(name="CW", size=2)
    t1.add_required_resource(cw)
    t2.add_required_resource(cw)
    c = ps.ResourcePeriodicallyUnavailable(
        name="rpu", resource=cw, list_of_time_intervals=[(0, 2)], period=4, start=1, end=12
    )
    show_constraint("rpu", c)
    solve_and_show(pb)


@case("RPU-10 error: resource not assigned")
def _():
    pb = ps.SchedulingProblem(name="RPU10", horizon=15)
    w = ps.Worker(name="W")
    try:
        ps.ResourcePeriodicallyUnavailable(
            name="rpu", resource=w, list_of_time_intervals=[(0, 2)], period=4
        )
    finally:
        registered(pb)


# ----------------------------------------------------------------------
# ResourceNonDelay
# ----------------------------------------------------------------------
def non_delay(title, nb_tasks, nb_optional=0, optional_constraint=False, cumulative=False,
              extra=None):
    @case(title)
    def _():
        pb = ps.SchedulingProblem(name="RND", horizon=14)
        res = (
            ps.CumulativeWorker(name="CW", size=2) if cumulative else ps.Worker(name="W")
        )
        tasks = []
        for i in range(nb_tasks):
            t = ps.FixedDurationTask(
                name=f"t{i}", duration=i + 1, optional=i < nb_optional
            )
            t.add_required_resource(res)
            tasks.append(t)
        c = ps.ResourceNonDelay(name="rnd", resource=res, optional=optional_constraint)
        show_constraint("rnd", c)
        if extra is not None:
            extra(tasks)
        solve_and_show(pb)


non_delay("RND-0 no task at all", 0)
non_delay("RND-1 a single task", 1)
non_delay("RND-2 three mandatory tasks, first starts at 2", 3,
          extra=lambda ts: ps.TaskStartAt(task=ts[2], value=2))
non_delay("RND-3 three tasks, two optional, optional constraint", 3, nb_optional=2,
          optional_constraint=True,
          extra=lambda ts: ps.TaskEndAt(task=ts[2], value=14))
non_delay("RND-4 cumulative worker (busy intervals live on the sub-workers)", 2,
          cumulative=True)
non_delay("RND-5 four tasks with release dates", 4,
          extra=lambda ts: [ps.TaskStartAfter(task=t, value=3 * i) for i, t in enumerate(ts)])
