"""Equivalence script for the C07 refactoring twin (objective.py:
ObjectivePriorities and ObjectiveMinimizeFlowtimeSingleResource).

Run from the worktree root:  cd /tmp/t4_C07 && /venv/bin/python _twin/equiv.py
Prints, per case, the ordered assertions of the indicator behind each objective,
the sorted assertions of the solver, and the values of the returned schedule
(or the error raised).  uuid4 is made reproducible and uuid parts of names are
masked as well.
"""
import contextlib
import io
import os
import re
import sys

sys.path.insert(0, os.getcwd())

import random  # noqa: E402
import uuid  # noqa: E402

# The library puts uuid4() values in the names of some z3 variables, and z3's
# choice among equally good schedules depends on those names.  To compare two
# versions of the code run for run, uuid4 is replaced (before the library is
# imported, so that "from uuid import uuid4" is covered too) by a reproducible
# sequence that is restarted for every problem built.
_uuid_rng = random.Random(0)


def _reproducible_uuid4():
    return uuid.UUID(int=_uuid_rng.getrandbits(128), version=4)


def restart_uuids():
    _uuid_rng.seed(20240607)


uuid.uuid4 = _reproducible_uuid4

import processscheduler as ps  # noqa: E402

assert os.path.dirname(os.path.dirname(ps.__file__)) == os.getcwd(), ps.__file__

_HEX = re.compile(r"_[0-9]{20,}|_[0-9a-f]{32}|[0-9a-f]{32}|[0-9a-f]{8}-[0-9a-f]{4}-[0-9a-f]{4}-[0-9a-f]{4}-[0-9a-f]{12}")


def mask(text):
    return " ".join(_HEX.sub("_<UID>", str(text)).split())


def describe_objectives(problem):
    for obj in problem.objectives.values():
        print(f"  objective name={obj.name!r} kind={obj.kind} weight={obj.weight} "
              f"target={mask(obj._target)} bounds={obj._bounds}")
        if isinstance(obj.target, ps.Indicator):
            print(f"    indicator name={obj.target.name!r}")
            for asst in obj.target.get_z3_assertions():  # in insertion order
                print("    IND-ASST", mask(asst))


def run(problem, **solver_kwargs):
    solver = ps.SchedulingSolver(problem=problem, **solver_kwargs)
    sink = io.StringIO()
    try:
        with contextlib.redirect_stdout(sink):
            solution = solver.solve()
    except Exception as exc:  # pylint: disable=broad-except
        print(f"  solve({solver_kwargs}) RAISED {type(exc).__name__}: {mask(exc)}")
        return
    print(f"  solve({solver_kwargs}):")
    for line in sorted(mask(a) for a in solver._solver.assertions()):
        print("    SOLVER-ASST", line)
    if not solution:
        print("    -> no solution:", solution)
        return
    print("    -> horizon", solution.horizon)
    for name in sorted(solution.tasks):
        t = solution.tasks[name]
        print(f"    -> task {name}: scheduled={t.scheduled} start={t.start} end={t.end} "
              f"resources={sorted(t.assigned_resources)}")
    for name in sorted(solution.indicators):
        print(f"    -> indicator {mask(name)} = {solution.indicators[name]}")


def case(title, builder, runs=({},)):
    print("=" * 70)
    print("CASE", title)
    try:
        restart_uuids()
        problem = builder()
    except Exception as exc:  # pylint: disable=broad-except
        print(f"  BUILD RAISED {type(exc).__name__}: {mask(exc)}")
        pb = ps.base.active_problem
        if pb is not None:
            for ind in pb.indicators.values():
                print(f"  partial indicator {ind.name!r}")
                for asst in ind.get_z3_assertions():
                    print("    IND-ASST", mask(asst))
            print("  objectives registered:", list(pb.objectives))
        return
    describe_objectives(problem)
    for i, kw in enumerate(runs):
        if i:  # a fresh problem for every run (solving registers extra indicators)
            restart_uuids()
            problem = builder()
        run(problem, **kw)


BOTH = ({"optimizer": "incremental"}, {"optimizer": "optimize"})


# ---------------------------------------------------------------- priorities
def prio_mandatory():
    pb = ps.SchedulingProblem(name="PrioMandatory")
    w = ps.Worker(name="W")
    for name, dur, prio in (("A", 3, 1), ("B", 2, 10), ("C", 4, 0), ("D", 1, 5)):
        t = ps.FixedDurationTask(name=name, duration=dur, priority=prio)
        t.add_required_resource(w)
    ps.ObjectivePriorities()
    return pb


def prio_optional():
    pb = ps.SchedulingProblem(name="PrioOptional", horizon=12)
    w = ps.Worker(name="W")
    tasks = []
    for name, dur, prio, opt in (
        ("A", 3, 2, False),
        ("B", 2, 7, True),
        ("C", 4, 0, True),
        ("D", 2, 3, True),
    ):
        t = ps.FixedDurationTask(name=name, duration=dur, priority=prio, optional=opt)
        t.add_required_resource(w)
        tasks.append(t)
    ps.ForceScheduleNOptionalTasks(list_of_optional_tasks=tasks[1:], nb_tasks_to_schedule=2)
    ps.TaskStartAfter(task=tasks[0], value=1)
    ps.ObjectivePriorities()
    return pb


def prio_no_task():
    pb = ps.SchedulingProblem(name="PrioNoTask", horizon=5)
    ps.ObjectivePriorities()
    return pb


def prio_and_makespan_weighted():
    pb = ps.SchedulingProblem(name="PrioMakespan")
    w1 = ps.Worker(name="W1")
    w2 = ps.Worker(name="W2")
    a = ps.FixedDurationTask(name="A", duration=3, priority=4)
    b = ps.VariableDurationTask(name="B", min_duration=1, max_duration=4, priority=2)
    c = ps.ZeroDurationTask(name="C")
    a.add_required_resource(w1)
    b.add_required_resource(ps.SelectWorkers(list_of_workers=[w1, w2], nb_workers_to_select=1))
    ps.TaskPrecedence(task_before=a, task_after=c)
    ps.ObjectivePriorities()
    ps.ObjectiveMinimizeMakespan()
    return pb


def prio_early_stop():
    pb = ps.SchedulingProblem(name="PrioEarlyStop", horizon=40)
    w = ps.Worker(name="W")
    for i in range(6):
        t = ps.FixedDurationTask(name=f"T{i}", duration=1 + i % 3, priority=i)
        t.add_required_resource(w)
    ps.ObjectivePriorities()
    return pb


# --------------------------------------------------- flowtime single resource
def _single_resource_base(name, horizon=None, optional_last=False):
    if horizon is None:
        pb = ps.SchedulingProblem(name=name)
    else:
        pb = ps.SchedulingProblem(name=name, horizon=horizon)
    w = ps.Worker(name="Worker1")
    tasks = []
    for i, dur in enumerate((3, 2, 1)):
        opt = optional_last and i == 2
        t = ps.FixedDurationTask(name=f"T{i}", duration=dur, optional=opt)
        t.add_required_resource(w)
        ps.TaskStartAfter(task=t, value=4)
        ps.TaskEndBefore(task=t, value=16)
        tasks.append(t)
    return pb, w, tasks


def fsr_interval_all():
    pb, w, _ = _single_resource_base("FsrAll", horizon=20)
    ps.ObjectiveMinimizeFlowtimeSingleResource(resource=w, time_interval=[4, 16])
    return pb


def fsr_interval_none_inside():
    pb, w, _ = _single_resource_base("FsrNoneInside", horizon=20)
    ps.ObjectiveMinimizeFlowtimeSingleResource(resource=w, time_interval=(17, 20))
    return pb


def fsr_no_interval():
    pb, w, _ = _single_resource_base("FsrNoInterval")
    ps.ObjectiveMinimizeFlowtimeSingleResource(resource=w)
    return pb


def fsr_interval_explicit_none():
    pb, w, _ = _single_resource_base("FsrExplicitNone", horizon=18)
    ps.ObjectiveMinimizeFlowtimeSingleResource(resource=w, time_interval=None)
    return pb


def fsr_interval_zero_zero():
    pb, w, _ = _single_resource_base("FsrZeroZero", horizon=18)
    ps.ObjectiveMinimizeFlowtimeSingleResource(resource=w, time_interval=[0, 0])
    return pb


def fsr_optional_task():
    pb, w, _ = _single_resource_base("FsrOptional", horizon=18, optional_last=True)
    ps.ObjectiveMinimizeFlowtimeSingleResource(resource=w, time_interval=[0, 18])
    return pb


def fsr_two_intervals():
    pb = ps.SchedulingProblem(name="FsrTwo", horizon=20)
    w = ps.Worker(name="Worker1")
    for k, (lo, up) in enumerate(((2, 9), (10, 18))):
        for j in range(2):
            t = ps.FixedDurationTask(name=f"T{k}{j}", duration=1 + j)
            t.add_required_resource(w)
            ps.TaskStartAfter(task=t, value=lo)
            ps.TaskEndBefore(task=t, value=up)
        ps.ObjectiveMinimizeFlowtimeSingleResource(resource=w, time_interval=(lo, up))
    return pb


def fsr_weighted_with_makespan():
    pb, w, _ = _single_resource_base("FsrWeighted")
    ps.ObjectiveMinimizeFlowtimeSingleResource(resource=w, time_interval=[4, 12])
    ps.ObjectiveMinimizeMakespan()
    return pb


def fsr_worker_without_task():
    pb = ps.SchedulingProblem(name="FsrIdleWorker", horizon=10)
    w = ps.Worker(name="Idle")
    ps.FixedDurationTask(name="T", duration=2)
    ps.ObjectiveMinimizeFlowtimeSingleResource(resource=w, time_interval=[1, 5])
    return pb


def fsr_missing_resource():
    pb = ps.SchedulingProblem(name="FsrMissing", horizon=10)
    ps.ObjectiveMinimizeFlowtimeSingleResource(time_interval=[1, 5])
    return pb


def fsr_bad_interval_length():
    pb, w, _ = _single_resource_base("FsrBadLen", horizon=18)
    ps.ObjectiveMinimizeFlowtimeSingleResource(resource=w, time_interval=[1, 5, 9])
    return pb


def fsr_bad_interval_type():
    pb, w, _ = _single_resource_base("FsrBadType", horizon=18)
    ps.ObjectiveMinimizeFlowtimeSingleResource(resource=w, time_interval=["a", "b"])
    return pb


def fsr_no_active_problem():
    pb, w, _ = _single_resource_base("FsrNoActive", horizon=18)
    ps.base.active_problem = None
    ps.ObjectiveMinimizeFlowtimeSingleResource(resource=w)
    return pb


def fsr_cumulative_worker():
    pb = ps.SchedulingProblem(name="FsrCumulative", horizon=12)
    cw = ps.CumulativeWorker(name="CW", size=2)
    for i, dur in enumerate((3, 3, 2)):
        t = ps.FixedDurationTask(name=f"T{i}", duration=dur)
        t.add_required_resource(cw)
    ps.ObjectiveMinimizeFlowtimeSingleResource(resource=cw, time_interval=[0, 12])
    return pb


case("priorities / mandatory tasks, priority 0 included", prio_mandatory, BOTH)
case("priorities / optional tasks", prio_optional, BOTH)
case("priorities / no task at all", prio_no_task, BOTH)
case("priorities + makespan (weighted sum)", prio_and_makespan_weighted,
     ({"optimizer": "incremental"}, {"optimizer": "optimize", "optimize_priority": "weight"}))
case("priorities / early stop max_iter", prio_early_stop,
     ({"max_iter": 1}, {"max_iter": 2}, {"max_iter": 3}, {}))
case("flowtime single resource / interval holds all tasks", fsr_interval_all, BOTH)
case("flowtime single resource / interval holds no task", fsr_interval_none_inside, BOTH)
case("flowtime single resource / no interval, free horizon", fsr_no_interval, ({"optimizer": "incremental"},))
case("flowtime single resource / time_interval=None", fsr_interval_explicit_none, BOTH)
case("flowtime single resource / time_interval=[0, 0]", fsr_interval_zero_zero, BOTH)
case("flowtime single resource / optional task", fsr_optional_task, BOTH)
case("flowtime single resource / two intervals, two objectives", fsr_two_intervals,
     ({"optimizer": "incremental"}, {"optimizer": "optimize", "optimize_priority": "weight"}))
case("flowtime single resource + makespan", fsr_weighted_with_makespan,
     ({"optimizer": "incremental"}, {"optimizer": "incremental", "max_iter": 1}))
case("flowtime single resource / cumulative worker (no own busy interval)", fsr_cumulative_worker, BOTH)
case("flowtime single resource / worker without task", fsr_worker_without_task)
case("flowtime single resource / resource missing", fsr_missing_resource)
case("flowtime single resource / interval of length 3", fsr_bad_interval_length)
case("flowtime single resource / interval of strings", fsr_bad_interval_type)
case("flowtime single resource / no active problem", fsr_no_active_problem)
