"""Equivalence check for the C02 refactoring (Task.add_required_resource,
Task._new_busy_interval, work amount block of SchedulingSolver.initialize).

Run:  cd /tmp/t3_C02 && /venv/bin/python _twin/equiv.py > out.txt
For every scenario prints: the z3 assertions stored on each task (in order), the
assertions held by the solver (in order, and sorted), the busy intervals registered
on each worker, the required resources of each task and the solution found (or the
error raised). uuid-derived parts of names are masked.
"""
import contextlib
import io
import os
import re
import sys

sys.path.insert(0, os.getcwd())

import processscheduler as ps  # noqa: E402

assert os.path.dirname(ps.__file__).startswith(os.getcwd()), ps.__file__


def mask(text):
    # uids are uuid4().int: very long integers
    text = re.sub(r"\d{12,}", "<UID>", str(text))
    # debug mode tracker literals are named asst_<8 random hex digits>
    return re.sub(r"asst_[0-9a-f]{8}", "asst_<HEX>", text)


def flat(text):
    return " ".join(mask(text).split())


def describe(problem, tasks, workers, solve=True, **solver_args):
    for task in tasks:
        print("  task", task.name, "required:", [r.name for r in task._required_resources])
        for asst in task.get_z3_assertions():
            print("    T-ASST", flat(asst))
    for worker in workers:
        print(
            "  worker",
            worker.name,
            "busy:",
            [(t.name, str(lo), str(up)) for t, (lo, up) in worker._busy_intervals.items()],
        )
    solver = ps.SchedulingSolver(problem=problem, **solver_args)
    sink = io.StringIO()
    try:
        with contextlib.redirect_stdout(sink):
            solver.initialize()
    except Exception as exc:  # pylint: disable=broad-except
        print("  INITIALIZE ERROR", type(exc).__name__, flat(exc))
        return
    in_order = [flat(a) for a in solver._solver.assertions()]
    print("  solver assertions in order (%d):" % len(in_order))
    for a in in_order:
        print("    S-ASST", a)
    print("  solver assertions sorted:")
    for a in sorted(in_order):
        print("    S-SORT", a)
    if not solve:
        return
    try:
        with contextlib.redirect_stdout(sink):
            solution = solver.solve()
    except Exception as exc:  # pylint: disable=broad-except
        print("  SOLVE ERROR", type(exc).__name__, flat(exc))
        return
    if not solution:
        print("  SOLUTION: none", solution)
        return
    print("  SOLUTION horizon", solution.horizon)
    for name in sorted(solution.tasks):
        t = solution.tasks[name]
        print(
            "    task", name, t.start, t.end, t.duration, t.scheduled,
            sorted(t.assigned_resources),
        )
    for name in sorted(solution.resources):
        print("    resource", name, sorted(solution.resources[name].assignments))


def attempt(label, func):
    try:
        result = func()
        print("  %s -> returned %r" % (label, result))
    except Exception as exc:  # pylint: disable=broad-except
        print("  %s -> %s: %s" % (label, type(exc).__name__, flat(exc)))


def scenario(title):
    print("=" * 70)
    print(title)


# ---------------------------------------------------------------------------
scenario("S1 single worker, three fixed tasks, no overlap, horizon exactly fits")
pb = ps.SchedulingProblem(name="S1", horizon=6)
ts = [ps.FixedDurationTask(name=f"T{i}", duration=2) for i in range(3)]
w = ps.Worker(name="W")
for t in ts:
    t.add_required_resource(w)
describe(pb, ts, [w])

scenario("S1b same but horizon too short -> unsat")
pb = ps.SchedulingProblem(name="S1b", horizon=5)
ts = [ps.FixedDurationTask(name=f"T{i}", duration=2) for i in range(3)]
w = ps.Worker(name="W")
for t in ts:
    t.add_required_resource(w)
describe(pb, ts, [w])

# ---------------------------------------------------------------------------
scenario("S2 delay_in / early_out combinations, including 0 and negative values")
pb = ps.SchedulingProblem(name="S2", horizon=12)
combos = [(0, 0), (1, 0), (0, 2), (1, 2), (-1, -3), (3, 0)]
ts = []
ws = []
for idx, (d_in, e_out) in enumerate(combos):
    t = ps.FixedDurationTask(name=f"T{idx}", duration=4)
    wk = ps.Worker(name=f"W{idx}")
    t.add_required_resource(wk, delay_in=d_in, early_out=e_out)
    ts.append(t)
    ws.append(wk)
shared = ps.Worker(name="Shared")
ts[1].add_required_resource(shared, delay_in=2)
ts[2].add_required_resource(shared, early_out=1)
ts[3].add_required_resource(shared, False, 1, 1)
describe(pb, ts, ws + [shared])

scenario("S2b delay_in/early_out ignored when dynamic=True; zero duration task")
pb = ps.SchedulingProblem(name="S2b", horizon=8)
t0 = ps.ZeroDurationTask(name="Z")
t1 = ps.VariableDurationTask(name="V", min_duration=2, max_duration=5)
w0 = ps.Worker(name="W0")
w1 = ps.Worker(name="W1")
t0.add_required_resource(w0, delay_in=1, early_out=1)
t1.add_required_resource(w0, dynamic=True, delay_in=3, early_out=3)
t1.add_required_resource(w1, dynamic=1)
describe(pb, [t0, t1], [w0, w1])

# ---------------------------------------------------------------------------
scenario("S3 dynamic workers, work amount, productivities (one is 0), optional task")
pb = ps.SchedulingProblem(name="S3", horizon=10)
t1 = ps.VariableDurationTask(name="Dig", work_amount=11)
t2 = ps.FixedDurationTask(name="Fill", duration=3, work_amount=5, optional=True)
t3 = ps.FixedDurationTask(name="NoWork", duration=2, work_amount=0)
t4 = ps.FixedDurationTask(name="WorkNoRes", duration=2, work_amount=7)
wa = ps.Worker(name="A", productivity=2)
wb = ps.Worker(name="B", productivity=3)
wz = ps.Worker(name="Lazy", productivity=0)
t1.add_required_resources([wa, wb], dynamic=True)
t1.add_required_resource(wz)
t2.add_required_resources([wa, wz])
t3.add_required_resource(wb)
ps.ObjectiveMinimizeMakespan()
describe(pb, [t1, t2, t3, t4], [wa, wb, wz])

scenario("S3b mandatory task whose work amount cannot be reached -> unsat")
pb = ps.SchedulingProblem(name="S3b", horizon=10)
t1 = ps.FixedDurationTask(name="TooMuch", duration=2, work_amount=9)
wa = ps.Worker(name="A", productivity=2)
t1.add_required_resource(wa, delay_in=1)
describe(pb, [t1], [wa])

scenario("S3c optional task whose work amount cannot be reached -> not scheduled")
pb = ps.SchedulingProblem(name="S3c", horizon=10)
t1 = ps.FixedDurationTask(name="TooMuch", duration=2, work_amount=9, optional=True)
wa = ps.Worker(name="A", productivity=2)
t1.add_required_resource(wa, early_out=1)
describe(pb, [t1], [wa])

# ---------------------------------------------------------------------------
scenario("S4 SelectWorkers exact / min / max, with work amount and optional task")
pb = ps.SchedulingProblem(name="S4", horizon=9)
ws = [ps.Worker(name=f"W{i}", productivity=i) for i in range(4)]
t_exact = ps.FixedDurationTask(name="Exact", duration=3, work_amount=9)
t_min = ps.VariableDurationTask(name="Min", work_amount=6, max_duration=4)
t_max = ps.FixedDurationTask(name="Max", duration=2, optional=True, work_amount=2)
sel_exact = ps.SelectWorkers(
    name="SelExact", list_of_workers=ws[1:], nb_workers_to_select=2, kind="exact"
)
sel_min = ps.SelectWorkers(
    name="SelMin", list_of_workers=ws, nb_workers_to_select=1, kind="min"
)
sel_max = ps.SelectWorkers(
    name="SelMax", list_of_workers=ws[:2], nb_workers_to_select=1, kind="max"
)
t_exact.add_required_resource(sel_exact)
t_min.add_required_resource(sel_min, dynamic=True, delay_in=2, early_out=2)
t_max.add_required_resource(sel_max)
describe(pb, [t_exact, t_min, t_max], ws)

scenario("S4b SelectWorkers and a plain worker on the same task, default name select")
pb = ps.SchedulingProblem(name="S4b", horizon=5)
ws = [ps.Worker(name=f"W{i}") for i in range(3)]
t1 = ps.FixedDurationTask(name="T1", duration=2)
t2 = ps.FixedDurationTask(name="T2", duration=3)
sel = ps.SelectWorkers(list_of_workers=ws[:2])
t1.add_required_resource(ws[2], delay_in=1)
t1.add_required_resource(sel)
t2.add_required_resource(ps.SelectWorkers(list_of_workers=ws, nb_workers_to_select=3))
describe(pb, [t1, t2], ws)

# ---------------------------------------------------------------------------
scenario("S5 cumulative worker of size 2, three tasks, productivity distributed")
pb = ps.SchedulingProblem(name="S5", horizon=4)
cw = ps.CumulativeWorker(name="Cumul", size=2, productivity=5)
ts = [
    ps.FixedDurationTask(name=f"T{i}", duration=2, work_amount=(4 if i == 0 else 0))
    for i in range(3)
]
for t in ts:
    t.add_required_resource(cw)
describe(pb, ts, cw._cumulative_workers)

scenario("S5b cumulative worker of size 2, three simultaneous tasks -> unsat")
pb = ps.SchedulingProblem(name="S5b", horizon=2)
cw = ps.CumulativeWorker(name="Cumul", size=2)
ts = [ps.FixedDurationTask(name=f"T{i}", duration=2) for i in range(3)]
for t in ts:
    t.add_required_resource(cw, dynamic=True, delay_in=5)
describe(pb, ts, cw._cumulative_workers)

scenario("S5c cumulative worker inside a SelectWorkers")
pb = ps.SchedulingProblem(name="S5c", horizon=6)
cw = ps.CumulativeWorker(name="Cumul", size=3, productivity=4)
wk = ps.Worker(name="Solo", productivity=2)
t = ps.FixedDurationTask(name="T", duration=2, work_amount=4)
attempt(
    "select over cumulative",
    lambda: t.add_required_resource(
        ps.SelectWorkers(name="Sel", list_of_workers=[cw, wk], kind="min")
    ),
)
describe(pb, [t], [wk, cw] + cw._cumulative_workers)

# ---------------------------------------------------------------------------
scenario("S6 errors and odd inputs")
pb = ps.SchedulingProblem(name="S6", horizon=6)
t = ps.FixedDurationTask(name="T", duration=2)
u = ps.FixedDurationTask(name="U", duration=2)
w1 = ps.Worker(name="W1")
w2 = ps.Worker(name="W2")
w3 = ps.Worker(name="W3")
w4 = ps.Worker(name="W4")
w5 = ps.Worker(name="W5")
sel = ps.SelectWorkers(name="Sel", list_of_workers=[w1, w2])
attempt("not a resource", lambda: t.add_required_resource("W1"))
attempt("none", lambda: t.add_required_resource(None))
attempt("first add", lambda: t.add_required_resource(w1))
attempt("second add", lambda: t.add_required_resource(w1))
attempt("select containing already required worker", lambda: t.add_required_resource(sel))
attempt("select twice", lambda: t.add_required_resource(sel))
attempt("bad early_out", lambda: t.add_required_resource(w3, early_out="x"))
attempt("bad delay_in", lambda: t.add_required_resource(w4, delay_in="x"))
attempt("bad delay_in dynamic", lambda: t.add_required_resource(w5, dynamic=True, delay_in="x"))
attempt("float delay", lambda: u.add_required_resource(w5, delay_in=0.5, early_out=1.5))
attempt("symbolic delay", lambda: u.add_required_resource(w2, delay_in=u._start))
attempt("base Resource", lambda: u.add_required_resource(ps.resource.Resource(name="Raw")))
attempt("list add, second is wrong", lambda: u.add_required_resources([w1, 3, w3]))
describe(pb, [t, u], [w1, w2, w3, w4, w5], solve=False)

scenario("S6b no active problem")
ps.base.active_problem = None
attempt("task without problem", lambda: ps.FixedDurationTask(name="T", duration=1))
attempt("worker without problem", lambda: ps.Worker(name="W"))

# ---------------------------------------------------------------------------
scenario("S7 debug mode solver (assert_and_track) and work amount")
pb = ps.SchedulingProblem(name="S7", horizon=7)
t1 = ps.FixedDurationTask(name="T1", duration=3, work_amount=6, optional=True)
t2 = ps.VariableDurationTask(name="T2", work_amount=4, allowed_durations=[2, 4])
w1 = ps.Worker(name="W1", productivity=2)
t1.add_required_resource(w1)
t2.add_required_resource(w1, delay_in=1, early_out=1)
ps.ForceScheduleNOptionalTasks(list_of_optional_tasks=[t1], nb_tasks_to_schedule=1)
describe(pb, [t1, t2], [w1], debug=True)
