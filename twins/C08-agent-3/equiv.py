"""Equivalence script for the C08 twin (earliness / number of tardy tasks /
maximum lateness indicators).

Run:  cd /tmp/t4_C08 && /venv/bin/python _twin/equiv.py
Prints, for every case, a canonical description of the outcome: the indicator
names registered in the problem, the indicator's own assertions (in order), the
sorted list of the solver's assertions, and the solution (task intervals and
indicator values) or the error raised.
"""
import os
import re
import sys

sys.path.insert(0, os.getcwd())

import processscheduler as ps  # noqa: E402

assert os.path.realpath(ps.__file__).startswith(os.path.realpath(os.getcwd())), ps.__file__

MASK = re.compile(r"[0-9a-f]{32}|_[0-9]{8}\b")


def mask(text):
    return MASK.sub("<ID>", text)


_builtin_print = print


def print(*args):  # noqa: A001 - every printed line is masked
    _builtin_print(mask(" ".join(str(a) for a in args)))


def describe_indicator(ind):
    print("  indicator name:", mask(ind.name), "| bounds:", ind.bounds)
    for asst in ind.get_z3_assertions():
        print("    own assertion:", mask(str(asst)))


def solve_and_describe(problem, **solver_kwargs):
    print("  registered indicators:", [mask(k) for k in problem.indicators])
    print(
        "  indicator objects' names:",
        [mask(i.name) for i in problem.indicators.values()],
    )
    solver = ps.SchedulingSolver(problem=problem, **solver_kwargs)
    solution = solver.solve()
    print("  solver assertions (sorted):")
    for line in sorted(mask(str(a)) for a in solver._solver.assertions()):
        print("    ", line)
    if not solution:
        print("  solution:", solution)
        return
    print("  horizon:", solution.horizon)
    for name in sorted(solution.tasks):
        t = solution.tasks[name]
        print("  task", name, t.start, t.end, t.scheduled)
    for name in sorted(solution.indicators):
        print("  indicator value", mask(name), "=", solution.indicators[name])


def case(func):
    print("=" * 70)
    print("CASE", func.__name__)
    try:
        func()
    except BaseException as exc:  # noqa: BLE001
        print("  ERROR", type(exc).__name__, "::", mask(str(exc)).splitlines()[:3])


def mk(name, duration, due, optional=False, priority=1):
    return ps.FixedDurationTask(
        name=name,
        duration=duration,
        due_date=due,
        due_date_is_deadline=False,
        optional=optional,
        priority=priority,
    )


# ---------------------------------------------------------------- earliness
def earliness_all_tasks_pinned():
    pb = ps.SchedulingProblem(name="EarlAll", horizon=40)
    t1, t2, t3 = mk("T1", 5, 20), mk("T2", 7, 25), mk("T3", 11, 5)
    ps.TaskStartAt(task=t1, value=0)  # earliness 15
    ps.TaskStartAt(task=t2, value=3)  # earliness 15
    ps.TaskStartAt(task=t3, value=1)  # late: 0
    ind = ps.IndicatorEarliness()
    describe_indicator(ind)
    solve_and_describe(pb)


def earliness_subset_with_optional_and_zero_due_date():
    pb = ps.SchedulingProblem(name="EarlSubset", horizon=30)
    t1 = mk("A", 4, 0)  # due date 0: can never be early
    t2 = mk("B", 3, 10, optional=True)
    t3 = mk("C", 2, 9)
    t4 = mk("D", 2, 2)  # exactly on time when started at 0 -> earliness 0 but condition true
    ps.TaskStartAt(task=t1, value=2)
    ps.TaskStartAt(task=t3, value=1)
    ps.TaskStartAt(task=t4, value=0)
    ps.OptionalTaskForceSchedule(task=t2, to_be_scheduled=False) if hasattr(
        ps, "OptionalTaskForceSchedule"
    ) else ps.ForceScheduleNOptionalTasks(list_of_optional_tasks=[t2], nb_tasks_to_schedule=0)
    ind = ps.IndicatorEarliness(list_of_tasks=[t3, t2, t1, t4])
    ind_all = ps.IndicatorEarliness(name="second_one")
    describe_indicator(ind)
    describe_indicator(ind_all)
    solve_and_describe(pb)


def earliness_maximized_with_bounds():
    pb = ps.SchedulingProblem(name="EarlOpt", horizon=20)
    t1, t2 = mk("T1", 5, 12), mk("T2", 4, 15, optional=True)
    ps.TaskPrecedence(task_before=t1, task_after=t2)
    ind = ps.IndicatorEarliness(list_of_tasks=[t1, t2])
    ps.IndicatorBounds(indicator=ind, lower_bound=2, upper_bound=9)
    ps.ObjectiveMaximizeIndicator(target=ind, weight=2)
    describe_indicator(ind)
    solve_and_describe(pb)


def earliness_empty_list_and_no_task():
    pb = ps.SchedulingProblem(name="EarlEmpty", horizon=5)
    ind0 = ps.IndicatorEarliness()  # problem has no task yet
    t1 = mk("T1", 2, 4)
    ind1 = ps.IndicatorEarliness(name="given_empty", list_of_tasks=[])
    ps.TaskStartAt(task=t1, value=0)
    describe_indicator(ind0)
    describe_indicator(ind1)
    solve_and_describe(pb)


def earliness_task_without_due_date():
    pb = ps.SchedulingProblem(name="EarlNoDue", horizon=10)
    mk("T1", 2, 4)
    ps.FixedDurationTask(name="NoDue", duration=3)
    try:
        ps.IndicatorEarliness()
    finally:
        print("  registered after failure:", list(pb.indicators))
        print("  names after failure:", [i.name for i in pb.indicators.values()])


# ---------------------------------------------------------------- tardy tasks
def tardy_all_tasks_pinned():
    pb = ps.SchedulingProblem(name="TardyAll", horizon=30)
    t1, t2, t3 = mk("T1", 5, 5), mk("T2", 7, 6), mk("T3", 11, 5)
    ps.TaskStartAt(task=t1, value=0)  # on time
    ps.TaskStartAt(task=t2, value=0)  # tardy
    ps.TaskStartAt(task=t3, value=0)  # tardy
    ind = ps.IndicatorNumberOfTardyTasks()
    describe_indicator(ind)
    solve_and_describe(pb)


def tardy_subset_target_and_minimize():
    pb = ps.SchedulingProblem(name="TardySubset")
    w = ps.Worker(name="W")
    tasks = [mk(f"T_{i}", i + 2, i + 1) for i in range(3)]
    tasks += [mk(f"U_{i}", i + 1, 0, optional=(i == 1)) for i in range(2)]
    for t in tasks:
        t.add_required_resource(w)
    ind = ps.IndicatorNumberOfTardyTasks(list_of_tasks=tasks[1:4])
    ind_all = ps.IndicatorNumberOfTardyTasks(name="whatever")
    ps.IndicatorTarget(indicator=ind_all, value=4)
    ps.ObjectiveMinimizeIndicator(target=ind)
    describe_indicator(ind)
    describe_indicator(ind_all)
    solve_and_describe(pb)


def tardy_duplicate_name_and_missing_due_date():
    pb = ps.SchedulingProblem(name="TardyDup", horizon=10)
    t1 = mk("T1", 2, 4)
    ind = ps.IndicatorNumberOfTardyTasks(list_of_tasks=[t1])
    describe_indicator(ind)
    try:
        # registered under the user-given name, renamed afterwards: a second
        # one with the same user name must clash exactly as before
        ps.IndicatorNumberOfTardyTasks(name="x")
        ps.IndicatorNumberOfTardyTasks(name="x")
    except BaseException as exc:  # noqa: BLE001
        print("  dup ERROR", type(exc).__name__, "::", str(exc))
    nodue = ps.FixedDurationTask(name="NoDue", duration=3)
    try:
        ps.IndicatorNumberOfTardyTasks(name="y", list_of_tasks=[t1, nodue])
    except BaseException as exc:  # noqa: BLE001
        print("  nodue ERROR", type(exc).__name__, "::", str(exc).splitlines()[:2])
    print("  registered:", list(pb.indicators))
    print("  names:", [i.name for i in pb.indicators.values()])


# ---------------------------------------------------------------- max lateness
def lateness_all_tasks_pinned():
    pb = ps.SchedulingProblem(name="LateAll", horizon=30)
    t1, t2, t3 = mk("T1", 5, 20), mk("T2", 7, 50), mk("T3", 11, 5)
    ps.TaskStartAt(task=t1, value=0)
    ps.TaskStartAt(task=t2, value=0)
    ps.TaskStartAt(task=t3, value=0)
    ind = ps.IndicatorMaximumLateness()
    describe_indicator(ind)
    solve_and_describe(pb)


def lateness_subset_negative_and_minimized():
    pb = ps.SchedulingProblem(name="LateSubset")
    w = ps.Worker(name="M")
    t1, t2, t3 = mk("J1", 4, 8), mk("J2", 2, 12), mk("J3", 3, 0, priority=3)
    for t in (t1, t2, t3):
        t.add_required_resource(w)
    ind = ps.IndicatorMaximumLateness(list_of_tasks=[t2, t1])
    ind_all = ps.IndicatorMaximumLateness(name="all_of_them")
    ps.IndicatorBounds(indicator=ind, upper_bound=-2)
    ps.ObjectiveMinimizeIndicator(target=ind_all)
    describe_indicator(ind)
    describe_indicator(ind_all)
    solve_and_describe(pb)


def lateness_single_task_and_duplicates():
    pb = ps.SchedulingProblem(name="LateSingle", horizon=12)
    t1 = mk("Only", 3, 3)
    ps.TaskStartAt(task=t1, value=0)
    ind = ps.IndicatorMaximumLateness(list_of_tasks=[t1])
    describe_indicator(ind)
    try:
        # the same task twice: get_maximum yields the same assertion twice
        ps.IndicatorMaximumLateness(list_of_tasks=[t1, t1])
    except BaseException as exc:  # noqa: BLE001
        print("  twice ERROR", type(exc).__name__, "::", str(exc))
    print("  registered:", list(pb.indicators))
    print("  names:", [i.name for i in pb.indicators.values()])
    for i in pb.indicators.values():
        print("  assertions of", i.name, [str(a) for a in i.get_z3_assertions()])
    solve_and_describe(pb)


def lateness_empty():
    pb = ps.SchedulingProblem(name="LateEmpty", horizon=12)
    try:
        ps.IndicatorMaximumLateness()  # no task in the problem
    except BaseException as exc:  # noqa: BLE001
        print("  no-task ERROR", type(exc).__name__, "::", str(exc))
    mk("T", 1, 1)
    try:
        ps.IndicatorMaximumLateness(name="e", list_of_tasks=[])
    except BaseException as exc:  # noqa: BLE001
        print("  empty-list ERROR", type(exc).__name__, "::", str(exc))
    print("  registered:", list(pb.indicators))
    print("  names:", [i.name for i in pb.indicators.values()])
    for i in pb.indicators.values():
        print("  assertions of", i.name, [str(a) for a in i.get_z3_assertions()])


def lateness_without_due_date():
    pb = ps.SchedulingProblem(name="LateNoDue", horizon=12)
    ps.FixedDurationTask(name="NoDue", duration=3)
    try:
        ps.IndicatorMaximumLateness()
    finally:
        print("  registered:", list(pb.indicators))
        print("  names:", [i.name for i in pb.indicators.values()])


def all_three_together_json():
    pb = ps.SchedulingProblem(name="Together", horizon=25)
    w = ps.Worker(name="W1")
    ts = [mk("a", 3, 4, priority=2), mk("b", 5, 9, optional=True), mk("c", 2, 30)]
    for t in ts:
        t.add_required_resource(w)
    e = ps.IndicatorEarliness()
    n = ps.IndicatorNumberOfTardyTasks(list_of_tasks=ts[:2])
    m = ps.IndicatorMaximumLateness(list_of_tasks=ts[::-1])
    ps.IndicatorTardiness()
    ps.IndicatorTarget(indicator=n, value=0)
    ps.ObjectiveMinimizeIndicator(target=m, weight=3)
    ps.ObjectiveMaximizeIndicator(target=e)
    for i in (e, n, m):
        describe_indicator(i)
        print("    json:", mask(i.to_json(compact=True)))
    solve_and_describe(pb, optimizer="optimize", optimize_priority="lex")


class _MaskedStdout:
    """The solver itself prints progress lines containing elapsed times."""

    def __init__(self, stream):
        self._stream = stream

    def write(self, text):
        text = re.sub(r"[0-9]+\.[0-9]+s\b", "<T>s", text)
        return self._stream.write(text)

    def flush(self):
        self._stream.flush()


sys.stdout = _MaskedStdout(sys.stdout)

for f in (
    earliness_all_tasks_pinned,
    earliness_subset_with_optional_and_zero_due_date,
    earliness_maximized_with_bounds,
    earliness_empty_list_and_no_task,
    earliness_task_without_due_date,
    tardy_all_tasks_pinned,
    tardy_subset_target_and_minimize,
    tardy_duplicate_name_and_missing_due_date,
    lateness_all_tasks_pinned,
    lateness_subset_negative_and_minimized,
    lateness_single_task_and_duplicates,
    lateness_empty,
    lateness_without_due_date,
    all_three_together_json,
):
    case(f)
