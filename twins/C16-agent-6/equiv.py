"""Equivalence script for the refactoring of solution.py (to_df, __str__,
get_scheduled_tasks). Prints a canonical description of the outcome of each case."""
import os
import sys

sys.path.insert(0, os.getcwd())

import processscheduler as ps
import processscheduler.solution as sol_mod
from processscheduler.solution import (
    SchedulingSolution,
    TaskSolution,
    ResourceSolution,
)


def describe(title, solution):
    print("=" * 20, title)
    try:
        d = solution.to_df()
        print("columns:", list(d.columns))
        print("dtypes:", [str(x) for x in d.dtypes])
        print("shape:", d.shape)
        print("index:", list(d.index))
        for rec in d.to_dict(orient="records"):
            print("row:", [(k, repr(v), type(v).__name__) for k, v in rec.items()])
    except Exception as exc:  # pylint: disable=broad-except
        print("to_df error:", type(exc).__name__, exc)
    for sep in (",", ";", "\t"):
        try:
            print("csv(%r):" % sep, repr(solution.to_csv(separator=sep)))
        except Exception as exc:  # pylint: disable=broad-except
            print("to_csv error:", type(exc).__name__, exc)
    fname = os.path.join("_twin", "_tmp_equiv.csv")
    try:
        ret = solution.to_csv(csv_filename=fname)
        with open(fname, "r", encoding="utf8") as f:
            print("csv file:", repr(ret), repr(f.read()))
        os.remove(fname)
    except Exception as exc:  # pylint: disable=broad-except
        print("to_csv file error:", type(exc).__name__, exc)
    try:
        print("str:", repr(str(solution)))
    except Exception as exc:  # pylint: disable=broad-except
        print("str error:", type(exc).__name__, exc)
    sched = solution.get_scheduled_tasks()
    print("scheduled type:", type(sched).__name__)
    print("scheduled:", [(k, v is solution.tasks[k], v.name) for k, v in sched.items()])
    # without pandas
    saved = sol_mod.HAVE_PANDAS
    sol_mod.HAVE_PANDAS = False
    try:
        for label, call in (
            ("to_df", solution.to_df),
            ("to_csv", solution.to_csv),
            ("str", lambda: str(solution)),
        ):
            try:
                print("nopandas", label, "->", repr(call()))
            except Exception as exc:  # pylint: disable=broad-except
                print("nopandas", label, "error:", type(exc).__name__, exc)
    finally:
        sol_mod.HAVE_PANDAS = saved


def solve(problem, **kw):
    solver = ps.SchedulingSolver(problem=problem, **kw)
    return solver.solve()


# 1. fixed tasks, one worker, precedence, makespan
def case1():
    pb = ps.SchedulingProblem(name="c1", horizon=12)
    t1 = ps.FixedDurationTask(name="t1", duration=3)
    t2 = ps.FixedDurationTask(name="t2", duration=1)
    t3 = ps.ZeroDurationTask(name="t3")
    w = ps.Worker(name="w")
    t1.add_required_resource(w)
    t2.add_required_resource(w)
    ps.TaskPrecedence(task_before=t1, task_after=t2)
    ps.TaskStartAt(task=t3, value=0)
    ps.ObjectiveMinimizeMakespan()
    return solve(pb)


# 2. optional tasks, one forced unscheduled, one forced scheduled
def case2():
    pb = ps.SchedulingProblem(name="c2", horizon=8)
    a = ps.FixedDurationTask(name="a", duration=2, optional=True)
    b = ps.FixedDurationTask(name="b", duration=2, optional=True)
    c = ps.FixedDurationTask(name="c", duration=4)
    w = ps.Worker(name="w2")
    for t in (a, b, c):
        t.add_required_resource(w)
    ps.ForceScheduleNOptionalTasks(list_of_optional_tasks=[a, b], nb_tasks_to_schedule=1)
    ps.TaskStartAt(task=c, value=0)
    return solve(pb)


# 3. due dates (0, deadline and not deadline), release date, priorities
def case3():
    pb = ps.SchedulingProblem(name="c3", horizon=15)
    a = ps.FixedDurationTask(name="late", duration=3, due_date=0, due_date_is_deadline=False)
    b = ps.FixedDurationTask(name="dead", duration=2, due_date=5, due_date_is_deadline=True)
    c = ps.FixedDurationTask(name="rel", duration=2, release_date=4, due_date=20, due_date_is_deadline=False)
    d = ps.FixedDurationTask(name="free", duration=1, priority=3)
    w = ps.Worker(name="w3")
    for t in (a, b, c, d):
        t.add_required_resource(w)
    ps.TaskStartAt(task=a, value=7)
    ps.TaskStartAt(task=b, value=0)
    return solve(pb)


# 4. variable duration, select workers, cumulative, indicators
def case4():
    pb = ps.SchedulingProblem(name="c4")
    small = ps.Worker(name="Small", productivity=4, cost=ps.ConstantFunction(value=5))
    med = ps.Worker(name="Medium", productivity=6, cost=ps.ConstantFunction(value=10))
    for name, wa in (("H1", 3), ("H2", 7), ("H3", 15)):
        t = ps.VariableDurationTask(name=name, work_amount=wa)
        t.add_required_resource(
            ps.SelectWorkers(list_of_workers=[small, med], nb_workers_to_select=1, kind="min")
        )
    ps.IndicatorResourceCost(list_of_resources=[small, med])
    return solve(pb)


# 5. buffers and cumulative worker, two resources on one task
def case5():
    pb = ps.SchedulingProblem(name="c5", horizon=10)
    t1 = ps.FixedDurationTask(name="load", duration=2)
    t2 = ps.FixedDurationTask(name="unload", duration=3)
    buf = ps.NonConcurrentBuffer(name="Buf", initial_level=0)
    ps.TaskLoadBuffer(task=t1, buffer=buf, quantity=4)
    ps.TaskUnloadBuffer(task=t2, buffer=buf, quantity=4)
    cw = ps.CumulativeWorker(name="cw", size=2)
    w = ps.Worker(name="w5")
    t1.add_required_resource(cw)
    t2.add_required_resource(cw)
    t2.add_required_resource(w)
    ps.TaskStartAt(task=t1, value=0)
    ps.TaskStartAt(task=t2, value=3)
    return solve(pb)


# 6. task without resource, single task with start 0 and duration 0 horizon
def case6():
    pb = ps.SchedulingProblem(name="c6", horizon=1)
    ps.ZeroDurationTask(name="z")
    return solve(pb)


# 7-9: hand made solutions (edge values)
def hand(tasks, resources=()):
    pb = ps.SchedulingProblem(name="hand")
    s = SchedulingSolution(problem=pb, horizon=9)
    for t in tasks:
        s.add_task_solution(t)
    for r in resources:
        s.add_resource_solution(r)
    return s


def case7():
    return hand([])


def case8():
    return hand(
        [
            TaskSolution(name="x", start=0, end=0, duration=0, scheduled=True, due_date=0),
            TaskSolution(name="y", start=5, end=7, duration=2, scheduled=False, optional=True,
                         due_date=9, assigned_resources=["r1", "r2"]),
            TaskSolution(name="u", start=3, end=4, duration=1, scheduled=True,
                         due_date=1, assigned_resources=["r1"]),
            TaskSolution(name="v"),
        ],
        [ResourceSolution(name="r1", assignments=[("y", 5, 7), ("u", 3, 4)])],
    )


def case9():
    # dict key differs from the task solution's name
    s = hand([TaskSolution(name="k1", start=1, end=2, duration=1, scheduled=True)])
    s.tasks["other_key"] = TaskSolution(name="inner", start=2, end=6, duration=4,
                                        scheduled=False, due_date=2)
    s.tasks["third"] = TaskSolution(name="third", start=-4, end=-3, duration=1,
                                    scheduled=True, due_date=0, assigned_resources=[])
    return s


for i, builder in enumerate(
    (case1, case2, case3, case4, case5, case6, case7, case8, case9), start=1
):
    try:
        solution = builder()
    except Exception as exc:  # pylint: disable=broad-except
        print("=" * 20, builder.__name__, "BUILD ERROR", type(exc).__name__, exc)
        continue
    if not solution:
        print("=" * 20, builder.__name__, "no solution:", repr(solution))
        continue
    describe(builder.__name__, solution)
