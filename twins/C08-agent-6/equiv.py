"""Equivalence script for the C08 refactoring (function.py: Function.__call__,
PolynomialFunction._compute; indicator.py: IndicatorMaxBufferLevel /
IndicatorMinBufferLevel).

Prints a canonical description of a number of small cases. Run it with the
change applied and with the change reversed; the two outputs must be equal.
"""
import contextlib
import io
import os
import re
import sys
import warnings

sys.path.insert(0, os.getcwd())

import z3  # noqa: E402
import processscheduler as ps  # noqa: E402

UUID_RE = re.compile(r"[0-9a-f]{8}(-[0-9a-f]{4}){3}-[0-9a-f]{12}|_[0-9a-f]{8}\b|\d{20,}")


def mask(text):
    return UUID_RE.sub("<ID>", str(text))


def section(title):
    print("=" * 10, title)


def show_call(label, func, arg):
    """value returned by a Function call, the warnings raised, or the error"""
    with warnings.catch_warnings(record=True) as caught:
        warnings.simplefilter("always")
        try:
            value = func(arg)
            outcome = f"{type(value).__name__}: {mask(value)}"
            if isinstance(value, z3.ExprRef):
                outcome += " | sexpr=" + mask(value.sexpr())
        except Exception as exc:  # pylint: disable=broad-except
            outcome = f"ERROR {type(exc).__name__}: {exc}"
    warns = sorted(f"{w.category.__name__}:{w.message}" for w in caught)
    print(f"{label} -> {outcome} ; warnings={warns}")


def describe(problem_builder):
    """build, print indicator names, their assertions, solver assertions, solution"""
    try:
        problem, indicators, solver_kwargs = problem_builder()
    except Exception as exc:  # pylint: disable=broad-except
        print(f"BUILD ERROR {type(exc).__name__}: {mask(exc)}")
        return
    for ind in indicators:
        print("indicator name:", mask(ind.name))
        print("indicator var :", mask(ind._indicator_variable))
        for a in sorted(mask(a) for a in ind.get_z3_assertions()):
            print("   ind asst:", a)
    with warnings.catch_warnings(record=True) as caught:
        warnings.simplefilter("always")
        try:
            solver = ps.SchedulingSolver(problem=problem, **solver_kwargs)
            with contextlib.redirect_stdout(io.StringIO()):
                solver.initialize()
            for a in sorted(mask(a) for a in solver._solver.assertions()):
                print("   asst:", a)
            with contextlib.redirect_stdout(io.StringIO()):
                solution = solver.solve()
        except Exception as exc:  # pylint: disable=broad-except
            print(f"SOLVE ERROR {type(exc).__name__}: {mask(exc)}")
            return
    print("warnings:", sorted(f"{w.category.__name__}:{w.message}" for w in caught))
    if not solution:
        print("solution:", solution)
        return
    print("indicators:", sorted((mask(k), v) for k, v in solution.indicators.items()))
    print(
        "tasks:",
        sorted((k, t.start, t.end, t.scheduled) for k, t in solution.tasks.items()),
    )
    print(
        "buffers:",
        sorted(
            (k, list(b.level), list(b.level_change_times))
            for k, b in solution.buffers.items()
        ),
    )


# ---------------------------------------------------------------------------
# 1. direct Function calls
# ---------------------------------------------------------------------------
section("1 function calls")
ps.SchedulingProblem(name="FunctionCalls")
x_int = z3.Int("x")
y_real = z3.Real("y")
coeff_sets = [
    [5],
    [0],
    [1, 1],
    [0, 4],
    [1, 1, 1],
    [2, 0, 0],
    [0, 0, 0],
    [1, 2, 3, 4],
    [23, -13, 513],
    [1, -16, 164],
    [1.5, 0, 2],
    [0.0, 2.5, 0],
    [3, 0, -2, 0, 7],
    [z3.Int("k"), 0, 2],
    [1, z3.Int("k")],
    [z3.Int("k")],
]
for coeffs in coeff_sets:
    try:
        poly = ps.PolynomialFunction(coefficients=coeffs)
    except Exception as exc:  # pylint: disable=broad-except
        print(f"poly{mask(coeffs)} BUILD ERROR {type(exc).__name__}")
        continue
    for arg_label, arg in [
        ("0", 0),
        ("1", 1),
        ("-3", -3),
        ("7", 7),
        ("2.5", 2.5),
        ("x", x_int),
        ("y", y_real),
        ("x+1", x_int + 1),
    ]:
        show_call(f"poly{mask(coeffs)}({arg_label})", poly, arg)

try:
    empty = ps.PolynomialFunction(coefficients=[])
    show_call("poly[](3)", empty, 3)
    show_call("poly[](x)", empty, x_int)
except Exception as exc:  # pylint: disable=broad-except
    print(f"poly[] BUILD ERROR {type(exc).__name__}")

# coefficients changed after creation: evaluated lazily
late = ps.PolynomialFunction(coefficients=[1, 2, 3])
show_call("late-before(2)", late, 2)
late.coefficients = [4, 0, 0, 1]
show_call("late-after(2)", late, 2)
show_call("late-after(x)", late, x_int)

base = ps.function.Function(name="BaseF")
show_call("base(3)", base, 3)
show_call("base(x)", base, x_int)
for val in (0, 1, 7, 2.5):
    cst = ps.ConstantFunction(value=val)
    show_call(f"const{val}(x)", cst, x_int)
    show_call(f"const{val}(4)", cst, 4)
for slope, intercept in [(0, 0), (1, 0), (2, 3), (1.5, 2), (0, 5), (z3.Int("s"), 1)]:
    lin = ps.LinearFunction(slope=slope, intercept=intercept)
    for arg_label, arg in [("0", 0), ("4", 4), ("x", x_int), ("y", y_real)]:
        show_call(f"lin({slope},{intercept})({arg_label})", lin, arg)


class Odd:
    """object whose str mentions ToReal"""

    def __str__(self):
        return "something ToReal something"


class Plain:
    def __str__(self):
        return "plain"


general_functions = [
    ("toreal-z3", lambda t: z3.ToReal(t) * 2),
    ("toreal-str", lambda t: "ToReal"),
    ("toreal-obj", lambda t: Odd()),
    ("plain-obj", lambda t: Plain()),
    ("none", lambda t: None),
    ("square", lambda t: t * t),
    ("mixed", lambda t: t * 1.5 + 2),
    ("raises", lambda t: 1 / 0),
    ("toint", lambda t: z3.ToInt(z3.ToReal(t) / 2)),
]
for label, pyfunc in general_functions:
    gen = ps.GeneralFunction(function=pyfunc)
    show_call(f"general-{label}(x)", gen, x_int)
    show_call(f"general-{label}(3)", gen, 3)


# ---------------------------------------------------------------------------
# 2. quadratic cost, fixed start
# ---------------------------------------------------------------------------
def quadratic_cost_fixed():
    problem = ps.SchedulingProblem(name="QuadraticCostFixed")
    t_1 = ps.FixedDurationTask(name="t1", duration=17)
    worker = ps.Worker(
        name="Worker1", cost=ps.PolynomialFunction(coefficients=[23, -13, 513])
    )
    t_1.add_required_resource(worker)
    ps.TaskStartAt(task=t_1, value=13)
    ind = ps.IndicatorResourceCost(list_of_resources=[worker])
    return problem, [ind], {}


section("2 quadratic cost fixed start")
describe(quadratic_cost_fixed)


# ---------------------------------------------------------------------------
# 3. optimize a quadratic cost, with zero middle coefficient and optional task
# ---------------------------------------------------------------------------
def quadratic_cost_optimized():
    problem = ps.SchedulingProblem(name="QuadraticCostOptimized", horizon=20)
    t_1 = ps.FixedDurationTask(name="t1", duration=4)
    t_2 = ps.FixedDurationTask(name="t2", duration=2, optional=True)
    worker_1 = ps.Worker(
        name="Worker1", cost=ps.PolynomialFunction(coefficients=[1, -16, 164])
    )
    worker_2 = ps.Worker(
        name="Worker2", cost=ps.PolynomialFunction(coefficients=[2, 0, 0])
    )
    t_1.add_required_resource(worker_1)
    t_2.add_required_resource(worker_2)
    ind = ps.IndicatorResourceCost(list_of_resources=[worker_1, worker_2])
    ps.Objective(name="MinimizeCost", target=ind, kind="minimize")
    return problem, [ind], {}


section("3 quadratic cost optimized")
describe(quadratic_cost_optimized)


# ---------------------------------------------------------------------------
# 4. cubic, linear and constant (0 and 1) costs mixed, cumulative worker
# ---------------------------------------------------------------------------
def mixed_costs():
    problem = ps.SchedulingProblem(name="MixedCosts", horizon=12)
    t_1 = ps.FixedDurationTask(name="t1", duration=3)
    t_2 = ps.FixedDurationTask(name="t2", duration=2)
    t_3 = ps.VariableDurationTask(name="t3", min_duration=1, max_duration=3)
    ps.TaskEndAt(task=t_3, value=3)
    w_cubic = ps.Worker(
        name="Cubic", cost=ps.PolynomialFunction(coefficients=[1, 0, 2, 0])
    )
    w_lin = ps.Worker(name="Lin", cost=ps.LinearFunction(slope=2, intercept=1))
    w_zero = ps.Worker(name="Zero", cost=ps.ConstantFunction(value=0))
    w_cumul = ps.CumulativeWorker(
        name="Cumul", size=2, cost=ps.ConstantFunction(value=1)
    )
    t_1.add_required_resource(w_cubic)
    t_2.add_required_resource(w_lin)
    t_2.add_required_resource(w_zero)
    t_3.add_required_resource(w_cumul)
    ps.TaskStartAt(task=t_1, value=0)
    ps.TaskStartAt(task=t_2, value=4)
    ps.TaskStartAt(task=t_3, value=1)
    ind = ps.IndicatorResourceCost(list_of_resources=[w_cubic, w_lin, w_zero, w_cumul])
    ind_2 = ps.IndicatorResourceCost(list_of_resources=[w_cubic])
    return problem, [ind, ind_2], {}


section("4 mixed costs")
describe(mixed_costs)


# ---------------------------------------------------------------------------
# 5. buffer indicators, non concurrent buffer, one unload
# ---------------------------------------------------------------------------
def buffer_indicators_simple():
    problem = ps.SchedulingProblem(name="BufferIndicatorSimple")
    task_1 = ps.FixedDurationTask(name="task1", duration=3)
    buffer_1 = ps.NonConcurrentBuffer(name="Buffer1", initial_level=10)
    ps.TaskUnloadBuffer(task=task_1, buffer=buffer_1, quantity=3)
    ps.TaskStartAt(task=task_1, value=0)
    ind_max = ps.IndicatorMaxBufferLevel(buffer=buffer_1)
    ind_min = ps.IndicatorMinBufferLevel(buffer=buffer_1)
    return problem, [ind_max, ind_min], {}


section("5 buffer indicators simple")
describe(buffer_indicators_simple)


# ---------------------------------------------------------------------------
# 6. buffer indicators with bounds, load and unload, several tasks
# ---------------------------------------------------------------------------
def buffer_indicators_bounded():
    problem = ps.SchedulingProblem(name="BufferIndicatorBounded", horizon=12)
    tasks = [ps.FixedDurationTask(name=f"task{i}", duration=2) for i in range(4)]
    buffer_1 = ps.NonConcurrentBuffer(name="Buf", initial_level=0)
    ps.TaskLoadBuffer(task=tasks[0], buffer=buffer_1, quantity=5)
    ps.TaskUnloadBuffer(task=tasks[1], buffer=buffer_1, quantity=2)
    ps.TaskLoadBuffer(task=tasks[2], buffer=buffer_1, quantity=4)
    ps.TaskUnloadBuffer(task=tasks[3], buffer=buffer_1, quantity=6)
    ps.TaskStartAt(task=tasks[0], value=0)
    ps.TaskStartAt(task=tasks[1], value=3)
    ps.TaskStartAt(task=tasks[2], value=6)
    ps.TaskStartAt(task=tasks[3], value=9)
    ind_max = ps.IndicatorMaxBufferLevel(buffer=buffer_1, bounds=(0, 9))
    ind_min = ps.IndicatorMinBufferLevel(buffer=buffer_1, bounds=(0, 20))
    return problem, [ind_max, ind_min], {}


section("6 buffer indicators bounded")
describe(buffer_indicators_bounded)


# ---------------------------------------------------------------------------
# 7. concurrent buffer, objectives on the buffer levels
# ---------------------------------------------------------------------------
def concurrent_buffer_objective():
    problem = ps.SchedulingProblem(name="ConcurrentBufferObjective", horizon=10)
    task_1 = ps.FixedDurationTask(name="task1", duration=3)
    task_2 = ps.FixedDurationTask(name="task2", duration=3)
    task_3 = ps.FixedDurationTask(name="task3", duration=1, optional=True)
    buffer_1 = ps.ConcurrentBuffer(name="CB", initial_level=10)
    ps.TaskUnloadBuffer(task=task_1, buffer=buffer_1, quantity=3)
    ps.TaskLoadBuffer(task=task_2, buffer=buffer_1, quantity=8)
    ps.TaskUnloadBuffer(task=task_3, buffer=buffer_1, quantity=1)
    # pin everything so that the reported schedule is unique
    ps.TaskStartAt(task=task_2, value=0)
    ps.TaskStartAt(task=task_1, value=4)
    ps.TaskStartAt(task=task_3, value=5)
    ps.ForceScheduleNOptionalTasks(
        list_of_optional_tasks=[task_3], nb_tasks_to_schedule=1
    )
    obj = ps.ObjectiveMaximizeMaxBufferLevel(buffer=buffer_1)
    ind_min = ps.IndicatorMinBufferLevel(buffer=buffer_1)
    return problem, [obj.target, ind_min], {}


section("7 concurrent buffer objective")
describe(concurrent_buffer_objective)


# ---------------------------------------------------------------------------
# 8. buffer without any task (edge: a single level), and unsatisfiable bound
# ---------------------------------------------------------------------------
def buffer_no_task():
    problem = ps.SchedulingProblem(name="BufferNoTask", horizon=5)
    ps.FixedDurationTask(name="lonely", duration=1)
    buffer_1 = ps.NonConcurrentBuffer(name="Idle", initial_level=0)
    ind_max = ps.IndicatorMaxBufferLevel(buffer=buffer_1)
    ind_min = ps.IndicatorMinBufferLevel(buffer=buffer_1)
    return problem, [ind_max, ind_min], {}


def buffer_unsat_bound():
    problem = ps.SchedulingProblem(name="BufferUnsat", horizon=8)
    task_1 = ps.FixedDurationTask(name="task1", duration=3)
    buffer_1 = ps.NonConcurrentBuffer(name="B", initial_level=4)
    ps.TaskLoadBuffer(task=task_1, buffer=buffer_1, quantity=3)
    ind_max = ps.IndicatorMaxBufferLevel(buffer=buffer_1, bounds=(0, 5))
    return problem, [ind_max], {}


def buffer_wrong_type():
    problem = ps.SchedulingProblem(name="BufferWrongType", horizon=8)
    task_1 = ps.FixedDurationTask(name="task1", duration=3)
    ind_max = ps.IndicatorMaxBufferLevel(buffer=task_1)
    return problem, [ind_max], {}


def buffer_missing():
    problem = ps.SchedulingProblem(name="BufferMissing", horizon=8)
    ind_min = ps.IndicatorMinBufferLevel()
    return problem, [ind_min], {}


section("8a buffer without task")
describe(buffer_no_task)
section("8b buffer unsatisfiable bound")
describe(buffer_unsat_bound)
section("8c wrong buffer type")
describe(buffer_wrong_type)
section("8d missing buffer")
describe(buffer_missing)


# ---------------------------------------------------------------------------
# 9. non-linear general cost function producing the ToReal warning
# ---------------------------------------------------------------------------
def toreal_cost():
    problem = ps.SchedulingProblem(name="ToRealCost", horizon=10)
    t_1 = ps.FixedDurationTask(name="t1", duration=2)
    worker = ps.Worker(
        name="W", cost=ps.PolynomialFunction(coefficients=[0.5, 0, 1])
    )
    t_1.add_required_resource(worker)
    ps.TaskStartAt(task=t_1, value=2)
    with warnings.catch_warnings(record=True) as caught:
        warnings.simplefilter("always")
        ind = ps.IndicatorResourceCost(list_of_resources=[worker])
    print("build warnings:", sorted(f"{w.category.__name__}:{w.message}" for w in caught))
    return problem, [ind], {}


section("9 cost with float coefficient")
describe(toreal_cost)
