"""Equivalence script for the C08 refactoring (util.get_maximum / get_minimum and the
priority weighted sums of ObjectivePriorities / ObjectiveTasksStartEarliest).

Run with   cd /tmp/t5_C08 && /venv/bin/python _twin/equiv.py
Prints, for each small problem, the sorted str() of the solver assertions, the
objectives registered, and the solution (tasks, buffers, indicators) or the error.
"""
import contextlib
import io
import os
import re
import sys

sys.path.insert(0, os.getcwd())

import z3  # noqa: E402

import processscheduler as ps  # noqa: E402
from processscheduler.util import get_maximum, get_minimum  # noqa: E402

assert ps.__file__.startswith(os.getcwd()), ps.__file__

def mask(text):
    """hide the random parts: uuid4 hex, default names Class_12345678, timings"""
    text = re.sub(r"[0-9a-f]{32}", "<UUID>", text)
    text = re.sub(r"(?<=[A-Za-z]_)\d{8}\b", "<UID>", text)
    text = re.sub(r"\d+\.\d+s\b", "<T>s", text)
    return text


def describe(problem, **solver_args):
    solver = ps.SchedulingSolver(problem=problem, **solver_args)
    with contextlib.redirect_stdout(io.StringIO()):
        solver.initialize()
    print("  assertions:")
    for line in sorted(mask(str(a)).replace("\n", " ") for a in solver._solver.assertions()):
        print("    " + re.sub(r"\s+", " ", line))
    if isinstance(solver._solver, z3.Optimize):
        print("  z3 objectives:", [mask(str(o)) for o in solver._solver.objectives()])
    print("  objectives:", [
        (mask(name), mask(obj.name), obj.kind, obj.weight, mask(str(obj._target)), obj._bounds)
        for name, obj in problem.objectives.items()
    ])
    print("  indicators:", [
        (mask(name), mask(ind.name), [mask(str(a)) for a in ind.get_z3_assertions()], ind.bounds)
        for name, ind in problem.indicators.items()
    ])
    trace = io.StringIO()
    with contextlib.redirect_stdout(trace):
        solution = solver.solve()
    print("  solver trace:")
    for line in mask(trace.getvalue()).splitlines():
        if line.strip():
            print("    | " + line.strip())
    if not solution:
        print("  solution:", solution)
        return
    print("  tasks:", sorted(
        (n, t.start, t.end, t.scheduled, tuple(t.assigned_resources))
        for n, t in solution.tasks.items()
    ))
    print("  buffers:", sorted(
        (n, tuple(b.level), tuple(b.level_change_times))
        for n, b in solution.buffers.items()
    ))
    print("  indicators:", sorted((mask(k), v) for k, v in solution.indicators.items()))
    print("  horizon:", solution.horizon)


def case(title, fn):
    print("=" * 70)
    print(title)
    try:
        fn()
    except BaseException as exc:  # report every error the same way
        print("  ERROR:", type(exc).__name__, mask(str(exc))[:300])


# ---------------------------------------------------------------- util direct
def util_direct():
    x, a, b, c = z3.Ints("x a b c")
    for fn in (get_maximum, get_minimum):
        print(" ", fn.__name__)
        for values in ([a], [a, b, c], [a, a + 1, 0], [1, 2, 3], (a, b)):
            print("   ", values, "->", fn(x, values))
        print("    python int extremum ->", fn(3, [a, 2]))
        print("    real extremum ->", fn(z3.Real("r"), [a, 2.5]))
        for bad in ([], (), None, 0, {}):
            try:
                print("   ", repr(bad), "->", fn(x, bad))
            except BaseException as exc:
                print("   ", repr(bad), "-> ERROR", type(exc).__name__, exc)
        # a one shot iterable is consumed by the first traversal
        print("    generator ->", fn(x, (v for v in [a, b])))
        res = fn(x, [a, b])
        print("    type:", type(res).__name__, [type(r).__name__ for r in res])
        values = [a, b]
        fn(x, values)
        print("    argument untouched:", values)


# ------------------------------------------------------- weighted completion
def priorities_mixed():
    pb = ps.SchedulingProblem(name="PrioMixed", horizon=12)
    w = ps.Worker(name="W")
    t1 = ps.FixedDurationTask(name="t1", duration=3, priority=5)
    t2 = ps.FixedDurationTask(name="t2", duration=2, priority=0)
    t3 = ps.FixedDurationTask(name="t3", duration=4, priority=2, optional=True)
    t4 = ps.ZeroDurationTask(name="t4", priority=7, optional=True)
    for t in (t1, t2, t3):
        t.add_required_resource(w)
    ps.ForceScheduleNOptionalTasks(list_of_optional_tasks=[t3, t4], nb_tasks_to_schedule=1)
    ps.ObjectivePriorities()
    describe(pb)


def priorities_mandatory_only():
    pb = ps.SchedulingProblem(name="PrioMand")
    w = ps.Worker(name="W")
    for i, prio in enumerate([1, 10, 3]):
        t = ps.FixedDurationTask(name=f"t{i}", duration=i + 1, priority=prio)
        t.add_required_resource(w)
    ps.ObjectivePriorities()
    describe(pb, optimizer="incremental")


def priorities_no_task():
    pb = ps.SchedulingProblem(name="PrioNone", horizon=3)
    ps.ObjectivePriorities()
    describe(pb)


def priorities_single_task():
    pb = ps.SchedulingProblem(name="PrioOne", horizon=8)
    ps.VariableDurationTask(name="v", priority=4, min_duration=2, optional=True)
    ps.ObjectivePriorities()
    describe(pb)


def start_earliest_mixed():
    pb = ps.SchedulingProblem(name="StartEarliest", horizon=15)
    w = ps.Worker(name="W")
    t1 = ps.FixedDurationTask(name="t1", duration=3, priority=2)
    t2 = ps.FixedDurationTask(name="t2", duration=2, priority=6, optional=True)
    t3 = ps.FixedDurationTask(name="t3", duration=4)
    for t in (t1, t2, t3):
        t.add_required_resource(w)
    ps.TaskStartAfter(task=t3, value=2)
    ps.ForceScheduleNOptionalTasks(list_of_optional_tasks=[t2], nb_tasks_to_schedule=1)
    # the list_of_tasks argument is accepted (and ignored) today
    ps.ObjectiveTasksStartEarliest(list_of_tasks=[t1])
    describe(pb)


def start_earliest_and_priorities_weighted():
    pb = ps.SchedulingProblem(name="BothWeighted", horizon=10)
    w = ps.Worker(name="W")
    t1 = ps.FixedDurationTask(name="t1", duration=3, priority=3)
    t2 = ps.FixedDurationTask(name="t2", duration=2, priority=1, optional=True)
    t1.add_required_resource(w)
    t2.add_required_resource(w)
    ps.ObjectiveTasksStartEarliest()
    ps.ObjectivePriorities()
    describe(pb)


# ----------------------------------------------------------- extrema based
def max_lateness_all_and_subset():
    pb = ps.SchedulingProblem(name="MaxLate")
    w = ps.Worker(name="W")
    ts = []
    for i, (dur, due) in enumerate([(3, 2), (4, 20), (2, 0)]):
        t = ps.FixedDurationTask(
            name=f"T{i}", duration=dur, due_date=due, due_date_is_deadline=False
        )
        t.add_required_resource(w)
        ts.append(t)
    ps.TaskPrecedence(task_before=ts[0], task_after=ts[1])
    ps.TaskPrecedence(task_before=ts[1], task_after=ts[2])
    ps.TaskStartAt(task=ts[0], value=0)
    ps.IndicatorMaximumLateness()
    sub = ps.IndicatorMaximumLateness(list_of_tasks=[ts[0], ts[1]])
    ps.IndicatorBounds(indicator=sub, lower_bound=-20, upper_bound=5)
    ps.ObjectiveMinimizeMakespan()
    describe(pb)


def max_lateness_target():
    pb = ps.SchedulingProblem(name="MaxLateTarget", horizon=20)
    t = ps.FixedDurationTask(name="T", duration=5, due_date=8, due_date_is_deadline=False)
    ind = ps.IndicatorMaximumLateness(list_of_tasks=[t])
    ps.IndicatorTarget(indicator=ind, value=0)
    describe(pb)


def max_lateness_no_task():
    ps.SchedulingProblem(name="MaxLateEmpty", horizon=4)
    ps.IndicatorMaximumLateness()


def max_lateness_empty_list():
    ps.SchedulingProblem(name="MaxLateEmptyList", horizon=4)
    ps.FixedDurationTask(name="T", duration=1, due_date=1)
    ps.IndicatorMaximumLateness(list_of_tasks=[])


def buffer_extrema_non_concurrent():
    pb = ps.SchedulingProblem(name="BufNC")
    t1 = ps.FixedDurationTask(name="t1", duration=3)
    t2 = ps.FixedDurationTask(name="t2", duration=3)
    t3 = ps.FixedDurationTask(name="t3", duration=3)
    w = ps.Worker(name="W")
    for t in (t1, t2, t3):
        t.add_required_resource(w)
    buf = ps.NonConcurrentBuffer(name="B", initial_level=10)
    ps.TaskStartAt(task=t1, value=5)
    ps.TaskStartAt(task=t2, value=10)
    ps.TaskStartAt(task=t3, value=15)
    ps.TaskUnloadBuffer(task=t1, buffer=buf, quantity=3)
    ps.TaskUnloadBuffer(task=t2, buffer=buf, quantity=2)
    ps.TaskLoadBuffer(task=t3, buffer=buf, quantity=0)
    ps.IndicatorMaxBufferLevel(buffer=buf)
    mini = ps.IndicatorMinBufferLevel(buffer=buf)
    ps.IndicatorBounds(indicator=mini, lower_bound=0)
    describe(pb)


def buffer_extrema_concurrent_objective():
    pb = ps.SchedulingProblem(name="BufC", horizon=6)
    t1 = ps.FixedDurationTask(name="t1", duration=2)
    t2 = ps.FixedDurationTask(name="t2", duration=2)
    buf = ps.ConcurrentBuffer(name="C", initial_level=0)
    ps.TaskLoadBuffer(task=t1, buffer=buf, quantity=4)
    ps.TaskLoadBuffer(task=t2, buffer=buf, quantity=1)
    ps.IndicatorMinBufferLevel(buffer=buf)
    ps.ObjectiveMinimizeMaxBufferLevel(buffer=buf)
    describe(pb)


def buffer_untouched():
    pb = ps.SchedulingProblem(name="BufAlone", horizon=3)
    buf = ps.NonConcurrentBuffer(name="Alone", initial_level=0)
    ps.IndicatorMaxBufferLevel(buffer=buf)
    ps.IndicatorMinBufferLevel(buffer=buf)
    ps.ObjectiveMaximizeMaxBufferLevel(buffer=buf)
    describe(pb)


def start_latest():
    pb = ps.SchedulingProblem(name="StartLatest", horizon=9)
    t1 = ps.FixedDurationTask(name="t1", duration=3)
    t2 = ps.FixedDurationTask(name="t2", duration=2, optional=True)
    ps.TaskPrecedence(task_before=t1, task_after=t2)
    ps.ObjectiveTasksStartLatest()
    describe(pb)


def start_latest_subset_and_greatest_start():
    pb = ps.SchedulingProblem(name="GreatestStart", horizon=9)
    w = ps.Worker(name="W")
    t1 = ps.FixedDurationTask(name="t1", duration=3)
    t2 = ps.FixedDurationTask(name="t2", duration=2)
    t3 = ps.ZeroDurationTask(name="t3")
    for t in (t1, t2):
        t.add_required_resource(w)
    ps.ObjectiveMinimizeGreatestStartTime(list_of_tasks=[t1, t2])
    ps.IndicatorFromMathExpression(name="zero", expression=0)
    ps.IndicatorFromMathExpression(name="span", expression=t3._end - t1._start)
    describe(pb)


def start_latest_no_task():
    ps.SchedulingProblem(name="StartLatestEmpty", horizon=9)
    ps.ObjectiveTasksStartLatest()


def greatest_start_empty_list():
    ps.SchedulingProblem(name="GreatestEmpty", horizon=9)
    ps.FixedDurationTask(name="t1", duration=3)
    ps.ObjectiveMinimizeGreatestStartTime(list_of_tasks=[])


CASES = [
    ("00 util.get_maximum / get_minimum called directly", util_direct),
    ("01 ObjectivePriorities, mandatory + optional, priority 0, zero duration", priorities_mixed),
    ("02 ObjectivePriorities, mandatory only, incremental optimizer", priorities_mandatory_only),
    ("03 ObjectivePriorities without any task", priorities_no_task),
    ("04 ObjectivePriorities, a single optional variable duration task", priorities_single_task),
    ("05 ObjectiveTasksStartEarliest, mixed, list_of_tasks given", start_earliest_mixed),
    ("06 ObjectiveTasksStartEarliest + ObjectivePriorities (multi objective)", start_earliest_and_priorities_weighted),
    ("07 IndicatorMaximumLateness all tasks / subset / bounds / makespan", max_lateness_all_and_subset),
    ("08 IndicatorMaximumLateness with IndicatorTarget", max_lateness_target),
    ("09 IndicatorMaximumLateness without any task", max_lateness_no_task),
    ("10 IndicatorMaximumLateness with an empty list", max_lateness_empty_list),
    ("11 Max / Min buffer level, non concurrent buffer, quantity 0", buffer_extrema_non_concurrent),
    ("12 Min buffer level + ObjectiveMinimizeMaxBufferLevel, concurrent buffer", buffer_extrema_concurrent_objective),
    ("13 buffer nobody loads or unloads + ObjectiveMaximizeMaxBufferLevel", buffer_untouched),
    ("14 ObjectiveTasksStartLatest", start_latest),
    ("15 ObjectiveMinimizeGreatestStartTime on a subset + user expressions", start_latest_subset_and_greatest_start),
    ("16 ObjectiveTasksStartLatest without any task", start_latest_no_task),
    ("17 ObjectiveMinimizeGreatestStartTime with an empty list", greatest_start_empty_list),
]

if __name__ == "__main__":
    for title, fn in CASES:
        case(title, fn)
