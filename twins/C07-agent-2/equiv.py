"""Equivalence script for the C07 twin: exercises SchedulingSolver.solve,
check_sat and build_equivalent_weighted_objective on small problems and prints
a canonical description of each outcome.  Run from /tmp/t4_C07."""
import contextlib
import gc
import io
import os
import re
import sys
import warnings

sys.path.insert(0, os.getcwd())

import z3  # noqa: E402
import processscheduler as ps  # noqa: E402

assert os.path.dirname(ps.__file__).startswith(os.getcwd()), ps.__file__


def mask(text):
    text = re.sub(r"asst_[0-9a-f]{8}", "asst_XXXXXXXX", text)
    text = re.sub(r"\d+\.\d+s", "T.TTs", text)
    text = re.sub(r"[0-9a-f]{32}", "UUID", text)
    # random integer suffix of automatically named objects
    text = re.sub(r"([A-Za-z]+)_\d{8}\b", r"\1_NNNNNNNN", text)
    # z3 statistics that depend on the memory allocator / the clock
    text = re.sub(r"(num allocs|memory|max memory|time|rlimit count): .*", r"\1: MASKED", text)
    return text


def canonical_stdout(text):
    """mask random parts and sort the blocks of '-> name=value' lines printed by
    print_solution (z3 lists the declarations of a model in no fixed order)."""
    lines = mask(text).split("\n")
    out, block = [], []
    for line in lines:
        if re.match(r"^\s+-> \S+=\S+$", line):
            block.append(line)
        else:
            out.extend(sorted(block))
            block = []
            out.append(line)
    out.extend(sorted(block))
    return "\n".join(out)


def describe_solution(solution):
    if not solution:
        return repr(solution)
    tasks = sorted(
        (n, t.start, t.end, t.duration, t.scheduled, tuple(t.assigned_resources))
        for n, t in solution.tasks.items()
    )
    resources = sorted(
        (n, tuple(sorted(r.assignments))) for n, r in solution.resources.items()
    )
    return (
        f"horizon={solution.horizon} tasks={tasks} resources={resources} "
        f"indicators={sorted(solution.indicators.items())}"
    )


def assertions_of(solver):
    if solver._solver is None:
        return []
    return sorted(mask(str(a)) for a in solver._solver.assertions())


def run(title, build, action=None, **solver_args):
    """build() declares the problem and returns it; action(solver) returns a
    list of things to print (default: solve once)."""
    print("=" * 78)
    print("CASE", title, solver_args)
    out = io.StringIO()
    results = []
    solver = None
    # z3 recycles the identifiers of freed ASTs and its search depends on them:
    # free the previous problems now, and not at a moment that depends on the
    # number of Python allocations
    gc.collect()
    gc.disable()
    with warnings.catch_warnings(record=True) as caught:
        warnings.simplefilter("always")
        with contextlib.redirect_stdout(out):
            try:
                problem = build()
                solver = ps.SchedulingSolver(problem=problem, **solver_args)
                if action is None:
                    results.append(describe_solution(solver.solve()))
                else:
                    results.extend(action(solver))
            except Exception as exc:  # pylint: disable=broad-except
                results.append(f"ERROR {type(exc).__name__}: {exc}")
    for r in results:
        print("RESULT", mask(str(r)))
    for w in caught:
        print("WARNING", w.category.__name__, " ".join(str(w.message).split()))
    print("STDOUT")
    print(canonical_stdout(out.getvalue()))
    if solver is not None:
        print("OBJECTIVE", None if solver._objective is None else mask(str((
            solver._objective.name, solver._objective.kind, str(solver._objective._target)))))
        print("PROBLEM OBJECTIVES", [(o.name, o.kind, o.weight) for o in solver.problem.objectives.values()])
        print("PROBLEM INDICATORS", mask(str(list(solver.problem.indicators))))
        print("ASSERTIONS AFTER")
        for a in assertions_of(solver):
            print("   ", a)


# ----------------------------------------------------------------- problems
def three_tasks_one_worker(objectives, horizon=None, optional_last=False):
    def build():
        if horizon is None:
            pb = ps.SchedulingProblem(name="ThreeTasks")
        else:
            pb = ps.SchedulingProblem(name="ThreeTasks", horizon=horizon)
        t1 = ps.FixedDurationTask(name="t1", duration=2, priority=3)
        t2 = ps.FixedDurationTask(name="t2", duration=3, priority=1)
        t3 = ps.FixedDurationTask(name="t3", duration=1, priority=2, optional=optional_last)
        w = ps.Worker(name="w")
        for t in (t1, t2, t3):
            t.add_required_resource(w)
        ps.TaskPrecedence(task_before=t1, task_after=t2)
        for o in objectives:
            o(pb, (t1, t2, t3), w)
        return pb

    return build


def o_makespan(pb, tasks, w):
    ps.ObjectiveMinimizeMakespan()


def o_flowtime(pb, tasks, w):
    ps.ObjectiveMinimizeFlowtime()


def o_priorities(pb, tasks, w):
    ps.ObjectivePriorities()


def o_start_latest(pb, tasks, w):
    ps.ObjectiveTasksStartLatest()


def o_utilization(pb, tasks, w):
    ps.ObjectiveMaximizeResourceUtilization(resource=w)


def o_weighted(weight_a, weight_b, kind_b="minimize"):
    def o(pb, tasks, w):
        ia = ps.IndicatorFromMathExpression(name="EndT2", expression=tasks[1]._end)
        ib = ps.IndicatorFromMathExpression(name="StartT3", expression=tasks[2]._start)
        ps.ObjectiveMinimizeIndicator(target=ia, weight=weight_a)
        if kind_b == "minimize":
            ps.ObjectiveMinimizeIndicator(target=ib, weight=weight_b)
        else:
            ps.ObjectiveMaximizeIndicator(target=ib, weight=weight_b)

    return o


def unsat_problem(with_objective, named_constraints=True):
    def build():
        pb = ps.SchedulingProblem(name="Unsat", horizon=4)
        t1 = ps.FixedDurationTask(name="t1", duration=3)
        t2 = ps.FixedDurationTask(name="t2", duration=3)
        w = ps.Worker(name="w")
        t1.add_required_resource(w)
        t2.add_required_resource(w)
        if named_constraints:
            ps.TaskStartAt(task=t1, value=0)
            ps.TaskStartAt(task=t2, value=0)
        if with_objective:
            ps.ObjectiveMinimizeMakespan()
        return pb

    return build


class UnknownProxy:
    """wraps a z3 solver; check() answers unknown after `sat_calls` real calls."""

    def __init__(self, real, sat_calls):
        self._real = real
        self._left = sat_calls

    def check(self, *args):
        if self._left > 0:
            self._left -= 1
            return self._real.check(*args)
        return z3.unknown

    def reason_unknown(self):
        return "canceled (simulated)"

    def __getattr__(self, name):
        return getattr(self._real, name)


def act_unknown(sat_calls):
    def action(solver):
        solver.initialize()
        solver._solver = UnknownProxy(solver._solver, sat_calls)
        return [describe_solution(solver.solve())]

    return action


def act_check_sat(solver):
    solver.initialize()
    res = []
    for flag in (False, True, None, 0, 1):
        r, t = solver.check_sat(flag)
        res.append(f"check_sat({flag!r}) -> {r} {type(t).__name__}")
    r, t = solver.check_sat()
    res.append(f"check_sat() -> {r}")
    return res


def act_build_equivalent(solver):
    # direct call of the public helper on a z3.Solver
    solver._solver = z3.Solver()
    res = []
    try:
        o, i = solver.build_equivalent_weighted_objective()
        res.append(("returned", o.name, o.kind, o.weight, str(o._target), i.name, o is solver._objective))
    except Exception as exc:  # pylint: disable=broad-except
        res.append(f"ERROR {type(exc).__name__}: {exc}")
    try:
        o, i = solver.build_equivalent_weighted_objective()
        res.append(("returned twice", o.name))
    except Exception as exc:  # pylint: disable=broad-except
        res.append(f"ERROR second call {type(exc).__name__}: {exc}")
    return res


def act_solve_then_another(solver):
    first = solver.solve()
    res = [describe_solution(first)]
    res.append(describe_solution(solver.find_another_solution()))
    res.append(describe_solution(solver.solve()))
    return res


def act_pareto(solver):
    res = []
    sol = solver.solve()
    n = 0
    while sol and n < 30:
        res.append(describe_solution(sol))
        sol = solver.solve()
        n += 1
    res.append(f"number of pareto solutions {n}, last {sol!r}")
    return sorted(res)


def two_free_tasks():
    pb = ps.SchedulingProblem(name="TwoFree", horizon=8)
    t1 = ps.FixedDurationTask(name="task1", duration=3)
    t2 = ps.FixedDurationTask(name="task2", duration=3)
    ps.ConstraintFromExpression(expression=t1._end == 8 - t2._start)
    i1 = ps.IndicatorFromMathExpression(name="Task1End", expression=t1._end)
    i2 = ps.IndicatorFromMathExpression(name="Task2Start", expression=t2._start)
    ps.ObjectiveMaximizeIndicator(target=i1)
    ps.ObjectiveMaximizeIndicator(target=i2, weight=0)
    return pb


def no_task_problem():
    pb = ps.SchedulingProblem(name="Empty")
    ps.ObjectiveMinimizeMakespan()
    return pb


def existing_equivalent_name():
    # a user objective already uses the name of the equivalent objective
    pb = ps.SchedulingProblem(name="Clash", horizon=10)
    t1 = ps.FixedDurationTask(name="t1", duration=2)
    ps.Objective(name="MinimizeEquivalentObjective", target=t1._end, kind="minimize")
    ps.ObjectiveMinimizeMakespan()
    return pb


if __name__ == "__main__":
    # 1-2: one objective, both optimisers
    for opt in ("incremental", "optimize"):
        run("makespan", three_tasks_one_worker([o_makespan]), optimizer=opt)
        run("priorities optional", three_tasks_one_worker([o_priorities], optional_last=True), optimizer=opt)
        run("start latest (max)", three_tasks_one_worker([o_start_latest], horizon=10), optimizer=opt)
        run("utilization bounded", three_tasks_one_worker([o_utilization], horizon=6), optimizer=opt)
    # 3: weighted sums
    run("weighted 1/2", three_tasks_one_worker([o_weighted(1, 2)]), optimizer="incremental")
    run("weighted 1/2", three_tasks_one_worker([o_weighted(1, 2)]), optimizer="optimize", optimize_priority="weight")
    run("weighted 3/0", three_tasks_one_worker([o_weighted(3, 0)]), optimizer="incremental")
    run("weighted mixed kinds, last max", three_tasks_one_worker([o_weighted(1, 1, "maximize")], horizon=9), optimizer="incremental")
    run("weighted mixed kinds, last max", three_tasks_one_worker([o_weighted(1, 1, "maximize")], horizon=9), optimizer="optimize", optimize_priority="weight")
    run("three objectives", three_tasks_one_worker([o_makespan, o_flowtime, o_priorities], optional_last=True), optimizer="incremental")
    run("lex", three_tasks_one_worker([o_makespan, o_flowtime]), optimizer="optimize", optimize_priority="lex")
    run("box", two_free_tasks, optimizer="optimize", optimize_priority="box")
    run("pareto", two_free_tasks, act_pareto, optimizer="optimize", optimize_priority="pareto")
    run("two free incremental, weight 0", two_free_tasks, optimizer="incremental")
    # 4: early stops
    for mi in (0, 1, 2, 50):
        run("flowtime max_iter", three_tasks_one_worker([o_flowtime]), optimizer="incremental", max_iter=mi)
    run("weighted max_iter 1", three_tasks_one_worker([o_weighted(2, 1)]), optimizer="incremental", max_iter=1)
    # 5: unsat, with and without debug
    for dbg in (False, True):
        run("unsat no objective", unsat_problem(False), debug=dbg)
        run("unsat incremental", unsat_problem(True), debug=dbg, optimizer="incremental")
        run("unsat optimize", unsat_problem(True), debug=dbg, optimizer="optimize")
        run("unsat unnamed constraints", unsat_problem(False, named_constraints=False), debug=dbg)
    run("sat debug", three_tasks_one_worker([o_makespan]), debug=True)
    # 6: unknown
    run("unknown at once, no objective", three_tasks_one_worker([]), act_unknown(0))
    run("unknown at once, incremental", three_tasks_one_worker([o_flowtime]), act_unknown(0))
    run("unknown after 2 checks, incremental", three_tasks_one_worker([o_flowtime]), act_unknown(2))
    run("unknown debug", three_tasks_one_worker([]), act_unknown(0), debug=True)
    # 7: check_sat flag values
    run("check_sat sat", three_tasks_one_worker([]), act_check_sat)
    run("check_sat unsat", unsat_problem(False), act_check_sat)
    # 8: the public helper, called directly
    run("build_equivalent no objective", three_tasks_one_worker([]), act_build_equivalent)
    run("build_equivalent one objective", three_tasks_one_worker([o_makespan]), act_build_equivalent)
    run("build_equivalent two", three_tasks_one_worker([o_weighted(2, 5, "maximize")]), act_build_equivalent)
    run("equivalent name clash", existing_equivalent_name, optimizer="incremental")
    # 9: misc
    run("no task", no_task_problem)
    run("no objective", three_tasks_one_worker([]))
    run("another solution", three_tasks_one_worker([o_makespan]), act_solve_then_another)
    run("another solution optimize", three_tasks_one_worker([o_flowtime]), act_solve_then_another, optimizer="optimize")
