"""Equivalence script for the C13 refactoring (solver reuse: solve / solve again /
find another solution / export, in any order).

Run with:  cd /tmp/t3_C13 && /venv/bin/python _twin/equiv.py > out.txt
Prints, per scenario, a canonical description of what happened: returned
values, the sorted str() of the solver's assertions after each step, the text
the solver printed (timings masked), warnings and errors.
"""
import contextlib
import io
import os
import re
import sys
import tempfile
import warnings

sys.path.insert(0, os.getcwd())

import z3  # noqa: E402
import processscheduler as ps  # noqa: E402
import processscheduler.solver as solver_module  # noqa: E402

assert os.path.realpath(solver_module.__file__).startswith(
    os.path.realpath(os.getcwd())
), solver_module.__file__

# make the solver's prints plain (no rich markup/wrapping), so they can be compared
solver_module.print = print

MASKS = [
    (re.compile(r"asst_[0-9a-f]{8}"), "asst_XXXXXXXX"),
    (re.compile(r"elapsed time:[0-9.]+s"), "elapsed time:Ts"),
    (re.compile(r"checked in [0-9.]+s"), "checked in Ts"),
    (re.compile(r"(Selected_[A-Za-z0-9]+_)\d+"), r"\1UID"),
    (re.compile(r"[0-9a-f]{32}"), "UUID"),
]


def mask(text):
    for rgx, sub in MASKS:
        text = rgx.sub(sub, text)
    return text


def describe_solution(sol):
    if not sol:
        return repr(sol)
    parts = [f"horizon={sol.horizon}"]
    for name in sorted(sol.tasks):
        t = sol.tasks[name]
        parts.append(
            f"{name}:[{t.start},{t.end}] sched={t.scheduled} res={sorted(t.assigned_resources)}"
        )
    for name in sorted(sol.indicators):
        parts.append(f"ind {name}={sol.indicators[name]}")
    return " | ".join(parts)


def assertions_of(solver):
    if solver._solver is None:
        return ["<no z3 solver yet>"]
    return sorted(mask(str(a)) for a in solver._solver.assertions())


class Recorder:
    def __init__(self, title):
        self.title = title
        self.lines = []

    def step(self, label, fct, solver=None, show_assertions=False, show_stdout=True):
        out = io.StringIO()
        with warnings.catch_warnings(record=True) as caught:
            warnings.simplefilter("always")
            with contextlib.redirect_stdout(out):
                try:
                    res = fct()
                    outcome = describe_solution(res) if not isinstance(
                        res, (str, int, list, tuple)
                    ) or isinstance(res, bool) else repr(res)
                except Exception as exc:  # noqa: BLE001
                    outcome = f"RAISED {type(exc).__name__}: {exc}"
        self.lines.append(f"  [{label}] -> {outcome}")
        for w in caught:
            msg = " ".join(str(w.message).split())
            self.lines.append(f"      warning {w.category.__name__}: {msg}")
        if show_stdout:
            for ln in mask(out.getvalue()).splitlines():
                if ln.strip():
                    self.lines.append(f"      out| {ln}")
        if solver is not None:
            ass = assertions_of(solver)
            self.lines.append(f"      nb_assertions={len(ass)}")
            if show_assertions:
                for a in ass:
                    self.lines.append(f"      asst| {' '.join(a.split())}")

    def dump(self):
        print("=" * 78)
        print(self.title)
        print("=" * 78)
        for ln in self.lines:
            print(ln)
        print()


def smt2_of(solver):
    with tempfile.TemporaryDirectory() as tmp:
        fn = os.path.join(tmp, "pb.smt2")
        solver.export_to_smt2(fn)
        with open(fn, encoding="utf-8") as f:
            content = f.read()
    return f"smt2 {len(content.splitlines())} lines, {content.count('assert')} asserts"


# ----------------------------------------------------------------------------
def scenario_1():
    """no objective, mandatory tasks: solve twice, then enumerate with find_another_solution"""
    r = Recorder("S1 satisfiability problem, solve/solve/find_another_solution until exhausted")
    pb = ps.SchedulingProblem(name="S1", horizon=3)
    ps.FixedDurationTask(name="T1", duration=2)
    ps.FixedDurationTask(name="T2", duration=1)
    s = ps.SchedulingSolver(problem=pb)
    r.step("find_another before solve", s.find_another_solution, s)
    r.step("solve 1", s.solve, s, show_assertions=True)
    r.step("solve 2", s.solve, s, show_assertions=True)
    seen = []
    for i in range(10):
        holder = {}

        def another():
            holder["sol"] = s.find_another_solution()
            return holder["sol"]

        r.step(f"find_another {i}", another, s, show_assertions=(i < 2))
        if not holder.get("sol"):
            break
        sol = holder["sol"]
        seen.append(tuple((n, sol.tasks[n].start, sol.tasks[n].end) for n in sorted(sol.tasks)))
    r.lines.append(f"  enumerated {len(seen)} other schedules, distinct={len(set(seen))}")
    r.lines.append(f"  sorted: {sorted(set(seen))}")
    r.step("solve after exhaustion", s.solve, s)
    r.dump()


def scenario_2():
    """optional tasks and zero duration task: the optional branch of find_another_solution"""
    r = Recorder("S2 optional + zero-duration tasks, enumeration with find_another_solution")
    pb = ps.SchedulingProblem(name="S2", horizon=2)
    ps.FixedDurationTask(name="Opt", duration=1, optional=True)
    ps.ZeroDurationTask(name="Zero")
    ps.FixedDurationTask(name="Mand", duration=2)
    s = ps.SchedulingSolver(problem=pb)
    r.step("initialize", lambda: s.initialize() or "done", s, show_assertions=True)
    r.step("export", lambda: smt2_of(s), s)
    r.step("solve", s.solve, s)
    seen = []
    for i in range(40):
        holder = {}

        def another():
            holder["sol"] = s.find_another_solution()
            return holder["sol"]

        r.step(f"find_another {i}", another, s, show_assertions=(i == 0), show_stdout=False)
        if not holder.get("sol"):
            break
        sol = holder["sol"]
        seen.append(
            tuple(
                (n, sol.tasks[n].start, sol.tasks[n].end, sol.tasks[n].scheduled)
                for n in sorted(sol.tasks)
            )
        )
    r.lines.append(f"  enumerated {len(seen)} other schedules, distinct={len(set(seen))}")
    r.dump()


def scenario_3():
    """incremental minimize makespan; solve, solve again, another solution, export in between"""
    r = Recorder("S3 incremental minimize makespan: solve, export, solve, find_another, solve")
    pb = ps.SchedulingProblem(name="S3")
    t1 = ps.FixedDurationTask(name="A", duration=3)
    t2 = ps.FixedDurationTask(name="B", duration=2)
    t3 = ps.VariableDurationTask(name="C", work_amount=4)
    w = ps.Worker(name="W", productivity=2)
    for t in (t1, t2, t3):
        t.add_required_resource(w)
    ps.TaskPrecedence(task_before=t1, task_after=t2)
    ps.ObjectiveMinimizeMakespan()
    s = ps.SchedulingSolver(problem=pb)
    r.step("export before anything", lambda: smt2_of(s), s, show_assertions=True)
    r.step("solve 1", s.solve, s, show_assertions=True)
    r.step("export", lambda: smt2_of(s), s)
    r.step("solve 2", s.solve, s, show_assertions=True)
    r.step("find_another", s.find_another_solution, s, show_assertions=True)
    r.step("find_another_for_variable", lambda: s.find_another_solution_for_variable(t1._start), s, show_assertions=True)
    r.step("solve 3", s.solve, s)
    r.step("num_scopes", lambda: s._solver.num_scopes())
    r.dump()


def scenario_4():
    """incremental maximize, bounded indicator (stops at the bound) and unbounded"""
    for bounds in (None, (0, 7), (0, 100), (7, 0)):
        r = Recorder(f"S4 incremental maximize indicator, bounds={bounds}")
        pb = ps.SchedulingProblem(name="S4", horizon=10)
        t1 = ps.FixedDurationTask(name="A", duration=3)
        t2 = ps.FixedDurationTask(name="B", duration=3, optional=True)
        ps.TaskPrecedence(task_before=t1, task_after=t2)
        kw = {} if bounds is None else {"bounds": bounds}
        ind = ps.IndicatorFromMathExpression(name="AStart", expression=t1._start, **kw)
        ps.ObjectiveMaximizeIndicator(target=ind)
        s = ps.SchedulingSolver(problem=pb)
        r.step("solve 1", s.solve, s)
        r.step("solve 2", s.solve, s, show_assertions=True)
        r.step("find_another", s.find_another_solution, s)
        r.step("find_another_for_variable", lambda: s.find_another_solution_for_variable(ind._indicator_variable), s)
        r.step("num_scopes", lambda: s._solver.num_scopes())
        r.dump()


def scenario_5():
    """bounded minimisation: min kind uses the lower bound"""
    for bounds in ((2, 50), (0, 50), None):
        r = Recorder(f"S5 incremental minimize indicator, bounds={bounds}")
        pb = ps.SchedulingProblem(name="S5", horizon=12)
        tasks = [ps.FixedDurationTask(name=f"T{i}", duration=i) for i in range(1, 5)]
        w = ps.Worker(name="W")
        for t in tasks:
            t.add_required_resource(w)
        ps.TaskStartAfter(task=tasks[0], value=2)
        kw = {} if bounds is None else {"bounds": bounds}
        ind = ps.IndicatorFromMathExpression(name="Sum", expression=tasks[0]._start + tasks[3]._end, **kw)
        ps.ObjectiveMinimizeIndicator(target=ind)
        s = ps.SchedulingSolver(problem=pb)
        r.step("solve 1", s.solve, s)
        r.step("solve 2", s.solve, s)
        r.step("find_another", s.find_another_solution, s)
        r.step("num_scopes", lambda: s._solver.num_scopes())
        r.dump()


def scenario_6():
    """max_iter edge values, including 0"""
    for max_iter in (0, 1, 2, 3, None):
        r = Recorder(f"S6 incremental minimize makespan with max_iter={max_iter}")
        pb = ps.SchedulingProblem(name="S6")
        tasks = [ps.FixedDurationTask(name=f"T{i}", duration=2) for i in range(4)]
        w = ps.Worker(name="W")
        for t in tasks:
            t.add_required_resource(w)
        ps.ObjectiveMinimizeMakespan()
        kw = {} if max_iter is None else {"max_iter": max_iter}
        s = ps.SchedulingSolver(problem=pb, **kw)
        r.step("solve 1", s.solve, s)
        r.step("find_another", s.find_another_solution, s)
        r.step("solve 2", s.solve, s)
        r.step("num_scopes", lambda: s._solver.num_scopes())
        r.dump()


def scenario_7():
    """infeasible problems, with and without objective; many iterations"""
    r = Recorder("S7a infeasible, no objective")
    pb = ps.SchedulingProblem(name="S7a", horizon=3)
    t = ps.FixedDurationTask(name="A", duration=2)
    ps.TaskStartAt(task=t, value=2)
    s = ps.SchedulingSolver(problem=pb)
    r.step("solve 1", s.solve, s)
    r.step("find_another", s.find_another_solution, s)
    r.step("find_another_var", lambda: s.find_another_solution_for_variable(t._start), s)
    r.step("solve 2", s.solve, s)
    r.dump()

    r = Recorder("S7b infeasible, incremental objective")
    pb = ps.SchedulingProblem(name="S7b", horizon=3)
    t = ps.FixedDurationTask(name="A", duration=2)
    ps.TaskStartAt(task=t, value=2)
    ps.ObjectiveMinimizeMakespan()
    s = ps.SchedulingSolver(problem=pb)
    r.step("solve 1", s.solve, s)
    r.step("find_another", s.find_another_solution, s)
    r.step("solve 2", s.solve, s, show_assertions=True)
    r.dump()

    r = Recorder("S7c long incremental run (more than three iterations), maximize")
    pb = ps.SchedulingProblem(name="S7c", horizon=40)
    t1 = ps.FixedDurationTask(name="A", duration=1)
    t2 = ps.FixedDurationTask(name="B", duration=1)
    ps.TaskPrecedence(task_before=t1, task_after=t2, offset=1)
    ps.ObjectiveTasksStartLatest()
    s = ps.SchedulingSolver(problem=pb)
    r.step("solve 1", s.solve, s)
    r.step("solve 2", s.solve, s)
    r.step("find_another", s.find_another_solution, s)
    r.step("num_scopes", lambda: s._solver.num_scopes())
    r.dump()


def scenario_8():
    """multi objective: incremental weighted, optimize lex, optimize pareto walk"""
    def build(name):
        pb = ps.SchedulingProblem(name=name, horizon=8)
        t1 = ps.FixedDurationTask(name="A", duration=3)
        t2 = ps.FixedDurationTask(name="B", duration=3)
        ps.ConstraintFromExpression(expression=t1._end == 8 - t2._start)
        i1 = ps.IndicatorFromMathExpression(name="AEnd", expression=t1._end)
        i2 = ps.IndicatorFromMathExpression(name="BStart", expression=t2._start)
        ps.ObjectiveMaximizeIndicator(target=i1, weight=2)
        ps.ObjectiveMaximizeIndicator(target=i2)
        return pb, t1

    r = Recorder("S8a multi objective incremental (weighted)")
    pb, t1 = build("S8a")
    s = ps.SchedulingSolver(problem=pb)
    r.step("solve 1", s.solve, s)
    r.step("solve 2", s.solve, s, show_assertions=True)
    r.step("find_another", s.find_another_solution, s)
    r.step("num_scopes", lambda: s._solver.num_scopes())
    r.dump()

    r = Recorder("S8b multi objective optimize lex")
    pb, t1 = build("S8b")
    s = ps.SchedulingSolver(problem=pb, optimizer="optimize", optimize_priority="lex")
    r.step("solve 1", s.solve, s)
    r.step("export", lambda: smt2_of(s), s)
    r.step("solve 2", s.solve, s)
    r.step("find_another_var", lambda: s.find_another_solution_for_variable(t1._start), s)
    r.dump()

    r = Recorder("S8c multi objective optimize pareto walk")
    pb, t1 = build("S8c")
    s = ps.SchedulingSolver(problem=pb, optimizer="optimize", optimize_priority="pareto")
    for i in range(12):
        holder = {}

        def one():
            holder["sol"] = s.solve()
            return holder["sol"]

        r.step(f"solve {i}", one, s, show_stdout=False)
        if not holder["sol"]:
            break
    r.dump()


def scenario_9():
    """find_another_solution_for_variable enumerations, resources, single optimize objective"""
    r = Recorder("S9a enumerate a start with find_another_solution_for_variable")
    pb = ps.SchedulingProblem(name="S9a", horizon=4)
    t = ps.FixedDurationTask(name="A", duration=2)
    s = ps.SchedulingSolver(problem=pb)
    r.step("for_variable before solve", lambda: s.find_another_solution_for_variable(t._start), s)
    r.step("solve", s.solve, s)
    for i in range(5):
        r.step(f"another {i}", lambda: s.find_another_solution_for_variable(t._start), s, show_assertions=True)
    r.step("bad variable", lambda: s.find_another_solution_for_variable(z3.Int("not_in_model")), s)
    r.dump()

    r = Recorder("S9b single objective with z3 Optimize, then another solution")
    pb = ps.SchedulingProblem(name="S9b")
    t1 = ps.FixedDurationTask(name="A", duration=2)
    t2 = ps.FixedDurationTask(name="B", duration=2, optional=True)
    w1 = ps.Worker(name="W1")
    w2 = ps.Worker(name="W2")
    t1.add_required_resource(ps.SelectWorkers(list_of_workers=[w1, w2], nb_workers_to_select=1))
    t2.add_required_resource(w1)
    ps.ObjectiveMinimizeMakespan()
    s = ps.SchedulingSolver(problem=pb, optimizer="optimize")
    r.step("solve 1", s.solve, s)
    r.step("find_another", s.find_another_solution, s, show_assertions=True)
    r.step("solve 2", s.solve, s)
    r.dump()


def scenario_10():
    """debug mode (assert_and_track) with the incremental optimizer; run last: changes z3 globals"""
    r = Recorder("S10 debug mode incremental")
    pb = ps.SchedulingProblem(name="S10", horizon=6)
    t1 = ps.FixedDurationTask(name="A", duration=2)
    t2 = ps.FixedDurationTask(name="B", duration=2, optional=True)
    ps.TaskPrecedence(task_before=t1, task_after=t2)
    ps.ObjectiveMinimizeMakespan()
    s = ps.SchedulingSolver(problem=pb, debug=True)
    r.step("solve 1", s.solve, s, show_assertions=True, show_stdout=False)
    r.step("solve 2", s.solve, s, show_stdout=False)
    r.step("find_another", s.find_another_solution, s, show_assertions=True, show_stdout=False)
    r.step("num_scopes", lambda: s._solver.num_scopes())
    r.dump()


if __name__ == "__main__":
    for scen in (
        scenario_1,
        scenario_2,
        scenario_3,
        scenario_4,
        scenario_5,
        scenario_6,
        scenario_7,
        scenario_8,
        scenario_9,
        scenario_10,
    ):
        try:
            scen()
        except Exception as exc:  # noqa: BLE001
            print(f"SCENARIO {scen.__name__} CRASHED: {type(exc).__name__}: {exc}")
