"""Equivalence harness for the util.py refactoring (C09, buffers).

Run from the worktree root:  cd /tmp/t4_C09 && /venv/bin/python _twin/equiv.py
Prints, for every scenario, the solver assertions (in solver order), the
solution values or the error raised.  Output is deterministic (fresh z3
variable names are numbered by creation order, which is part of what is
compared); the only masked parts are uuid-like hexadecimal suffixes.
"""
import contextlib
import io
import os
import re
import sys

sys.path.insert(0, os.getcwd())

import z3  # noqa: E402
import processscheduler as ps  # noqa: E402
from processscheduler.util import (  # noqa: E402
    sort_duplicates,
    sort_no_duplicates,
    clean_buffer_levels,
)

assert ps.__file__.startswith(os.getcwd()), ps.__file__

MASK = re.compile(r"[0-9a-f]{8}(?![0-9a-zA-Z])")


def mask(text):
    return MASK.sub("<uid>", text)


def describe(title, build):
    print("=" * 70)
    print(title)
    try:
        sink = io.StringIO()
        with contextlib.redirect_stdout(sink):
            pb, kwargs = build()
            solver = ps.SchedulingSolver(problem=pb, **kwargs)
            solver.initialize()
            assertions = [mask(str(a)) for a in solver._solver.assertions()]
            solution = solver.solve()
    except Exception as exc:  # pylint: disable=broad-except
        print(f"ERROR {type(exc).__name__}: {exc}")
        return
    print(f"-- {len(assertions)} assertions (solver order)")
    for a in assertions:
        print("   ", " ".join(a.split()))
    if not solution:
        print("-- solution: NONE", repr(solution))
        return
    print("-- horizon:", solution.horizon)
    for name in sorted(solution.tasks):
        t = solution.tasks[name]
        print(f"   task {name}: scheduled={t.scheduled} start={t.start} end={t.end}")
    for name in sorted(solution.buffers):
        b = solution.buffers[name]
        print(f"   buffer {name}: level={b.level} times={b.level_change_times}")
    for name in sorted(solution.indicators):
        print(f"   indicator {name}: {solution.indicators[name]}")


# ---------------------------------------------------------------- scenarios
def s1():
    pb = ps.SchedulingProblem(name="S1")
    t1 = ps.FixedDurationTask(name="task1", duration=3)
    buf = ps.NonConcurrentBuffer(name="Buffer1", initial_level=10)
    ps.TaskStartAt(task=t1, value=5)
    ps.TaskUnloadBuffer(task=t1, buffer=buf, quantity=3)
    return pb, {}


def s2():
    pb = ps.SchedulingProblem(name="S2", horizon=20)
    t1 = ps.FixedDurationTask(name="u1", duration=3)
    t2 = ps.FixedDurationTask(name="l1", duration=2)
    t3 = ps.FixedDurationTask(name="u2", duration=4)
    buf = ps.NonConcurrentBuffer(
        name="B", initial_level=5, final_level=6, lower_bound=0, upper_bound=9
    )
    ps.TaskUnloadBuffer(task=t1, buffer=buf, quantity=2)
    ps.TaskLoadBuffer(task=t2, buffer=buf, quantity=4)
    ps.TaskUnloadBuffer(task=t3, buffer=buf, quantity=1)
    ps.TaskStartAt(task=t1, value=1)
    ps.TaskStartAt(task=t2, value=4)
    ps.TaskStartAt(task=t3, value=9)
    return pb, {}


def s3():
    # concurrent buffer, two unloads and one load at the very same instant
    pb = ps.SchedulingProblem(name="S3", horizon=12)
    t1 = ps.FixedDurationTask(name="a", duration=3)
    t2 = ps.FixedDurationTask(name="b", duration=5)
    t3 = ps.FixedDurationTask(name="c", duration=4)
    buf = ps.ConcurrentBuffer(name="CB", initial_level=20, lower_bound=0)
    ps.TaskUnloadBuffer(task=t1, buffer=buf, quantity=3)
    ps.TaskUnloadBuffer(task=t2, buffer=buf, quantity=4)
    ps.TaskLoadBuffer(task=t3, buffer=buf, quantity=10)
    ps.TaskStartAt(task=t1, value=4)
    ps.TaskStartAt(task=t2, value=4)
    ps.TaskEndAt(task=t3, value=4)
    return pb, {}


def s4():
    # non concurrent buffer, two accesses forced at the same instant: unsat
    pb = ps.SchedulingProblem(name="S4", horizon=12)
    t1 = ps.FixedDurationTask(name="a", duration=3)
    t2 = ps.FixedDurationTask(name="b", duration=5)
    buf = ps.NonConcurrentBuffer(name="NB", initial_level=20)
    ps.TaskUnloadBuffer(task=t1, buffer=buf, quantity=3)
    ps.TaskUnloadBuffer(task=t2, buffer=buf, quantity=4)
    ps.TaskStartAt(task=t1, value=4)
    ps.TaskStartAt(task=t2, value=4)
    return pb, {}


def s5():
    # only final level, quantity 0, initial unknown, concurrent buffer
    pb = ps.SchedulingProblem(name="S5", horizon=10)
    t1 = ps.FixedDurationTask(name="z", duration=2)
    t2 = ps.ZeroDurationTask(name="zero")
    buf = ps.ConcurrentBuffer(name="F", final_level=0, lower_bound=0, upper_bound=7)
    ps.TaskLoadBuffer(task=t1, buffer=buf, quantity=0)
    ps.TaskUnloadBuffer(task=t2, buffer=buf, quantity=7)
    ps.TaskStartAt(task=t1, value=0)
    ps.TaskStartAt(task=t2, value=6)
    return pb, {}


def s6():
    # bounds that cannot be met -> no solution
    pb = ps.SchedulingProblem(name="S6", horizon=10)
    t1 = ps.FixedDurationTask(name="u", duration=2)
    buf = ps.NonConcurrentBuffer(name="LB", initial_level=3, lower_bound=1)
    ps.TaskUnloadBuffer(task=t1, buffer=buf, quantity=3)
    return pb, {}


def s7():
    # optional unloading task + mandatory loading task, two buffers
    pb = ps.SchedulingProblem(name="S7", horizon=15)
    t1 = ps.FixedDurationTask(name="opt", duration=2, optional=True)
    t2 = ps.FixedDurationTask(name="mand", duration=3)
    b1 = ps.NonConcurrentBuffer(name="B1", initial_level=0, upper_bound=5)
    b2 = ps.ConcurrentBuffer(name="B2", initial_level=8, final_level=6)
    ps.TaskLoadBuffer(task=t2, buffer=b1, quantity=5)
    ps.TaskUnloadBuffer(task=t2, buffer=b2, quantity=2)
    ps.TaskUnloadBuffer(task=t1, buffer=b1, quantity=1)
    ps.TaskStartAt(task=t2, value=2)
    ps.TaskStartAt(task=t1, value=7)
    ps.ForceScheduleNOptionalTasks(list_of_optional_tasks=[t1], nb_tasks_to_schedule=1)
    return pb, {}


def s8():
    # buffer level indicator + objective (Optimize solver)
    pb = ps.SchedulingProblem(name="S8", horizon=12)
    t1 = ps.FixedDurationTask(name="l", duration=2)
    t2 = ps.FixedDurationTask(name="u", duration=2)
    buf = ps.NonConcurrentBuffer(name="OB", initial_level=2)
    ps.TaskLoadBuffer(task=t1, buffer=buf, quantity=3)
    ps.TaskUnloadBuffer(task=t2, buffer=buf, quantity=2)
    ps.TaskStartAt(task=t1, value=0)
    ps.TaskStartAt(task=t2, value=5)
    ps.IndicatorMinBufferLevel(buffer=buf)
    ps.ObjectiveMinimizeMaxBufferLevel(buffer=buf)
    return pb, {}


def s9():
    # no initial nor final level
    pb = ps.SchedulingProblem(name="S9", horizon=10)
    ps.ConcurrentBuffer(name="bad")
    return pb, {}


def s10():
    # buffer that no task accesses
    pb = ps.SchedulingProblem(name="S10", horizon=4)
    ps.FixedDurationTask(name="alone", duration=1)
    ps.NonConcurrentBuffer(name="idleN", initial_level=0, final_level=0)
    ps.ConcurrentBuffer(name="idleC", initial_level=4, lower_bound=4, upper_bound=4)
    return pb, {}


def s11():
    # other callers of sort_no_duplicates: ordered task group / resource tasks distance
    pb = ps.SchedulingProblem(name="S11", horizon=20)
    w = ps.Worker(name="W")
    tasks = [ps.FixedDurationTask(name=f"t{i}", duration=2) for i in range(3)]
    for t in tasks:
        t.add_required_resource(w)
    ps.ResourceTasksDistance(resource=w, distance=3, mode="min")
    buf = ps.NonConcurrentBuffer(name="RB", initial_level=1, upper_bound=4)
    for t in tasks:
        ps.TaskLoadBuffer(task=t, buffer=buf, quantity=1)
    return pb, {}


def s12():
    # debug mode (assert_and_track), concurrent buffer, four accesses
    pb = ps.SchedulingProblem(name="S12", horizon=9)
    ts = [ps.FixedDurationTask(name=f"k{i}", duration=i + 1) for i in range(4)]
    buf = ps.ConcurrentBuffer(name="DB", initial_level=1, final_level=1, lower_bound=0)
    ps.TaskLoadBuffer(task=ts[0], buffer=buf, quantity=2)
    ps.TaskUnloadBuffer(task=ts[1], buffer=buf, quantity=2)
    ps.TaskLoadBuffer(task=ts[2], buffer=buf, quantity=1)
    ps.TaskUnloadBuffer(task=ts[3], buffer=buf, quantity=1)
    for i, t in enumerate(ts):
        ps.TaskStartAt(task=t, value=i)
    return pb, {"debug": True}


for fn in (s1, s2, s3, s4, s5, s6, s7, s8, s9, s10, s11, s12):
    describe(fn.__name__ + " " + (fn.__doc__ or ""), fn)


# ------------------------------------------------------ direct function calls
print("=" * 70)
print("direct calls")


def show(label, fn):
    try:
        print(label, "->", fn())
    except Exception as exc:  # pylint: disable=broad-except
        print(label, "-> ERROR", type(exc).__name__, exc)


for n in (0, 1, 2, 3, 5):
    variables = [z3.Int(f"v{n}_{i}") for i in range(n)]
    before = list(variables)
    show(f"sort_duplicates n={n}", lambda: sort_duplicates(variables))
    res = sort_duplicates(variables)
    print("   input untouched:", variables == before and all(a is b for a, b in zip(variables, before)),
          "new list:", res[0] is not variables, "types:", type(res).__name__, type(res[0]).__name__, type(res[1]).__name__)
    show(f"sort_no_duplicates n={n}", lambda: sort_no_duplicates(variables))
    res = sort_no_duplicates(variables)
    print("   types:", type(res).__name__, type(res[0]).__name__, type(res[1]).__name__, len(res[0]), len(res[1]))

# mixed python ints / z3 values, repeated entries
mixed = [z3.Int("m0"), z3.IntVal(3), z3.Int("m0")]
show("sort_duplicates mixed", lambda: sort_duplicates(mixed))
show("sort_no_duplicates mixed", lambda: sort_no_duplicates(mixed))
show("sort_duplicates tuple", lambda: sort_duplicates((z3.Int("q"),)))
show("sort_no_duplicates tuple", lambda: sort_no_duplicates((z3.Int("q"), z3.Int("r"))))

# the sorting assertions do sort: check with a model
vs = [z3.Int(f"w{i}") for i in range(4)]
for sorter in (sort_duplicates, sort_no_duplicates):
    out, assts = sorter(vs)
    s = z3.Solver()
    s.add(assts)
    s.add(vs[0] == 7, vs[1] == -1, vs[2] == 4, vs[3] == 0)
    r = s.check()
    print(sorter.__name__, r, [s.model()[o].as_long() for o in out] if r == z3.sat else None)
out, assts = sort_duplicates(vs)
s = z3.Solver()
s.add(assts)
s.add(vs[0] == 2, vs[1] == 2, vs[2] == 0, vs[3] == 2)
print("sort_duplicates ties", s.check(), [s.model()[o].as_long() for o in out])
out, assts = sort_no_duplicates(vs)
s = z3.Solver()
s.add(assts)
s.add(vs[0] == 2, vs[1] == 2, vs[2] == 0, vs[3] == 2)
print("sort_no_duplicates ties", s.check())

cases = [
    ([100, 21, 21, 21], [7, 7, 7]),
    ([0], []),
    ([5, 4, 3, 2], [1, 2, 3]),
    ([5, 4, 3, 2], [3, 1, 3]),
    ([0, 0, 0], [0, 0]),
    ([1, 2, 3, 4, 5, 6], [2, 2, 5, 2, 5]),
    ([1, 2, 3], [1, 2, 3]),
    ([], []),
    ([1, 2], []),
    ([], [1]),
    ([1.0, 2, True], [1, True]),
]
for levels, times in cases:
    lv, tm = list(levels), list(times)
    try:
        res = clean_buffer_levels(lv, tm)
        print("clean", levels, times, "->", res, type(res).__name__, "| inputs after:", lv, tm)
    except Exception as exc:  # pylint: disable=broad-except
        print("clean", levels, times, "-> ERROR", type(exc).__name__, exc, "| inputs after:", lv, tm)
