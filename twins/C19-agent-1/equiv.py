"""Equivalence script for the C19 refactoring (debug mode / unsat core report).

Run with:  cd /tmp/t3_C19 && /venv/bin/python _twin/equiv.py
Prints, for every scenario, a canonical description of the outcome. Random
parts: uuid4 is seeded (see below), computation times are masked.
"""
import contextlib
import io
import os
import re
import sys

sys.path.insert(0, os.getcwd())

# The library draws the tracker names (and the object uids) from uuid.uuid4.
# z3 orders unsat cores and models according to these names, so with really
# random names two runs of the *same* code print different things. A seeded
# replacement makes every run reproducible, and makes the comparison stronger:
# the refactored code must call uuid4 the same number of times, in the same
# order, and associate the same tracker name to the same constraint.
import random  # noqa: E402
import uuid  # noqa: E402

_RNG = random.Random(20240919)


def _seeded_uuid4():
    return uuid.UUID(int=_RNG.getrandbits(128), version=4)


uuid.uuid4 = _seeded_uuid4

import z3  # noqa: E402

import processscheduler as ps  # noqa: E402

assert os.path.dirname(os.path.dirname(ps.__file__)) == os.getcwd(), ps.__file__


def mask(text: str) -> str:
    """only computation times are masked, names are reproducible (see above)"""
    text = re.sub(r"checked in \d+\.\d+s", "checked in <T>s", text)
    text = re.sub(r"elapsed time:\d+\.\d+s", "elapsed time:<T>s", text)
    text = re.sub(r"total number of iterations: (\d+)\. Computation time: \S+", r"iterations: \1", text)
    return text


def describe_solution(solution) -> str:
    if solution is False:
        return "False"
    parts = []
    for name in sorted(solution.tasks):
        t = solution.tasks[name]
        parts.append(
            f"{name}:sched={t.scheduled},start={t.start},end={t.end},"
            f"dur={t.duration},res={sorted(t.assigned_resources)}"
        )
    for name in sorted(solution.buffers):
        b = solution.buffers[name]
        parts.append(f"{name}:level={b.level},times={b.level_change_times}")
    for name in sorted(solution.indicators):
        parts.append(f"{name}={solution.indicators[name]}")
    return "; ".join(parts)


def run(label, build, debug, after_init=None, **solver_kwargs):
    """build the problem, solve it, print a canonical report"""
    print(f"##### {label} (debug={debug})")
    out = io.StringIO()
    assertions_before, map_before, keys_ok = [], [], None
    try:
        with contextlib.redirect_stdout(out):
            problem = build()
            solver = ps.SchedulingSolver(problem=problem, debug=debug, **solver_kwargs)
            solver.initialize()
            if after_init is not None:
                after_init(problem, solver)
            assertions_before = sorted(mask(str(a)) for a in solver._solver.assertions())
            map_before = sorted(solver._map_boolrefs_to_constraints.items())
            keys_ok = all(
                re.fullmatch(r"asst_[0-9a-f]{8}", k)
                for k in solver._map_boolrefs_to_constraints
            )
            result = solver.solve()
        outcome = describe_solution(result)
    except Exception as exc:  # pylint: disable=broad-except
        outcome = f"EXCEPTION {type(exc).__name__}: {mask(str(exc))}"
    printed = out.getvalue()
    print("outcome:", outcome)
    print("nb assertions:", len(assertions_before))
    for a in assertions_before:
        print("  A", a.replace("\n", " "))
    print("tracker->constraint:", map_before, "keys well formed:", keys_ok)
    # the infeasibility diagnosis, as printed
    idx = printed.find("Unsatisfied constraints")
    if idx < 0:
        print("diagnosis: <none>")
    else:
        diagnosis = mask(printed[idx:])
        print("diagnosis:")
        for line in diagnosis.splitlines():
            print("  D", line)
        print("  nb '====' blocks:", diagnosis.count("===="))
    # full stdout, without the statistics (timings, memory) block; the
    # "Solution:" block (print_solution, untouched by the refactoring) lists
    # the model declarations in a z3 internal order that depends on the random
    # tracker names: its lines are sorted.
    kept = []
    state = None
    solution_lines = []
    for line in mask(printed).splitlines():
        if line.startswith("Solver statistics:"):
            state = "stats"
            continue
        if state == "stats" and re.match(r"^\s+[^:>]+: ", line) and "->" not in line:
            continue
        if line.startswith("Solution:"):
            state = "solution"
            kept.append(line)
            continue
        if state == "solution":
            # print_solution is the last thing solve() prints; a value may
            # span several lines (arrays, functions): glue them to their entry
            if re.match(r"^\s+-> ", line) or not solution_lines:
                solution_lines.append(line)
            else:
                solution_lines[-1] += " | " + line.strip()
            continue
        state = None
        kept.append(line)
    kept.extend(sorted(solution_lines))
    # the order of assertions is the insertion order: keep it, it must not change
    print("stdout digest:")
    for line in kept:
        print("  S", line)
    print()


# ---------------------------------------------------------------- scenarios
def pb_conflict_start_precedence():
    pb = ps.SchedulingProblem(name="ConflictStartPrecedence", horizon=10)
    t1 = ps.FixedDurationTask(name="t1", duration=3)
    t2 = ps.FixedDurationTask(name="t2", duration=3)
    ps.TaskStartAt(name="c_start_t1_at_5", task=t1, value=5)
    ps.TaskStartAt(name="c_start_t2_at_0", task=t2, value=0)
    ps.TaskPrecedence(name="c_t1_before_t2", task_before=t1, task_after=t2)
    ps.TaskEndBefore(name="c_innocent", task=t1, value=9)
    return pb


def pb_horizon_only():
    # infeasible without any constraint: the diagnosis lists 0 constraints
    pb = ps.SchedulingProblem(name="HorizonOnly", horizon=2)
    ps.FixedDurationTask(name="too_long", duration=3)
    return pb


def pb_feasible_with_constraints():
    pb = ps.SchedulingProblem(name="Feasible", horizon=8)
    t1 = ps.FixedDurationTask(name="t1", duration=2)
    t2 = ps.ZeroDurationTask(name="t2")  # edge: zero duration
    t3 = ps.VariableDurationTask(name="t3", min_duration=1, max_duration=3)
    w = ps.Worker(name="w")
    t1.add_required_resource(w)
    t3.add_required_resource(w)
    ps.TaskStartAt(name="c_t1_0", task=t1, value=0)  # edge: value 0
    ps.TaskStartAt(name="c_t2_0", task=t2, value=0)
    ps.TaskPrecedence(name="c_prec", task_before=t1, task_after=t3, offset=1)
    ps.TaskEndAt(name="c_t3_end", task=t3, value=6)
    return pb


def pb_optional_conflict():
    pb = ps.SchedulingProblem(name="OptionalConflict", horizon=5)
    t1 = ps.FixedDurationTask(name="t1", duration=4)
    t2 = ps.FixedDurationTask(name="t2", duration=4, optional=True)
    w = ps.Worker(name="w")
    t1.add_required_resource(w)
    t2.add_required_resource(w)
    ps.ForceScheduleNOptionalTasks(
        name="c_force_t2", list_of_optional_tasks=[t2], nb_tasks_to_schedule=1
    )
    c_opt = ps.TaskStartAt(name="c_opt_start", task=t1, value=1, optional=True)
    ps.ForceApplyNOptionalConstraints(
        name="c_force_apply", list_of_optional_constraints=[c_opt], nb_constraints_to_apply=1
    )
    return pb


def pb_optional_feasible():
    pb = ps.SchedulingProblem(name="OptionalFeasible", horizon=5)
    t1 = ps.FixedDurationTask(name="t1", duration=4)
    t2 = ps.FixedDurationTask(name="t2", duration=4, optional=True)
    w = ps.Worker(name="w")
    t1.add_required_resource(w)
    t2.add_required_resource(w)
    ps.TaskStartAt(name="c_opt_start", task=t1, value=1, optional=True)
    return pb


def pb_buffer_conflict():
    pb = ps.SchedulingProblem(name="BufferConflict", horizon=10)
    t1 = ps.FixedDurationTask(name="t1", duration=2)
    t2 = ps.FixedDurationTask(name="t2", duration=2)
    buf = ps.NonConcurrentBuffer(name="buf", initial_level=3, lower_bound=0)
    ps.TaskUnloadBuffer(name="c_unload_t1", task=t1, buffer=buf, quantity=2)
    ps.TaskUnloadBuffer(name="c_unload_t2", task=t2, buffer=buf, quantity=2)
    return pb


def pb_buffer_feasible():
    pb = ps.SchedulingProblem(name="BufferFeasible", horizon=10)
    t1 = ps.FixedDurationTask(name="t1", duration=2)
    t2 = ps.FixedDurationTask(name="t2", duration=2)
    buf = ps.NonConcurrentBuffer(name="buf", initial_level=0, lower_bound=0)
    ps.TaskLoadBuffer(name="c_load_t1", task=t1, buffer=buf, quantity=2)
    ps.TaskUnloadBuffer(name="c_unload_t2", task=t2, buffer=buf, quantity=2)
    return pb


def pb_resource_conflict():
    pb = ps.SchedulingProblem(name="ResourceConflict", horizon=6)
    t1 = ps.FixedDurationTask(name="t1", duration=3)
    t2 = ps.FixedDurationTask(name="t2", duration=3)
    w = ps.Worker(name="w")
    t1.add_required_resource(w)
    t2.add_required_resource(w)
    ps.ResourceUnavailable(name="c_unavail", resource=w, list_of_time_intervals=[(0, 1)])
    ps.WorkLoad(
        name="c_workload", resource=w, dict_time_intervals_and_bound={(0, 6): 6}, kind="min"
    )
    return pb


def pb_expression_conflict():
    pb = ps.SchedulingProblem(name="ExpressionConflict", horizon=10)
    t1 = ps.FixedDurationTask(name="t1", duration=3)
    ps.ConstraintFromExpression(name="c_expr_low", expression=t1._start > 8)
    ps.ConstraintFromExpression(name="c_expr_irrelevant", expression=t1._start >= 0)
    # a constraint made of a negation: the wrapped one is created from an assertion
    ps.Not(name="c_not", constraint=ps.TaskStartAt(name="c_wrapped", task=t1, value=2))
    return pb


def pb_objective():
    pb = ps.SchedulingProblem(name="Objective", horizon=12)
    t1 = ps.FixedDurationTask(name="t1", duration=3)
    t2 = ps.FixedDurationTask(name="t2", duration=2)
    ps.TaskPrecedence(name="c_prec", task_before=t1, task_after=t2)
    ps.ObjectiveMinimizeMakespan()
    return pb


def pb_objective_unsat():
    pb = pb_objective()
    ps.TaskEndBefore(name="c_too_early", task=pb.tasks["t2"], value=4)
    return pb


def drop_constraint(name):
    def _after(problem, solver):
        # the tracker map now refers to a name that is unknown to the problem:
        # the diagnosis must fail the same way (KeyError) before and after
        del problem.constraints[name]

    return _after


SCENARIOS = [
    ("conflict start/precedence", pb_conflict_start_precedence, {}),
    ("horizon only, no constraint", pb_horizon_only, {}),
    ("feasible with constraints, zero values", pb_feasible_with_constraints, {}),
    ("optional task/constraint conflict", pb_optional_conflict, {}),
    ("optional feasible", pb_optional_feasible, {}),
    ("buffer conflict", pb_buffer_conflict, {}),
    ("buffer feasible", pb_buffer_feasible, {}),
    ("resource conflict", pb_resource_conflict, {}),
    ("expression and Not conflict", pb_expression_conflict, {}),
    ("objective incremental", pb_objective, {}),
    ("objective optimize", pb_objective, {"optimizer": "optimize"}),
    ("objective unsat incremental", pb_objective_unsat, {}),
    ("conflict with logics QF_IDL", pb_conflict_start_precedence, {"logics": "QF_IDL"}),
]

for label, build, kwargs in SCENARIOS:
    for debug in (True, False):
        run(label, build, debug, **kwargs)

# the unsat core refers to a constraint that has been removed from the problem
run(
    "conflict, constraint removed after initialize",
    pb_conflict_start_precedence,
    True,
    after_init=drop_constraint("c_start_t1_at_5"),
)


# ------------------------------------------- append_z3_assertion, directly
def direct_append(debug):
    print(f"##### direct append_z3_assertion (debug={debug})")
    pb = ps.SchedulingProblem(name="Direct", horizon=4)
    solver = ps.SchedulingSolver(problem=pb, debug=debug)
    with contextlib.redirect_stdout(io.StringIO()):
        solver.initialize()
    x, y = z3.Ints("x y")
    calls = [
        ("single, no name", (x > 0,), {}),
        ("single, name", (x < 5, "n1"), {}),
        ("list, name", ([y > x, y < 10], "n2"), {}),
        ("list, no name", ([y != 3],), {}),
        ("empty list, name", ([], "n3"), {}),
        ("keyword name", ([x + y == 7],), {"higher_constraint_name": "n1"}),
        ("empty string name", (x != 2, ""), {}),
        ("tuple (not a list)", ((x != 1, y != 1), "n4"), {}),
        ("python bool", (True, "n5"), {}),
        ("not a z3 expression", ("foo", "n6"), {}),
    ]
    for what, args, kw in calls:
        try:
            ret = solver.append_z3_assertion(*args, **kw)
            res = f"returned {ret!r}"
        except BaseException as exc:  # z3 may raise Z3Exception / AttributeError
            res = f"EXCEPTION {type(exc).__name__}: {mask(str(exc))}"
        print(
            f"  {what}: {res}; nb assertions={len(solver._solver.assertions())}; "
            f"map={sorted(solver._map_boolrefs_to_constraints.items())}"
        )
    for a in sorted(mask(str(a)) for a in solver._solver.assertions()):
        print("  A", a)
    print("  check:", solver._solver.check())
    print()


direct_append(True)
direct_append(False)
