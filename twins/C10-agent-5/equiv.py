"""Equivalence script for the C10 refactoring (base.NamedUIDObject.append_z3_assertion /
append_z3_list_of_assertions, resource_constraint.SameWorkers, task_constraint.ForceScheduleNOptionalTasks).

Run from the worktree root:  cd /tmp/t6_C10 && /venv/bin/python _twin/equiv.py
Prints, for every small problem, a canonical description: the assertions of each
constraint (in order), the sorted assertions of the solver, and the solve outcome.
"""
import contextlib
import io
import os
import re
import sys

sys.path.insert(0, os.getcwd())

import z3  # noqa: E402

import processscheduler as ps  # noqa: E402
from processscheduler.base import NamedUIDObject  # noqa: E402

assert os.path.abspath(ps.__file__).startswith(os.getcwd()), ps.__file__


class Masker:
    """uuid ints (long digit runs) are replaced by an ordinal, by order of first appearance"""

    def __init__(self):
        self.known = {}

    def __call__(self, text):
        def repl(match):
            key = match.group(0)
            if key not in self.known:
                self.known[key] = f"<UID{len(self.known)}>"
            return self.known[key]

        text = re.sub(r"\d{20,}", repl, text)
        return re.sub(r"asst_[0-9a-f]{8}", "asst_<HEX>", text)


def one_line(obj):
    return " ".join(str(obj).split())


def describe(title, build, solve=True, values=True):
    print(f"=== {title}")
    mask = Masker()
    try:
        pb, tasks = build()
    except Exception as exc:  # the error raised is the outcome
        print(f"  build error: {type(exc).__name__}: {one_line(mask(str(exc)))[:400]}")
        return
    for name, cstr in pb.constraints.items():
        print(
            f"  constraint {name}: optional={cstr.optional} "
            f"from_assertion={cstr._created_from_assertion} applied={mask(str(cstr._applied))}"
        )
        for asst in cstr.get_z3_assertions():
            print(f"      {one_line(mask(str(asst)))}")
        print(f"      nb_hashes={len(cstr._z3_assertion_hashes)}")
    if not solve:
        return
    solver = ps.SchedulingSolver(problem=pb)
    with contextlib.redirect_stdout(io.StringIO()):
        try:
            solver.initialize()
            init_error = None
        except Exception as exc:
            init_error = exc
    if init_error is not None:
        print(f"  initialize error: {type(init_error).__name__}: {one_line(mask(str(init_error)))[:400]}")
        return
    for line in sorted(one_line(mask(str(a))) for a in solver._solver.assertions()):
        print(f"  solver: {line}")
    solver2 = ps.SchedulingSolver(problem=pb)
    with contextlib.redirect_stdout(io.StringIO()):
        try:
            solution = solver2.solve()
        except Exception as exc:
            solution = exc
    if isinstance(solution, Exception):
        print(f"  solve error: {type(solution).__name__}: {one_line(mask(str(solution)))[:400]}")
    elif not solution:
        print("  solve: no solution")
    else:
        print(f"  solve: sat horizon={solution.horizon}")
        if values:
            for tname in sorted(solution.tasks):
                t = solution.tasks[tname]
                print(
                    f"    {tname}: scheduled={t.scheduled} start={t.start} end={t.end} "
                    f"resources={sorted(t.assigned_resources)}"
                )
        # which optional constraints are applied
        model = solver2._solver.model()
        for name, cstr in pb.constraints.items():
            if cstr.optional and values:
                print(f"    applied[{name}]={model.eval(cstr._applied, model_completion=True)}")


# ---------------------------------------------------------------- 1. not / or / and / xor
def case_not():
    pb = ps.SchedulingProblem(name="not", horizon=3)
    t = ps.FixedDurationTask(name="t", duration=2)
    ps.Not(name="not_start0", constraint=ps.TaskStartAt(name="start0", task=t, value=0))
    return pb, [t]


def case_or_and_xor():
    pb = ps.SchedulingProblem(name="oax", horizon=6)
    t1 = ps.FixedDurationTask(name="t1", duration=2)
    t2 = ps.FixedDurationTask(name="t2", duration=2)
    ps.Or(
        name="or",
        list_of_constraints=[
            ps.TaskStartAt(name="t1_at0", task=t1, value=0),
            ps.TaskStartAt(name="t1_at4", task=t1, value=4),
        ],
    )
    ps.Not(name="not_t1_at0", constraint=t1._start == 0)
    ps.And(
        name="and",
        list_of_constraints=[
            ps.TaskStartAfter(name="t2_after1", task=t2, value=1, kind="strict"),
            ps.TaskEndBefore(name="t2_before4", task=t2, value=4),
        ],
    )
    ps.Xor(
        name="xor",
        constraint_1=ps.TaskEndAt(name="t2_end4", task=t2, value=4),
        constraint_2=ps.TaskEndAt(name="t2_end5", task=t2, value=5),
    )
    ps.TasksDontOverlap(name="no_overlap", task_1=t1, task_2=t2)
    return pb, [t1, t2]


# ---------------------------------------------------------------- 2. implies / if then else
def case_implies_ite():
    pb = ps.SchedulingProblem(name="imp", horizon=8)
    t1 = ps.FixedDurationTask(name="t1", duration=2)
    t2 = ps.FixedDurationTask(name="t2", duration=3)
    t3 = ps.FixedDurationTask(name="t3", duration=1, optional=True)
    ps.TaskStartAt(name="t1_at0", task=t1, value=0)
    ps.Implies(
        name="imp",
        condition=t1._start == 0,
        list_of_constraints=[ps.TaskStartAt(name="t2_at5", task=t2, value=5)],
    )
    ps.IfThenElse(
        name="ite",
        condition=t2._start < 3,
        then_list_of_constraints=[ps.TaskStartAt(name="t3_at7", task=t3, value=7)],
        else_list_of_constraints=[
            ps.TaskStartAt(name="t3_at3", task=t3, value=3),
            ps.OptionalTaskForceSchedule(name="t3_force", task=t3, to_be_scheduled=True),
        ],
    )
    return pb, [t1, t2, t3]


# ---------------------------------------------------------------- 3. optional constraints, force apply N
def make_case_force_apply(kind, n):
    def build():
        pb = ps.SchedulingProblem(name=f"fa_{kind}_{n}", horizon=5)
        t = ps.FixedDurationTask(name="t", duration=1)
        c0 = ps.TaskStartAt(name="at0", task=t, value=0, optional=True)
        c2 = ps.TaskStartAt(name="at2", task=t, value=2, optional=True)
        c4 = ps.TaskEndAt(name="end5", task=t, value=5, optional=True)
        ps.ForceApplyNOptionalConstraints(
            name="force",
            list_of_optional_constraints=[c0, c2, c4],
            nb_constraints_to_apply=n,
            kind=kind,
        )
        ps.ConstraintFromExpression(name="expr", expression=t._start != 4)
        return pb, [t]

    return build


def case_force_apply_not_optional():
    pb = ps.SchedulingProblem(name="fa_err", horizon=5)
    t = ps.FixedDurationTask(name="t", duration=1)
    c0 = ps.TaskStartAt(name="at0", task=t, value=0)
    ps.ForceApplyNOptionalConstraints(name="force", list_of_optional_constraints=[c0])
    return pb, [t]


# ---------------------------------------------------------------- 4. force schedule N optional tasks
def make_case_force_schedule(kind, n, nb_tasks=3, optional_flags=None, optional_cstr=False):
    def build():
        pb = ps.SchedulingProblem(name=f"fs_{kind}_{n}", horizon=4)
        flags = optional_flags or [True] * nb_tasks
        tasks = [
            ps.FixedDurationTask(name=f"t{i}", duration=2, optional=flag)
            for i, flag in enumerate(flags)
        ]
        w = ps.Worker(name="w")
        for task in tasks:
            task.add_required_resource(w)
        kwargs = {"kind": kind} if kind is not None else {}
        if n is not None:
            kwargs["nb_tasks_to_schedule"] = n
        ps.ForceScheduleNOptionalTasks(
            name="force_sched", list_of_optional_tasks=tasks, optional=optional_cstr, **kwargs
        )
        return pb, tasks

    return build


def case_force_schedule_in_combination():
    pb = ps.SchedulingProblem(name="fs_comb", horizon=4)
    tasks = [ps.FixedDurationTask(name=f"t{i}", duration=2, optional=True) for i in range(2)]
    inner = ps.ForceScheduleNOptionalTasks(
        name="force_sched", list_of_optional_tasks=tasks, nb_tasks_to_schedule=2, kind="min"
    )
    ps.Not(name="not_both", constraint=inner)
    ps.ForceScheduleNOptionalTasks(
        name="at_least_one", list_of_optional_tasks=tasks, nb_tasks_to_schedule=1, kind="min"
    )
    ps.TaskStartAt(name="t0_at0", task=tasks[0], value=0)
    ps.TaskStartAt(name="t1_at0", task=tasks[1], value=0)
    ps.OptionalTaskForceSchedule(name="t1_not", task=tasks[1], to_be_scheduled=False)
    return pb, tasks


# ---------------------------------------------------------------- 5. SameWorkers
def make_case_same_workers(names_1, names_2, optional=False, wrap=None, same_object=False):
    def build():
        pb = ps.SchedulingProblem(name="sw", horizon=4)
        all_names = list(dict.fromkeys(names_1 + names_2))
        workers = {n: ps.Worker(name=n) for n in all_names}
        t1 = ps.FixedDurationTask(name="t1", duration=2)
        t2 = ps.FixedDurationTask(name="t2", duration=2)
        s1 = ps.SelectWorkers(name="s1", list_of_workers=[workers[n] for n in names_1], nb_workers_to_select=1)
        t1.add_required_resource(s1)
        if same_object:
            s2 = s1
        else:
            s2 = ps.SelectWorkers(name="s2", list_of_workers=[workers[n] for n in names_2], nb_workers_to_select=1)
            t2.add_required_resource(s2)
        same = ps.SameWorkers(name="same", select_workers_1=s1, select_workers_2=s2, optional=optional)
        if wrap == "not":
            ps.Not(name="not_same", constraint=same)
        elif wrap == "force":
            ps.ForceApplyNOptionalConstraints(name="force", list_of_optional_constraints=[same])
        elif wrap == "distinct_xor":
            ps.Xor(
                name="xor",
                constraint_1=same,
                constraint_2=ps.DistinctWorkers(name="dist", select_workers_1=s1, select_workers_2=s2),
            )
        ps.TaskStartAt(name="t1_at0", task=t1, value=0)
        ps.TaskStartAt(name="t2_at0", task=t2, value=0)
        return pb, [t1, t2]

    return build


# ---------------------------------------------------------------- 6. the assertion store (base.NamedUIDObject)
def case_assertion_store():
    print("=== assertion store")
    ps.SchedulingProblem(name="store")
    x, y = z3.Ints("x y")
    obj = NamedUIDObject(name="obj")
    print("  append ->", obj.append_z3_assertion(x > 0))
    print("  append ->", obj.append_z3_assertion(y > 0))
    try:
        obj.append_z3_assertion(x > 0)
    except Exception as exc:
        print(f"  duplicate: {type(exc).__name__}: {exc}")
    print("  list ->", obj.append_z3_list_of_assertions([x > 1, x > 2]))
    try:
        obj.append_z3_list_of_assertions([x > 3, y > 0, x > 4])
    except Exception as exc:
        print(f"  duplicate in list: {type(exc).__name__}: {exc}")
    print("  list of none ->", obj.append_z3_list_of_assertions([]))
    print("  generator ->", obj.append_z3_list_of_assertions(a for a in (x > 5, x > 6)))
    try:
        obj.append_z3_assertion([x > 7])
    except Exception as exc:
        print(f"  unhashable: {type(exc).__name__}: {exc}")
    try:
        obj.append_z3_list_of_assertions(None)
    except Exception as exc:
        print(f"  None list: {type(exc).__name__}: {exc}")
    print("  python bool ->", obj.append_z3_assertion(True))
    try:
        obj.append_z3_assertion(1)  # hash(1) == hash(True)
    except Exception as exc:
        print(f"  same hash: {type(exc).__name__}: {exc}")
    print("  assertions:", [str(a) for a in obj.get_z3_assertions()])
    print("  same list object:", obj.get_z3_assertions() is obj._z3_assertions)
    print("  hashes match:", obj._z3_assertion_hashes == [hash(a) for a in obj._z3_assertions])
    # a constraint given twice the same expression
    t = ps.FixedDurationTask(name="t", duration=1)
    c = ps.TaskStartAt(name="c", task=t, value=0)
    try:
        c.set_z3_assertions(t._start == 0)
    except Exception as exc:
        print(f"  constraint duplicate: {type(exc).__name__}: {exc}")
    o = ps.TaskStartAt(name="o", task=t, value=0, optional=True)
    try:
        o.set_z3_assertions(t._start == 0)
    except Exception as exc:
        print(f"  optional constraint duplicate: {type(exc).__name__}: {Masker()(str(exc))}")
    print("  c:", [str(a) for a in c.get_z3_assertions()], len(c._z3_assertion_hashes))


if __name__ == "__main__":
    describe("1a not(start at 0)", case_not)
    describe("1b or / and / xor, operands not enforced", case_or_and_xor)
    describe("2 implies / if-then-else with an optional task", case_implies_ite)
    for kind, n in [("exact", 1), ("min", 2), ("max", 1), ("exact", 3), ("min", 3)]:
        describe(f"3 force apply {kind} {n}", make_case_force_apply(kind, n), values=(kind, n) == ("min", 3))
    describe("3e force apply on a mandatory constraint", case_force_apply_not_optional)
    for kind, n in [("exact", 1), ("min", 2), ("max", 1), ("exact", 2), ("min", 3), (None, None), ("exact", 0), ("most", 1)]:
        describe(f"4 force schedule {kind} {n}", make_case_force_schedule(kind, n), values=False)
    describe("4b force schedule, one task mandatory", make_case_force_schedule("min", 1, optional_flags=[True, False, True]))
    describe("4c force schedule, first task mandatory", make_case_force_schedule("max", 1, optional_flags=[False, True]))
    describe("4d force schedule, empty list", make_case_force_schedule("exact", 1, optional_flags=[], nb_tasks=0))
    describe("4e force schedule, optional constraint", make_case_force_schedule("exact", 2, nb_tasks=2, optional_cstr=True), values=False)
    describe("4f force schedule, single task", make_case_force_schedule("exact", 1, nb_tasks=1))
    describe("4g force schedule inside not", case_force_schedule_in_combination)
    describe("5a same workers [w1,w2] [w1,w3]", make_case_same_workers(["w1", "w2"], ["w1", "w3"]))
    describe("5b same workers identical lists", make_case_same_workers(["w1", "w2"], ["w2", "w1"]), values=False)
    describe("5c same workers disjoint", make_case_same_workers(["w1", "w2"], ["w3", "w4"]))
    describe("5d same workers optional", make_case_same_workers(["w1", "w2", "w5"], ["w3", "w1", "w4"], optional=True), values=False)
    describe("5e same workers optional forced", make_case_same_workers(["w1", "w2"], ["w3", "w1", "w4"], optional=True, wrap="force"))
    describe("5f not(same workers)", make_case_same_workers(["w1", "w2"], ["w1", "w3"], wrap="not"), values=False)
    describe("5g same workers, one selection twice", make_case_same_workers(["w1", "w2"], [], same_object=True), values=False)
    describe("5h xor(same, distinct)", make_case_same_workers(["w1", "w2"], ["w2", "w3"], wrap="distinct_xor"), values=False)
    describe("5i same workers subset", make_case_same_workers(["w1", "w2"], ["w3", "w1", "w2"]))
    describe("5j same workers superset", make_case_same_workers(["w2", "w1", "w3"], ["w3", "w1"]))
    case_assertion_store()
